#!/bin/bash
# validates MANIFEST.json and every evidence file against the published schemas (tooling venv has jsonschema)
python3-vt - <<'PY'
import json, jsonschema, glob, sys
ok = True
m = json.load(open('/verif/MANIFEST.json'))
jsonschema.validate(m, json.load(open('/root/.vp/MANIFEST.schema.json')))
es = json.load(open('/root/.vp/EVIDENCE.schema.json'))
for c in m['checks']:
    try:
        e = json.load(open(c['evidence_file']))
        jsonschema.validate(e, es)
        assert e['level'] == c['level_claimed']['category'], (e['level'], c['level_claimed']['category'])
        print('ok', c['property_id'], e['tier'], e['wall_s'])
    except Exception as ex:
        ok = False
        print('BAD', c['property_id'], str(ex)[:300])
sys.exit(0 if ok else 1)
PY
