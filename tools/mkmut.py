#!/usr/bin/env python3
"""mkmut.py <name> <file relative to repo> <old> <new> : writes /verif/mutants/<name>.diff (unified diff of a single textual replacement)"""
import sys, difflib
name, rel, old, new = sys.argv[1:5]
src = open(f"/repo/{rel}").read()
n = src.count(old)
if n != 1:
    sys.exit(f"{name}: pattern occurs {n} times in {rel}")
dst = src.replace(old, new)
diff = difflib.unified_diff(src.splitlines(True), dst.splitlines(True), f"a/{rel}", f"b/{rel}")
open(f"/verif/mutants/{name}.diff", "w").write("".join(diff))
print("wrote", name)
