#!/usr/bin/env python3
"""regenerates the table of independently seeded changes in DESIGN.md (section 7.4) from /verif/seeded/*/meta.json and mutants/LOG.md"""
import json, glob, os, re
rows = []
for d in sorted(glob.glob("/verif/seeded/*")):
    mp = os.path.join(d, "meta.json")
    if not os.path.exists(mp):
        continue
    m = json.load(open(mp))
    sid = os.path.basename(d)
    hist = m.get("check_history", [])
    first = hist[0]["results"] if hist else {}
    last = {}
    for h in hist:
        last.update(h["results"])
    conf = m.get("confirmed_by_coordinator", {})
    suite = (conf.get("upstream_suite") or ["?"])[0]
    ok = conf.get("demo_without_change", [None])[0] == 0 and (conf.get("demo_with_change", [0])[0] or 0) != 0 and "regressions=0" in suite
    def fmt(r):
        return ", ".join(f"{c}: {v}" for c, v in sorted(r.items())) or "-"
    rows.append(f"| {sid} | {m.get('file', '?')} | {m.get('summary', '').replace('|', '/')[:230]} | {m.get('needs', '').replace('|', '/')[:200]} | "
                f"{'yes' if ok else 'NO'} | {fmt(first)} | {fmt(last)} |")
table = ("| id | file | change | needs | confirmed (demo 0/!=0, suite ok) | first run of the checks | current checks |\n|---|---|---|---|---|---|---|\n" + "\n".join(rows))
p = "/verif/DESIGN.md"
s = open(p).read()
begin, end = "<!-- SEEDED-BEGIN -->", "<!-- SEEDED-END -->"
block = f"{begin}\n{table}\n{end}"
if begin in s:
    s = re.sub(re.escape(begin) + r".*?" + re.escape(end), lambda _m: block, s, flags=re.S)
else:
    s += "\n### 7.4 Independently seeded changes (sub-agents given only the property text) and which checks catch them\n\n" \
         "Each change was confirmed by the coordinator in a fresh scratch worktree (demo exits 0 without / non-zero with the change; upstream suite keeps all 1002 stable tests) " \
         "and is kept under `/verif/seeded/<id>/` (patch.diff, demo.py, meta.json with the full check history). 'first run' is the verdict of the checks as they were when the change arrived; " \
         "where it says MISSED the check was then strengthened (commit message names the seed) and re-run.\n\n" + block + "\n"
open(p, "w").write(s)
print(len(rows), "rows")
