#!/bin/bash
# runs every registered quick (or $TIER) check on /repo sequentially and prints one line each; regenerates all evidence files
cd /verif
for c in $(python3 -c "import json;print(' '.join(x['property_id'] for x in json.load(open('MANIFEST.json'))['checks']))"); do
  /usr/bin/time -f "$c wall=%es" ./check $c --tier ${TIER:-quick} 2>&1 | grep -v conda | grep -E "^VIOLATION|^KNOWN|^ERROR|tier=|wall=" | cut -c1-160
done
