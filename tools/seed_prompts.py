#!/usr/bin/env python3
"""seed_prompts.py <wave>: writes /tmp/seed_prompt_Cxx_<wave>.txt for every property and creates the scratch worktrees /tmp/seed-Cxx-<wave>.
The prompt contains the property text and one-line summaries of the changes already collected (so that a new author picks something else);
nothing else from /verif is given to the authors."""
import glob, json, os, subprocess, sys
wave = sys.argv[1]
only = sys.argv[2:]
tpl = open("/verif/tools/seed_prompt.tpl").read()
props = [json.loads(l) for l in open("/verif/properties.jsonl")]
os.makedirs("/tmp/seedtools", exist_ok=True)
subprocess.run(["cp", "/verif/tools/baseline.py", "/tmp/seedtools/baseline.py"], check=True)
for p in props:
    pid = p["id"]
    if only and pid not in only:
        continue
    taken = []
    for mp in sorted(glob.glob(f"/verif/seeded/{pid}-*/meta.json")):
        m = json.load(open(mp))
        taken.append(f"  - {m.get('file')}: {m.get('summary', '')[:330]}")
    wt = f"/tmp/seed-{pid}-{wave}"
    txt = (tpl.replace("@WT@", wt).replace("@PID@", pid).replace("@TITLE@", p["title"]).replace("@STATEMENT@", p["statement"])
           .replace("@QUANT@", p["quantifier"]["text"]).replace("@TAKEN@", "\n".join(taken)))
    open(f"/tmp/seed_prompt_{pid}_{wave}.txt", "w").write(txt)
    subprocess.run(["git", "-C", "/repo", "worktree", "remove", "--force", wt], capture_output=True)
    subprocess.run(["git", "-C", "/repo", "worktree", "add", "-q", "--detach", wt, "HEAD"], check=True)
print("ok")
