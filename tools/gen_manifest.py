#!/usr/bin/env python3
"""Regenerates MANIFEST.json from the table below (single source of truth for check registration)."""
import json, os
ROOT = os.path.dirname(os.path.dirname(os.path.abspath(__file__)))
props = [json.loads(l) for l in open(os.path.join(ROOT, "properties.jsonl"))]

# id -> (category, technique, level text, level note, design_ref)
CHECKS = {}
def reg(pid, category, technique, text, note, ref=None):
    CHECKS[pid] = (category, technique, text, note, ref or f"DESIGN.md section 2, {pid}")

exec(open(os.path.join(ROOT, "tools", "checks_table.py")).read())

NOT_APPLICABLE = {}
exec(open(os.path.join(ROOT, "tools", "na_table.py")).read())

man = {
    "version": 1,
    "setup_cmd": "cd /verif && PYTHONPATH=/repo:/verif /venv/bin/python -c \"import vf.core.main\"",
    "hooks": {
        "guard": "AMARANTH_VERIF",
        "enable": "no source hooks exist: all interception (ordered choice sets, clock ownership) is injected by the harness at import time; ./check exports AMARANTH_VERIF=1 for completeness",
        "baseline_off_cmd": "cd /repo && /venv/bin/python -m pytest -ra -q -p no:cacheprovider --timeout=900 --continue-on-collection-errors",
        "source_commits": [],
        "add_only": True,
    },
    "engines": [
        {"name": "vf", "path": "/verif/vf", "serves_properties": sorted(CHECKS),
         "kind_free_text": "hand-written explicit-state / bounded-exhaustive explorer driving the real amaranth code (python), with small reference models"},
    ],
    "checks": [],
    "not_applicable": [],
    "notes": "All checks: ./check <id> --tier quick|thorough. known_findings.json lists recorded/fixed genuine defects.",
}
for p in props:
    pid = p["id"]
    if pid in CHECKS:
        cat, tech, text, note, ref = CHECKS[pid]
        man["checks"].append({
            "property_id": pid,
            "quick_cmd": f"./check {pid} --tier quick",
            "thorough_cmd": f"./check {pid} --tier thorough",
            "evidence_file": f"/verif/evidence/{pid}.json",
            "replay_cmd_template": f"./check {pid} --replay {{path}}",
            "engine": "vf",
            "level_claimed": {"category": cat, "text": text, "design_ref": ref},
            "level_note": note,
            "technique": tech,
        })
    else:
        man["not_applicable"].append({"property_id": pid, "reason": NOT_APPLICABLE.get(pid, "check not built yet in this session (planned, see DESIGN.md section 2)")})
json.dump(man, open(os.path.join(ROOT, "MANIFEST.json"), "w"), indent=1)
print("checks:", [c["property_id"] for c in man["checks"]])
