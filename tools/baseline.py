#!/usr/bin/env python3
"""Runs the upstream suite in a repo dir (default /repo) and reports every BASELINE stable_pass test that no longer passes."""
import json, subprocess, sys, os, tempfile, xml.etree.ElementTree as ET
repo = sys.argv[1] if len(sys.argv) > 1 else "/repo"
extra = sys.argv[2:]
base = json.load(open("/root/.vp/BASELINE.json"))
stable = set(base["stable_pass"])
fd, path = tempfile.mkstemp(suffix=".xml"); os.close(fd)
cmd = ["/venv/bin/python", "-m", "pytest", "-q", "-p", "no:cacheprovider", "--timeout=900", "--continue-on-collection-errors",
       "-n", os.environ.get("N", "8"), f"--junitxml={path}"] + extra
env = dict(os.environ); env.pop("PYTHONPATH", None)
subprocess.run(cmd, cwd=repo, env=env, stdout=subprocess.DEVNULL, stderr=subprocess.DEVNULL)
passed = set()
for tc in ET.parse(path).getroot().iter("testcase"):
    if not any(ch.tag in ("failure", "error", "skipped") for ch in tc):
        passed.add(f"{tc.get('classname')}::{tc.get('name')}")
os.unlink(path)
missing = sorted(stable - passed)
print(f"stable_pass={len(stable)} passed_now={len(passed)} regressions={len(missing)}")
for m in missing[:40]:
    print("  REGRESSION", m)
sys.exit(1 if missing else 0)
