reg("C10", "exploration", "bounded-exhaustive enumeration of ranges/enums/(value,shape) pairs/constant terms against an integer reference",
    "Every range(a,b,s), enum member tuple, (value, shape) pair, Const/Cat/Slice term and helper argument inside the stated bounds is "
    "executed on the real code and compared with a reference written with Python ints only; the space is enumerated completely, not sampled.",
    "Trusted: the 40-line integer reference (min_shape/wrap) in vf/props/c10.py. Bounds: |a|,|b|<=33 (130 thorough), widths<=6 (9).")
