reg("C10", "exploration", "bounded-exhaustive enumeration of ranges/enums/(value,shape) pairs/constant terms against an integer reference",
    "Every range(a,b,s), enum member tuple, (value, shape) pair, Const/Cat/Slice term and helper argument inside the stated bounds is "
    "executed on the real code and compared with a reference written with Python ints only; the space is enumerated completely, not sampled.",
    "Trusted: the 40-line integer reference (min_shape/wrap) in vf/props/c10.py. Bounds: |a|,|b|<=33 (130 thorough), widths<=6 (9).")
reg("C12", "model_checking", "explicit-state BFS of the real simulated FIFO x queue model, full reachable graph, all input valuations per edge",
    "The complete reachable state graph of the real SyncFIFO / SyncFIFOBuffered (registers + memory rows read and written through the "
    "public testbench API) in product with a tuple queue model is enumerated for every small (depth, width); safety invariants and the "
    "bounded-response liveness rules are evaluated on every transition; shortest paths are replayed from reset on fresh simulators.",
    "Trusted: the Python simulator as execution vehicle (cross-checked against RTLIL by C04), the 30-line queue model. Bounds: depth<=5 "
    "(<=12 thorough), width<=2.")
reg("C01", "exploration", "bounded-exhaustive enumeration of expression terms x all operand values against an integer reference semantics",
    "Every expression term up to the stated depth/width bounds (all operator forms, derived operators through the public API) is compiled into a "
    "real simulated comb circuit and evaluated under ALL valuations of its leaves; value, reported shape and representability are compared with "
    "a reference transcribed from the language guide and the operator docstrings. The space is enumerated completely.",
    "Trusted: vf/ref/expr.py (reference semantics, ~250 lines). Bounds: depth 1 width<=3 (4 thorough), depth 2 width<=2 (3 partially), depth-3 chains through reinterpreting forms.")
reg("C05", "exploration", "bounded-exhaustive enumeration of read terms and assignable target terms x all states x all written values, three-way differential",
    "Every assignable target of nesting depth<=2 (3 thorough) is written with ctx.set from every state of the underlying signals with every value, and "
    "compared bit-for-bit with (a) a per-bit address-map reference and (b) the same assignment compiled into a sync circuit; every read term is "
    "evaluated with ctx.get and compared with the circuit value and the reference.",
    "Trusted: vf/ref/expr.py + vf/ref/stmt.py bit-map semantics. Underlying signals are 3+2 bits wide; memory rows 2x3 bits.")
reg("C02", "exploration", "bounded-exhaustive enumeration of Module-DSL statement trees x all input valuations (comb) / x register states (sync) against a per-bit last-wins reference; FSMs by exhaustive input/reset sequences",
    "Every control-flow construct (If/Elif/Else, Switch with int / multi / don't-care / unreachable / empty / after-default cases, zero-width tests), all ordered "
    "pairs of assignments and all two-level nestings over a pool of assignment forms are built through the Module DSL, simulated, and compared under every valuation "
    "of the inputs they read with a reference implementing the statement literally; FSMs are driven with every input/reset sequence up to depth 4 (6).",
    "Trusted: vf/ref/stmt.py + vf/ref/expr.py. Targets 4+3 bits; five inputs of 1-3 bits; sync transition function checked pointwise from 5 register states.")
reg("C13", "model_checking", "explicit-state BFS of the real simulated AsyncFIFO / AsyncFIFOBuffered under every interleaving {write edge, read edge, both} x strobes, product with a queue model; liveness on the stored graph; exhaustive constructor sweep and periodic schedules",
    "The full reachable graph of registers + synchroniser flops + memory rows in product with the queue model is enumerated under every {W, R, both} x (w_en, w_data, r_en) "
    "action for depths 1-4 (quick) and up to AsyncFIFOBuffered(3, width 2) (thorough); safety on every transition, bounded-response liveness computed on the stored edge graph; "
    "every depth 0..34 x exact_depth x class must raise in the constructor or elaborate; larger depths are covered by exhaustive periodic clock schedules.",
    "Trusted: Python simulator as execution vehicle; 40-line queue model; the cone-of-influence alphabet reduction on the largest graphs is cross-checked successor by successor on full-alphabet graphs. Write-domain reset is not asserted.")
reg("C15", "exploration", "bounded-exhaustive enumeration of layout trees x all bit patterns against a plain-int placement/decode/assign reference; FlagView operators against a pure-Python enum.Flag twin",
    "Every layout inside the bounds (depth<=2, <=8 bits, 13 leaf kinds incl. signed and enum fields; struct/union/array/flexible/annotated classes) is checked on every bit pattern and field value: "
    "placement, const/read-back, from_bits/as_bits, the ShapeCastable laws, view fields in constant folding and in the Python simulator (ctx.get/ctx.set and a compiled comb module), assignment through "
    "fields with static and dynamic indices; shaped Enum/Flag round trips and all FlagView operator pairs per boundary mode.",
    "Trusted: vf/ref/c15_layout.py. The synthesis leg of the statement is evidenced through C04's RTLIL co-execution of view-field designs only indirectly (rtlil_leg hook skipped).")
reg("C16", "model_checking", "bounded-exhaustive enumeration (software CRC, catalogue) + explicit-state BFS of the simulated crc.Processor in product with a bit-serial Williams reference register",
    "compute()/residue() are compared with a bit-serial Rocksoft-model register for all parameter sets of crc_width<=4 (5) x data widths x word sequences, all 157 catalogue names against published check/residue values; "
    "the full reachable product graph of Processor x reference is explored for crc_width<=3 (4) under all (start, valid, data), checking crc and match_detected on every transition; catalogue algorithms by directed traces + bounded BFS.",
    "Trusted: vf/ref/c16_crc.py (bit-serial model), published values transcribed from the reveng table. Negative match clause demanded only for polynomials with an x^0 term (otherwise the register map is not injective).")
reg("C17", "model_checking", "explicit-state BFS of the real simulated CDC primitives (clock levels, input and reset levels toggled by actions) in product with delay-line / edge-counter / pulse-ledger models",
    "For every configuration in bounds of FFSynchronizer, AsyncFFSynchronizer, ResetSynchronizer and PulseSynchronizer the full reachable product graph is explored, every state expanded with every action and the "
    "output compared with an int model after every action; environment-assumption-violating PulseSynchronizer paths are pruned; async/reset synchronisers on negedge domains must be refused.",
    "Trusted: three ~40-line models in vf/props/c17.py; state injection validated by replay from reset. Bounds: FF stages<=4/6, width<=2/3; Async/Reset stages<=3/6; Pulse stages<=3/7. PulseSynchronizer latency is not pinned by the statement.")
reg("C18", "exploration", "bounded-exhaustive enumeration of port expressions / buffer configurations x all (o, oe, pad) valuations against a tuple reference algebra; FFBuffer by BFS with a register model; real ports via netlist and RTLIL evaluation",
    "All port expressions of depth<=2 over ~, indexing, slicing and + on every base port (width 0..3, all inversion masks, i/o/io) of the three port classes; Buffer on simulation ports for every legal/illegal direction pair and every valuation; "
    "FFBuffer full reachable graphs vs one register per direction; Buffer/FFBuffer on real ports evaluated through the fine netlist and the RTLIL text with exactly-one-use and DriverConflict checks.",
    "Trusted: vf/ref/c18_ref.py and the small netlist/RTLIL evaluators in vf/ref/c18_netlist.py. DDRBuffer and platform overrides are out of scope of the statement.")
reg("C04", "translation_validation", "co-execution: emitted RTLIL parsed and interpreted by an independent RTLIL interpreter, driven in lock-step with the real simulator over exhaustive stimuli (all valuations / joint-state BFS)",
    "Every program (expression batches from the C01 term space, statement batches from the C02 module-term space placed flat and split over child/grandchild/sibling modules, sequential designs: counters in "
    "pos/neg/async-reset domains, two-domain designs, memories, FIFOs, CDC cells) is converted with back.rtlil.convert; the text is interpreted under the published cell semantics and compared with the Python "
    "simulator on every output/register after every step: all input valuations for comb programs, register states loaded into both sides for sync programs, breadth-first joint state graph for sequential designs.",
    "Trusted: vf/rtlil/parse.py + vf/rtlil/interp.py (written from the Yosys cell library documentation; cannot be cross-checked against Yosys here), triage of each disagreement against vf/ref. Undefined RTLIL points (read-port power-on value) are compared under the 0 interpretation.")
reg("C07", "exploration", "bounded-exhaustive enumeration of hierarchies / name clashes / instances / memories, each emitted RTLIL document checked by a structural validator implementing the statement",
    "Every design of the enumerated families (4-node hierarchies with driver/user in every pair of nodes, 14 name pairs incl. duplicates, de-duplication-suffix clashes for every suffix value, "
    "private names, zero width, partial use, anonymous/duplicate/empty submodules; foreign instances with every parameter kind at 3 hierarchy levels; memories; library and statement-batch "
    "designs) is converted and the text validated: grammar, existence, unique names, equal widths, slice bounds, dense port ids, exactly one driver per wire bit, submodule port agreement, instance fidelity.",
    "Trusted: vf/rtlil/parse.py and vf/rtlil/validate.py (cell port directions from the Yosys cell library). Signal names containing whitespace are outside the alphabet (the statement does not list them).")
reg("C14", "exploration", "bounded-exhaustive enumeration of signature trees, interface tuples, argument permutations and single-point corruptions against an independent tree-walk oracle; connect() observed through the statement map and exhaustive-value simulation",
    "Every signature tree inside the bounds (depth<=3, <=2 members per level, In/Out at each level, array dimensions on ports and sub-signatures, 5 shapes x 2 inits) is checked for flip/flatten/create laws, "
    "connected in up to 8 tuple constructions x all argument permutations (simulated with every value of every output leaf), subjected to every single-point corruption (exactly ConnectionError, no statements added), and its "
    "component metadata compared with an oracle document and validated against the published schema.",
    "Trusted: vf/ref/c14_tree.py. A dimension mismatch is only required to raise (any exception), as the statement does not list it.")
reg("C19", "model_checking", "explicit-state exploration of all request histories of the real ResourceManager in product with a reference allocator over bounded-exhaustive platform tables; end-to-end constraint-file validation on three open-toolchain platforms",
    "For every table of the structure / decoration / override / dangling-connector families every request history of length 3 (4 on small tables, thorough) is executed on a fresh real ResourceManager in lock step "
    "with a reference allocator: grant/refuse class, allocation unchanged after refusal (observed only through later requests), and returned port geometry (bit count, pin names through connector chains, inversion, direction) on every step; "
    "every request permutation is built with prepare() on iCE40/ECP5/Gowin and the parsed .pcf/.lpf/.cst compared bit for bit with the RTLIL top-level ports, declared pins and clocks.",
    "Trusted: vf/ref/c19_alloc.py (~200 lines). Bounds: 4 pins, <=3 resources, connector depth 3. Closed-toolchain vendor templates need Yosys and are not covered.")
reg("C20", "exploration", "bounded-exhaustive enumeration of format specifications x shapes x values against a hand-written grammar and Python format(); exhaustive bounded action sequences on control-flow designs against an activity/edge model",
    "Every spec string of the product alphabet (54k quick / 66k thorough, incl. brace fills and malformed strings) over 10 shapes and 3 operand forms: acceptance equals the documented grammar, printed text and Assert message equal "
    "Python format() of the value in its own shape; every action sequence of length<=3 (4) over (input valuation, clock toggle mask) from every register state on 127 (739) generated If/Switch designs in pos/neg/async-reset domains: "
    "prints exactly at active edges where active, AssertionError exactly at the first active edge with a false active Assert/Assume.",
    "Trusted: vf/ref/c20_ref.py. Widths above 8 use corner values; comb-domain Print and the VCD formatting path (needs pyvcd) are not covered.")
reg("C08", "model_checking", "stateless exploration of every resolution (deviation-bounded) of the iteration order of the engine's ready-process, active-trigger and commit sets, with differential and absolute oracles",
    "The hash-ordered sets the Python simulator iterates over are replaced from the harness by choice sets; each of 403 (quick) scenarios -- two clocked domains with coinciding edges, comb fragment in a submodule, "
    "the guide's sync/comb replacement processes, 1-2 testbenches running every script of length<=2 (3) over set/get/tick+sample/delay/posedge/negedge/changed -- is executed under every schedule with <=1 (2) deviations from "
    "the default order: all observation logs and final signal values must be identical; in every execution testbench order, settled reads after writes, pre-edge samples vs post-edge registers, exact edge/delay times and "
    "process-vs-circuit equality are checked.",
    "Trusted: the ChoiceSet injection reaches PySimEngine._processes/_active_triggers and the state's pending set (a vacuity guard fails the run if no real choice points are seen); sets built as local variables "
    "(timeline nearest_wakers) are not permuted. Odd clock periods are outside the alphabet.")
reg("C09", "model_checking", "exploration of every (deviation-bounded) iteration order of the sets built during elaboration + fresh interpreters under different hash seeds; enumeration of every reset point of simulation histories; build-plan round trips",
    "96 catalogue designs are converted twice, under every permutation with <=2 (3) deviations of every set() the elaborator builds (choice sets injected from the harness), and by the unmodified code in fresh "
    "interpreters with PYTHONHASHSEED 0..7 (0..39): all RTLIL byte-identical; 231 (1.5k) simulation scenarios are run twice and, for EVERY prefix length k of the history, k steps + reset() + rerun must equal a fresh run "
    "with all signals / memory rows back at their initial contents; build plans on three platforms: prepare twice, archive twice (sorted members, fixed timestamps, insertion-order independent), extract == plan.",
    "Trusted: injection covers sets created with set() in hdl._ir/_xfrm; set displays/comprehensions and other modules are covered by the real hash-seed runs only.")
reg("C06", "exploration", "bounded-exhaustive enumeration of driver placements and dependency digraphs (x ~80 realisation styles) with an independent set-arithmetic / DFS oracle",
    "Every placement of up to 3 drivers (logic in top/child/grandchild/sibling x comb/two sync domains, Instance output, IOBuffer input, memory read data) on every bit subset of up to 2 signals, through the Module DSL and raw "
    "Fragments, and every dependency digraph over 3..6 signal bits realised with bit-precise constructs (bitwise ops, Cat/Slice, Mux data, conditional data) and word-level operators, conditions, LHS part selects and Array "
    "targets, registers and hierarchy, is built and converted; the raised exception class (DriverConflict / DSL SyntaxError / exactly CombinationalCycle / none) is compared with ground truth.",
    "Trusted: vf/ref/c06_model.py (dependency rules from the statement: bit-precise vs word-level). Signed operands, Elif chains and don't-care patterns are not in the dependency alphabet.")
reg("C11", "model_checking", "explicit-state BFS of the real simulated lib.memory.Memory (rows + sync read registers) in product with a row-array model and the RTLIL interpreter executing the emitted RTLIL, over a bounded grid of port configurations",
    "For every configuration of the grid (7 row shapes incl. signed/aggregate, depth 0..4(5), 0-2 write ports at every granularity, 0-2 read ports comb/sync with every transparency subset, 1-2 domains pos/neg, reset none/sync/async) "
    "the full reachable graph is explored from reset with every action (every clock/reset subset, every (addr, data, enable), testbench row writes) in every state; after every transition the rows, every read output and the RTLIL "
    "memory/outputs are compared with the model.",
    "Trusted: the ~60-line model in vf/props/c11.py (from docs/stdlib/memory.rst) and vf/rtlil/interp.py. Undefined points (pre-first-capture data, out-of-depth reads, same-bit double writes) are adopted/excluded and counted.")
reg("C03", "model_checking", "explicit-state BFS of the real simulated design (registers, memory rows, read-port data, clock and async-reset levels in the state) in product with a register-level reference model, over a bounded-exhaustive family of domain kinds and wrapper nestings",
    "For every combination of 1-2 clock domains (pos/neg x sync/async/reset-less) and every (submodule, top) nesting of <=2 (3) ResetInserter / EnableInserter / DomainRenamer wrappers applied to a two-module design with a signed signal "
    "split between domains and modules, reset-less registers and a memory with write and sync read ports, the full reachable state graph is explored: in every state all input valuations followed by every clock-subset toggle "
    "(simultaneous edges included) or async-reset flip; the complete state is compared with the model after each event; shortest paths are replayed from reset.",
    "Trusted: vf/ref/c03_model.py (~300 lines, from the statement; the guide's ResetInserter-inside-EnableInserter example contradicts both the statement and the implementation and is not used). Read-port data under a reset is accepted as either normal or init.")
