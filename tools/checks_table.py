reg("C10", "exploration", "bounded-exhaustive enumeration of ranges/enums/(value,shape) pairs/constant terms against an integer reference",
    "Every range(a,b,s), enum member tuple, (value, shape) pair, Const/Cat/Slice term and helper argument inside the stated bounds is "
    "executed on the real code and compared with a reference written with Python ints only; the space is enumerated completely, not sampled.",
    "Trusted: the 40-line integer reference (min_shape/wrap) in vf/props/c10.py. Bounds: |a|,|b|<=33 (130 thorough), widths<=6 (9).")
reg("C12", "model_checking", "explicit-state BFS of the real simulated FIFO x queue model, full reachable graph, all input valuations per edge",
    "The complete reachable state graph of the real SyncFIFO / SyncFIFOBuffered (registers + memory rows read and written through the "
    "public testbench API) in product with a tuple queue model is enumerated for every small (depth, width); safety invariants and the "
    "bounded-response liveness rules are evaluated on every transition; shortest paths are replayed from reset on fresh simulators.",
    "Trusted: the Python simulator as execution vehicle (cross-checked against RTLIL by C04), the 30-line queue model. Bounds: depth<=5 "
    "(<=12 thorough), width<=2.")
reg("C01", "exploration", "bounded-exhaustive enumeration of expression terms x all operand values against an integer reference semantics",
    "Every expression term up to the stated depth/width bounds (all operator forms, derived operators through the public API) is compiled into a "
    "real simulated comb circuit and evaluated under ALL valuations of its leaves; value, reported shape and representability are compared with "
    "a reference transcribed from the language guide and the operator docstrings. The space is enumerated completely.",
    "Trusted: vf/ref/expr.py (reference semantics, ~250 lines). Bounds: depth 1 width<=3 (4 thorough), depth 2 width<=2 (3 partially), depth-3 chains through reinterpreting forms.")
reg("C05", "exploration", "bounded-exhaustive enumeration of read terms and assignable target terms x all states x all written values, three-way differential",
    "Every assignable target of nesting depth<=2 (3 thorough) is written with ctx.set from every state of the underlying signals with every value, and "
    "compared bit-for-bit with (a) a per-bit address-map reference and (b) the same assignment compiled into a sync circuit; every read term is "
    "evaluated with ctx.get and compared with the circuit value and the reference.",
    "Trusted: vf/ref/expr.py + vf/ref/stmt.py bit-map semantics. Underlying signals are 3+2 bits wide; memory rows 2x3 bits.")
reg("C02", "exploration", "bounded-exhaustive enumeration of Module-DSL statement trees x all input valuations (comb) / x register states (sync) against a per-bit last-wins reference; FSMs by exhaustive input/reset sequences",
    "Every control-flow construct (If/Elif/Else, Switch with int / multi / don't-care / unreachable / empty / after-default cases, zero-width tests), all ordered "
    "pairs of assignments and all two-level nestings over a pool of assignment forms are built through the Module DSL, simulated, and compared under every valuation "
    "of the inputs they read with a reference implementing the statement literally; FSMs are driven with every input/reset sequence up to depth 4 (6).",
    "Trusted: vf/ref/stmt.py + vf/ref/expr.py. Targets 4+3 bits; five inputs of 1-3 bits; sync transition function checked pointwise from 5 register states.")
