reg("C10", "exploration", "bounded-exhaustive enumeration of ranges/enums/(value,shape) pairs/constant terms against an integer reference",
    "Every range(a,b,s), enum member tuple, (value, shape) pair, Const/Cat/Slice term and helper argument inside the stated bounds is "
    "executed on the real code and compared with a reference written with Python ints only; the space is enumerated completely, not sampled.",
    "Trusted: the 40-line integer reference (min_shape/wrap) in vf/props/c10.py. Bounds: |a|,|b|<=33 (130 thorough), widths<=6 (9).")
reg("C12", "model_checking", "explicit-state BFS of the real simulated FIFO x queue model, full reachable graph, all input valuations per edge",
    "The complete reachable state graph of the real SyncFIFO / SyncFIFOBuffered (registers + memory rows read and written through the "
    "public testbench API) in product with a tuple queue model is enumerated for every small (depth, width); safety invariants and the "
    "bounded-response liveness rules are evaluated on every transition; shortest paths are replayed from reset on fresh simulators.",
    "Trusted: the Python simulator as execution vehicle (cross-checked against RTLIL by C04), the 30-line queue model. Bounds: depth<=5 "
    "(<=12 thorough), width<=2.")
