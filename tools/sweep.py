#!/usr/bin/env python3
"""sweep.py [Cxx ...]: runs each quick check on /repo under several VERIF_SEED / PYTHONHASHSEED values from fresh processes and verifies
that every run is silent (exit 0) and that the measured coverage counters are identical (the seed only rotates the enumeration order)."""
import json, os, subprocess, sys
checks = sys.argv[1:] or [c["property_id"] for c in json.load(open("/verif/MANIFEST.json"))["checks"]]
combos = [tuple(x.split(":")) for x in os.environ.get("SWEEP", "0:0,1:0,2:1,7:random,12345:0").split(",")]
bad = 0
for c in checks:
    ref = None
    for seed, hs in combos:
        env = dict(os.environ, VERIF_SEED=seed, PYTHONHASHSEED=hs)
        r = subprocess.run(["/verif/check", c, "--tier", "quick"], env=env, capture_output=True, text=True)
        ev = json.load(open(f"/verif/evidence/{c}.json"))
        cov = {k: v for k, v in ev["coverage"].items() if isinstance(v, (int, bool)) and not k.startswith("cpu")}
        status = "ok"
        if r.returncode != 0:
            status = f"EXIT {r.returncode}"
            bad += 1
        elif ref is not None and cov != ref:
            diff = {k: (ref.get(k), cov.get(k)) for k in set(ref) | set(cov) if ref.get(k) != cov.get(k)}
            status = f"COVERAGE DIFFERS {diff}"
            bad += 1
        if ref is None:
            ref = cov
        print(f"{c} VERIF_SEED={seed} PYTHONHASHSEED={hs}: {status} wall={ev['wall_s']}", flush=True)
sys.exit(1 if bad else 0)
