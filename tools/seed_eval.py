#!/usr/bin/env python3
"""seed_eval.py <seed id e.g. C12-1> [checks...]: confirm a seeded change produced by an independent sub-agent and run our checks on it.
 - copies <agent worktree>/seed/{patch.diff,demo.py,meta.json} to /verif/seeded/<id>/
 - fresh worktree of /repo HEAD: demo must exit 0; apply patch; demo must exit non-zero; upstream suite must keep stable_pass
 - runs the quick check(s) with VERIF_REPO pointing at the patched worktree; records CAUGHT/MISSED in meta.json
 - removes the scratch worktree (and the agent's worktree with --cleanup)"""
import json, os, shutil, subprocess, sys
sid = sys.argv[1]
prop = sid.split("-")[0]
checks = [a for a in sys.argv[2:] if not a.startswith("--")] or [prop]
src = f"/tmp/seed-{sid}/seed"
dst = f"/verif/seeded/{sid}"
os.makedirs(dst, exist_ok=True)
for f in ("patch.diff", "demo.py", "meta.json"):
    if os.path.exists(f"{src}/{f}") and not (f == "meta.json" and os.path.exists(f"{dst}/{f}")):
        shutil.copy(f"{src}/{f}", f"{dst}/{f}")
meta = json.load(open(f"{dst}/meta.json")) if os.path.exists(f"{dst}/meta.json") else {}
wt = f"/tmp/sv-{sid}"
subprocess.run(["git", "-C", "/repo", "worktree", "remove", "--force", wt], capture_output=True)
subprocess.run(["git", "-C", "/repo", "worktree", "add", "-q", "--detach", wt, "HEAD"], check=True)
conf = {}
try:
    env = dict(os.environ, PYTHONPATH=wt)
    def demo():
        r = subprocess.run(["/venv/bin/python", f"{dst}/demo.py"], cwd=wt, env=env, capture_output=True, text=True, timeout=900)
        return r.returncode, (r.stderr.strip().splitlines() or [""])[-1][:200]
    conf["demo_without_change"] = demo()
    r = subprocess.run(["git", "apply", f"{dst}/patch.diff"], cwd=wt, capture_output=True, text=True)
    conf["patch_applies"] = r.returncode == 0
    if r.returncode:
        r = subprocess.run(["patch", "-p1", "-i", f"{dst}/patch.diff"], cwd=wt, capture_output=True, text=True)
        conf["patch_applies"] = r.returncode == 0
    conf["demo_with_change"] = demo()
    if "--no-suite" not in sys.argv:
        b = subprocess.run(["/verif/tools/baseline.py", wt, "--timeout=900"], capture_output=True, text=True, env=dict(os.environ, N=os.environ.get("N", "6")))
        conf["upstream_suite"] = b.stdout.strip().splitlines()[:4]
    results = {}
    for c in checks:
        e2 = dict(os.environ, VERIF_REPO=wt, VERIF_PROCS=os.environ.get("VERIF_PROCS", "6"))
        try:
            r = subprocess.run(["/verif/check", c, "--tier", os.environ.get("TIER", "quick")], env=e2, capture_output=True, text=True, timeout=2400)
            lines = [l.strip() for l in r.stdout.splitlines() if "what:" in l or l.startswith(("VIOLATION", "ERROR"))]
            results[c] = {"exit": r.returncode, "verdict": "CAUGHT" if r.returncode == 1 else ("HARNESS-ERROR" if r.returncode == 2 else "MISSED"),
                          "first": [l[:300] for l in lines[:2]]}
        except subprocess.TimeoutExpired:
            results[c] = {"exit": None, "verdict": "TIMEOUT"}
    conf["checks"] = results
finally:
    subprocess.run(["git", "-C", "/repo", "worktree", "remove", "--force", wt], capture_output=True)
    if "--cleanup" in sys.argv:
        subprocess.run(["git", "-C", "/repo", "worktree", "remove", "--force", f"/tmp/seed-{sid}"], capture_output=True)
prev = meta.get("confirmed_by_coordinator", {})
if "upstream_suite" not in conf and "upstream_suite" in prev:
    conf["upstream_suite"] = prev["upstream_suite"]
hist = meta.setdefault("check_history", [])
import subprocess as _sp, time as _t
hist.append({"verif_commit": _sp.check_output(["git", "-C", "/verif", "rev-parse", "--short", "HEAD"], text=True).strip(),
             "when": _t.strftime("%Y-%m-%d %H:%M"), "results": {c: r["verdict"] for c, r in conf.get("checks", {}).items()}})
meta["confirmed_by_coordinator"] = conf
meta["breaks_property"] = prop
json.dump(meta, open(f"{dst}/meta.json", "w"), indent=1)
print(sid, json.dumps(conf, indent=1)[:1500])
