#!/bin/bash
# usage: tools/mut.sh <patch.diff> <check id>...   applies the patch to /repo, runs the quick checks, always reverts
patch=$1; shift
cd /repo || exit 2
git diff --quiet || { echo "/repo is dirty"; exit 2; }
git apply "$patch" || { echo "patch does not apply"; exit 2; }
trap 'git -C /repo checkout -- . ' EXIT
for c in "$@"; do
  ( cd /verif && ./check "$c" --tier ${TIER:-quick} 2>&1 | grep -v conda | grep -E "VIOLATION|KNOWN|ERROR|tier=" | head -8 )
done
