#!/usr/bin/env python3
"""tools/mutants.py <Cxx> [pattern]: apply each /verif/mutants/<cxx>_*.diff to a scratch worktree of /repo HEAD, run the quick check
against it (VERIF_REPO), optionally the upstream baseline (BASELINE=1), print CAUGHT / MISSED, remove the worktree."""
import glob, os, subprocess, sys, shutil
from concurrent.futures import ThreadPoolExecutor
pid = sys.argv[1]
pat = sys.argv[2] if len(sys.argv) > 2 else ""
diffs = sorted(d for d in glob.glob(f"/verif/mutants/{pid.lower()}_*.diff") if pat in d)

def one(d):
    name = os.path.basename(d)[:-5]
    wt = f"/tmp/mw-{name}"
    subprocess.run(["git", "-C", "/repo", "worktree", "remove", "--force", wt], capture_output=True)
    subprocess.run(["git", "-C", "/repo", "worktree", "add", "-q", "--detach", wt, "HEAD"], check=True, capture_output=True)
    try:
        r = subprocess.run(["patch", "-p1", "-s", "-i", d], cwd=wt, capture_output=True, text=True)
        if r.returncode:
            return f"{name}: PATCH-FAILED {r.stdout[:200]}"
        env = dict(os.environ, VERIF_REPO=wt, VERIF_PROCS=os.environ.get("VERIF_PROCS", "4"))
        try:
            r = subprocess.run(["/verif/check", pid, "--tier", os.environ.get("TIER", "quick")], env=env, capture_output=True, text=True,
                               timeout=int(os.environ.get("CHECK_TIMEOUT", "900")))
        except subprocess.TimeoutExpired:
            return f"{name}: CHECK-TIMEOUT (the mutant makes the check hang)"
        lines = [l for l in r.stdout.splitlines() if l.startswith(("VIOLATION", "ERROR", "  what"))]
        verdict = "CAUGHT" if r.returncode == 1 else ("HARNESS-ERROR" if r.returncode == 2 else "MISSED")
        base = ""
        if os.environ.get("BASELINE"):
            try:
                b = subprocess.run(["/verif/tools/baseline.py", wt, "--timeout=60"], capture_output=True, text=True, env=dict(os.environ, N="4"), timeout=600)
                base = " | upstream: " + b.stdout.strip().splitlines()[0] if b.stdout.strip() else " | upstream: ?"
            except subprocess.TimeoutExpired:
                base = " | upstream: suite hangs (counts as failing)"
        first = next((l.strip()[:230] for l in lines if "what" in l), "")
        return f"{name}: {verdict}{base}\n    {first}"
    finally:
        subprocess.run(["git", "-C", "/repo", "worktree", "remove", "--force", wt], capture_output=True)

with ThreadPoolExecutor(int(os.environ.get("PAR", "4"))) as ex:
    for res in ex.map(one, diffs):
        print(res, flush=True)
