"""Process pool helpers. Workers are forked, long-lived and stateless between tasks."""
import multiprocessing as mp
import os


def pmap(func, tasks, procs=16, chunksize=1):
    """Unordered parallel map. func must be a module-level function. Yields results."""
    tasks = list(tasks)
    if procs <= 1 or len(tasks) <= 1:
        for t in tasks:
            yield func(t)
        return
    ctx = mp.get_context("fork")
    with ctx.Pool(min(procs, len(tasks))) as pool:
        for r in pool.imap_unordered(func, tasks, chunksize):
            yield r


def rotate(seq, seed):
    """VERIF_SEED only rotates the order of an exhaustive space, never what is in it."""
    seq = list(seq)
    if not seq:
        return seq
    k = seed % len(seq)
    return seq[k:] + seq[:k]


def chunks(seq, n):
    seq = list(seq)
    for i in range(0, len(seq), n):
        yield seq[i:i + n]
