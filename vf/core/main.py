"""Entry point: ./check <Cxx> [--tier quick|thorough] [--replay file]

Exit codes: 0 held on everything explored (KNOWN-FINDING lines allowed); 1 = violation not listed in
known_findings.json (a `VIOLATION property=<id> replay=<path>` line is printed); 2 = harness error.
"""
import argparse, importlib, json, os, sys, time, traceback

from .report import Reporter, HarnessError, finish

ROOT = os.path.dirname(os.path.dirname(os.path.dirname(os.path.abspath(__file__))))


def main(argv=None):
    ap = argparse.ArgumentParser()
    ap.add_argument("prop")
    ap.add_argument("--tier", default=os.environ.get("VERIF_TIER", "quick"), choices=["quick", "thorough"])
    ap.add_argument("--replay", default=None)
    ap.add_argument("--procs", type=int, default=int(os.environ.get("VERIF_PROCS", "16")))
    args = ap.parse_args(argv)
    pid = args.prop.upper()
    try:
        seed = int(os.environ.get("VERIF_SEED", "0"))
    except ValueError:
        seed = 0
    mod = importlib.import_module(f"vf.props.{pid.lower()}")
    if args.replay:
        with open(args.replay) as f:
            doc = json.load(f)
        t0 = time.time()
        res = mod.replay(doc["payload"])
        if res:
            print(f"REPLAY reproduces: property={pid} sig={doc.get('sig')}")
            for line in (res if isinstance(res, list) else [res]):
                print("  ", line)
            print(f"VIOLATION property={pid} replay={os.path.abspath(args.replay)}")
            return 1
        print(f"REPLAY does not reproduce on this tree: property={pid} sig={doc.get('sig')}")
        return 0
    rep = Reporter(pid, args.tier, seed, args.procs, level=mod.LEVEL)
    t0 = time.time()
    try:
        mod.run(rep)
    except HarnessError as e:
        if rep.violations and str(e).startswith("vacuity guard failed"):
            # violations cut the exploration short (erroring designs are not counted as explored): they are the result, the guard is a note;
            # a run whose violations are all listed findings still counts as vacuous
            print(f"NOTE property={pid}: {e} (exploration cut short by the violations reported below)")
            rc = finish(rep, time.time() - t0, ROOT)
            return rc if rc == 1 else 2
        print(f"ERROR harness property={pid}: {e}")
        return 2
    except Exception:
        traceback.print_exc()
        print(f"ERROR harness property={pid}: unexpected exception in the check itself")
        return 2
    return finish(rep, time.time() - t0, ROOT)


if __name__ == "__main__":
    sys.exit(main())
