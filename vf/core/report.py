import json, os, hashlib, re


class HarnessError(Exception):
    pass


class Reporter:
    """Collects coverage counters, samples and violations of one check run."""
    def __init__(self, pid, tier, seed, procs, level):
        self.pid, self.tier, self.seed, self.procs, self.level = pid, tier, seed, procs, level
        self.cov = {}
        self.samples = []
        self.violations = []      # dicts: sig, what, payload
        self.assumptions = []
        self.notes = []
        self._sig_seen = {}

    @property
    def quick(self):
        return self.tier == "quick"

    def pick(self, quick, thorough):
        return quick if self.tier == "quick" else thorough

    def add(self, key, n=1):
        self.cov[key] = self.cov.get(key, 0) + n

    def setcov(self, key, val):
        self.cov[key] = val

    def sample(self, s, limit=12):
        if len(self.samples) < limit:
            self.samples.append(s)

    def assume(self, text):
        if text not in self.assumptions:
            self.assumptions.append(text)

    def violation(self, sig, what, payload):
        """sig identifies the specific failing input / call site / history (used for known findings)."""
        n = self._sig_seen.get(sig, 0)
        self._sig_seen[sig] = n + 1
        if n < 3:
            self.violations.append({"sig": sig, "what": what, "payload": payload})

    def merge(self, part):
        """merge a dict returned by a worker: {'cov':{}, 'samples':[], 'violations':[]}"""
        for k, v in part.get("cov", {}).items():
            if isinstance(v, (int, float)):
                self.add(k, v)
            else:
                self.cov[k] = v
        for s in part.get("samples", []):
            self.sample(s)
        for v in part.get("violations", []):
            self.violation(v["sig"], v["what"], v["payload"])

    def require(self, cond, text):
        """vacuity guard: a vacuous run is a harness error, never a pass"""
        if not cond:
            raise HarnessError("vacuity guard failed: " + text)


def load_known(root):
    path = os.path.join(root, "known_findings.json")
    if not os.path.exists(path):
        return []
    with open(path) as f:
        return json.load(f)["findings"]


def _matches(entry, v):
    if entry.get("status") != "known":
        return False
    m = entry["match"]
    if entry.get("regex"):
        return re.fullmatch(m, v["sig"]) is not None
    return m == v["sig"]


def finish(rep, wall, root):
    known = [e for e in load_known(root) if e["property"] == rep.pid]
    unknown, hit = [], {}
    total_by_sig = rep._sig_seen
    for v in rep.violations:
        for i, e in enumerate(known):
            if _matches(e, v):
                hit.setdefault(i, v)
                break
        else:
            unknown.append(v)
    for i, e in enumerate(known):
        if e.get("status") == "known":
            note = "" if i in hit else " (listed; not re-observed by this tier's alphabet)"
            print(f"KNOWN-FINDING: property={rep.pid} {e['what']}{note}")
    os.makedirs(os.path.join(root, "replays"), exist_ok=True)
    os.makedirs(os.path.join(root, "evidence"), exist_ok=True)
    seen_sig = set()
    n_unknown_sigs = 0
    for v in unknown:
        if v["sig"] in seen_sig:
            continue
        seen_sig.add(v["sig"])
        n_unknown_sigs += 1
        if n_unknown_sigs > 8:
            continue
        h = hashlib.sha1(v["sig"].encode()).hexdigest()[:10]
        path = os.path.join(root, "replays", f"{rep.pid}-{h}.json")
        with open(path, "w") as f:
            json.dump({"property": rep.pid, "sig": v["sig"], "what": v["what"], "payload": v["payload"]},
                      f, indent=1, default=str)
        print(f"  what: {v['what']}")
        print(f"VIOLATION property={rep.pid} replay={path}")
    cov = dict(rep.cov)
    cov["samples"] = rep.samples if rep.samples else ["<none>"]
    ev = {
        "property_id": rep.pid, "tier": rep.tier, "seed": rep.seed, "level": rep.level,
        "coverage": cov, "assumptions": rep.assumptions, "wall_s": round(wall, 2),
        "violations": n_unknown_sigs,
        "known_findings_observed": sorted({v["sig"] for v in rep.violations} - seen_sig),
        "notes": rep.notes,
        "violation_sigs": sorted(rep._sig_seen)[:400],
    }
    check_evidence(ev)
    evdir = os.path.join(root, "evidence")
    if os.environ.get("VERIF_REPO"):
        # mutation experiments against a scratch worktree must never overwrite the evidence of the real tree
        evdir = os.path.join("/tmp", "vf-scratch-evidence")
        os.makedirs(evdir, exist_ok=True)
    with open(os.path.join(evdir, f"{rep.pid}.json"), "w") as f:
        json.dump(ev, f, indent=1, default=str)
    summary = {k: v for k, v in cov.items() if isinstance(v, (int, float, bool))}
    print(f"{rep.pid} tier={rep.tier} seed={rep.seed} wall={wall:.1f}s violations={n_unknown_sigs} coverage={summary}")
    return 1 if n_unknown_sigs else 0


def check_evidence(ev):
    """minimal structural check mirroring EVIDENCE.schema.json (jsonschema is not in /venv)"""
    cov = ev["coverage"]
    lvl = ev["level"]
    def generic():
        assert cov.get("evaluations", 0) >= 1 and cov.get("distinct_nontrivial", 0) >= 2, \
            "evidence needs evaluations>=1, distinct_nontrivial>=2"
        assert isinstance(cov.get("rule"), str) and cov["samples"], "evidence needs rule and samples"
    if lvl in ("exploration", "fault_enumeration"):
        generic()
    elif lvl == "model_checking":
        if all(k in cov for k in ("states", "transitions", "traces_validated_against_impl", "samples")):
            assert cov["states"] >= 1 and cov["transitions"] >= 1 and cov["samples"]
        else:
            generic()
    elif lvl == "translation_validation":
        if all(k in cov for k in ("programs", "disagreements_checked", "samples")):
            assert cov["programs"] >= 1 and cov["samples"]
        else:
            generic()
