"""Explicit-state breadth-first exploration of (implementation state x reference-model state).

A *spec* object describes one configuration:
    spec.build()            -> System (fresh elaborated design + state vector description)
    spec.actions            -> list of hashable, json-able action descriptors
    spec.model_init(sysm)   -> hashable reference-model state for the reset state
    spec.step(sysm, m, a)   -> (m', errs, flags): performs action a on the *real simulator* through sysm
                               (set_inputs / pulse / set_clocks / ctx.get for observations), advances the
                               reference model, returns invariant failures (list of str) and a tuple of
                               coverage flags (antecedents seen) for the vacuity guards
    spec.describe()         -> json-able description (used in replay files / evidence)
The explorer loads every frontier state into the simulator with ctx.set (a shortcut), so afterwards
shortest paths are replayed from reset on a fresh simulator using only spec.step, and must reach the same
state (traces_validated_against_impl).
"""
import multiprocessing as mp
import time

from ..sim.driver import run_in_testbench


class Result:
    def __init__(self):
        self.states = 0
        self.transitions = 0
        self.max_depth = 0
        self.flags = set()
        self.errors = []          # (errs, path) path = list of actions from reset
        self.capped = False
        self.traces_validated = 0
        self.replay_mismatch = []
        self.parent = None        # key -> (parent key, action index) ; None for the root
        self.edges = None         # key -> [(action index, succ key)] when keep_edges
        self.root = None
        self.wall = 0.0
        self.error_transitions = 0

    def path_to(self, key):
        path = []
        while True:
            p = self.parent[key]
            if p is None:
                break
            key, a = p
            path.append(a)
        path.reverse()
        return path


def _expand(sysm, spec, keys, actions):
    """Expand states; returns list of (key, [(ai, succ_key, errs, flags)])"""
    out = []
    cur = None
    for key in keys:
        impl, m = key
        succs = []
        for ai, a in enumerate(actions):
            sysm.load(impl)
            m2, errs, flags = spec.step(sysm, m, a)
            impl2 = sysm.read()
            succs.append((ai, (impl2, m2), errs, flags))
        out.append((key, succs))
    return out


def _worker(spec, conn):
    sysm = spec.build()
    actions = list(spec.actions)

    def body(ctx):
        sysm.ctx = ctx
        while True:
            msg = conn.recv()
            if msg is None:
                return
            try:
                conn.send(("ok", _expand(sysm, spec, msg, actions)))
            except Exception as e:       # pragma: no cover
                import traceback
                conn.send(("err", traceback.format_exc()))
    run_in_testbench(sysm.frag, body)


def explore(spec, *, procs=1, cap_states=2_000_000, max_depth=None, replay_n=50, keep_edges=False,
            max_errors=5, time_cap=None):
    res = Result()
    t0 = time.time()
    actions = list(spec.actions)
    sysm = spec.build()
    box = {}

    def init_body(ctx):
        sysm.ctx = ctx
        box["root"] = (sysm.read(), spec.model_init(sysm))
    # root state from a fresh simulator (true reset state)
    workers = []
    if procs > 1:
        run_in_testbench(sysm.frag, init_body)
        ctxm = mp.get_context("fork")
        for _ in range(procs):
            a, b = ctxm.Pipe()
            p = ctxm.Process(target=_worker, args=(spec, b), daemon=True)
            p.start()
            workers.append((p, a))

    def search(expand):
        root = box["root"]
        res.root = root
        parent = {root: None}
        edges = {} if keep_edges else None
        frontier = [root]
        depth = 0
        while frontier:
            if max_depth is not None and depth >= max_depth:
                res.capped = True
                break
            nxt = []
            for key, succs in expand(frontier):
                if keep_edges:
                    edges[key] = [(ai, k2) for ai, k2, _e, _f in succs]
                for ai, k2, errs, flags in succs:
                    res.transitions += 1
                    if flags:
                        res.flags.update(flags)
                    if errs:
                        # a failing transition leads to a sink: once implementation and model have diverged the product
                        # graph is meaningless (and can be huge), so the successor is not expanded
                        if len(res.errors) < max_errors:
                            res.parent = parent
                            res.errors.append((errs, res.path_to(key) + [ai]))
                        res.error_transitions += 1
                        if k2 not in parent:
                            parent[k2] = (key, ai)     # known (graph post-processing may look it up) but never expanded
                        continue
                    if k2 not in parent:
                        parent[k2] = (key, ai)
                        nxt.append(k2)
            depth += 1
            if nxt:
                res.max_depth = depth
            frontier = nxt
            if res.error_transitions >= 50 * max_errors:
                res.capped = bool(frontier)       # plenty of counterexamples already: stop early
                break
            if len(parent) > cap_states or (time_cap and time.time() - t0 > time_cap):
                res.capped = bool(frontier)
                break
        res.states = len(parent)
        res.parent = parent
        res.edges = edges

    if procs > 1:
        def expand(frontier):
            n = len(workers)
            size = max(1, min(2000, (len(frontier) + n - 1) // n))
            pieces = [frontier[i:i + size] for i in range(0, len(frontier), size)]
            pending = list(pieces)
            busy = {}
            out = []
            free = list(range(n))
            while pending or busy:
                while pending and free:
                    w = free.pop()
                    workers[w][1].send(pending.pop())
                    busy[w] = True
                ready = mp.connection.wait([workers[w][1] for w in busy])
                for conn in ready:
                    w = next(i for i in busy if workers[i][1] is conn)
                    tag, data = conn.recv()
                    if tag == "err":
                        raise RuntimeError("worker failed:\n" + data)
                    out.extend(data)
                    del busy[w]
                    free.append(w)
            return out
        try:
            search(expand)
        finally:
            for p, a in workers:
                try:
                    a.send(None)
                except Exception:
                    pass
            for p, a in workers:
                p.join(timeout=5)
                if p.is_alive():
                    p.terminate()
    else:
        def body(ctx):
            sysm.ctx = ctx
            box["root"] = (sysm.read(), spec.model_init(sysm))
            search(lambda frontier: _expand(sysm, spec, frontier, actions))
        run_in_testbench(sysm.frag, body)

    # ---- conformance: replay shortest paths from reset on fresh simulators, no state loading
    if replay_n:
        keys = list(res.parent.keys())
        # deepest states first (they subsume their prefixes), spread over the graph
        pick = keys[::-1][:: max(1, len(keys) // replay_n)][:replay_n]
        for key in pick:
            path = res.path_to(key)
            got, _errs = replay_path(spec, path)
            if got != key:
                res.replay_mismatch.append((path, key, got))
            res.traces_validated += 1
    res.wall = time.time() - t0
    return res


def replay_path(spec, path):
    """Run a list of action indices from reset on a fresh simulator; returns (final key, all errs)."""
    sysm = spec.build()
    actions = list(spec.actions)
    box = {}

    def body(ctx):
        sysm.ctx = ctx
        m = spec.model_init(sysm)
        allerrs = []
        for ai in path:
            m, errs, _f = spec.step(sysm, m, actions[ai])
            if errs:
                allerrs.append((ai, errs))
        box["r"] = ((sysm.read(), m), allerrs)
    run_in_testbench(sysm.frag, body)
    return box["r"]
