"""Stateless exploration of every resolution of intercepted nondeterminism (iteration order of sets).

ChoiceSet is a dict-backed set whose iteration order is decided by a Scheduler. It is injected *from the harness*
into the places where the simulator / elaborator iterate over hash-ordered sets (no source change in amaranth).
explore() enumerates choice sequences with a deviation bound (a deviation = a choice point resolved differently
from the default insertion order), replaying prefixes on fresh executions (Musuvathi/Qadeer iterative bounding).
"""
import itertools
import sys
from collections.abc import MutableSet


class DivergedReplay(Exception):
    pass


class Scheduler:
    def __init__(self, prefix=(), only_funcs=None, max_perm_items=6):
        self.prefix = list(prefix)
        self.choices = []        # chosen alternative per choice point
        self.alts = []           # number of alternatives per choice point
        self.tags = []
        self.only_funcs = only_funcs
        self.max_perm_items = max_perm_items
        self.enabled = True

    def permute(self, tag, items, movable):
        """items: list in canonical order; movable: indices that may be permuted (>= 2 for a real choice)"""
        if not self.enabled or len(movable) < 2:
            return items
        mov = movable[:self.max_perm_items]
        # alternatives: identity, then every transposition (i, j) of two movable items -- every pairwise order inversion is
        # reachable with one deviation, any permutation with a few
        pairs = [(a, b) for a in range(len(mov)) for b in range(a + 1, len(mov))]
        n_alt = 1 + len(pairs)
        i = len(self.choices)
        if i < len(self.prefix):
            c = self.prefix[i]
            if c >= n_alt:
                raise DivergedReplay(f"choice point {i} ({tag}) has {n_alt} alternatives, replayed choice is {c}")
        else:
            c = 0
        self.choices.append(c)
        self.alts.append(n_alt)
        self.tags.append(tag)
        if c == 0:
            return items
        a, b = pairs[c - 1]
        out = list(items)
        out[mov[a]], out[mov[b]] = items[mov[b]], items[mov[a]]
        return out


class ChoiceSet(MutableSet):
    """insertion-ordered set; iteration order inside the functions named by the scheduler is a scheduler choice"""
    def __init__(self, iterable=(), *, tag="set", sched=None, movable=None):
        self._d = dict.fromkeys(iterable)
        self.tag, self.sched, self.movable = tag, sched, movable

    def __contains__(self, x):
        return x in self._d

    def __len__(self):
        return len(self._d)

    def add(self, x):
        self._d[x] = None

    def discard(self, x):
        self._d.pop(x, None)

    def clear(self):
        self._d.clear()

    def update(self, it):
        for x in it:
            self._d[x] = None

    def copy(self):
        return ChoiceSet(self._d, tag=self.tag, sched=self.sched, movable=self.movable)

    def __iter__(self):
        items = list(self._d)
        s = self.sched
        if s is None or len(items) < 2:
            return iter(items)
        if s.only_funcs is not None:
            fn = sys._getframe(1).f_code.co_name
            if fn not in s.only_funcs:
                return iter(items)
        if self.movable is None:
            mov = list(range(len(items)))
        else:
            mov = [k for k, x in enumerate(items) if self.movable(x)]
        return iter(s.permute(self.tag, items, mov))

    @classmethod
    def _from_iterable(cls, it):
        return cls(it)


def explore(run, bound, *, max_runs=200000, only_funcs=None, max_perm_items=6):
    """run(sched) -> observation (hashable). Explores all executions with at most `bound` deviations.
    Returns dict(runs, outcomes {obs: example choices}, choice_points_max, capped, schedules [choice tuples])."""
    outcomes = {}
    stats = {"runs": 0, "choice_points_max": 0, "alts_max": 0, "capped": False, "distinct_orders": set()}
    stack = [((), 0)]           # (prefix, deviations used)
    while stack:
        prefix, used = stack.pop()
        if stats["runs"] >= max_runs:
            stats["capped"] = True
            break
        s = Scheduler(prefix, only_funcs=only_funcs, max_perm_items=max_perm_items)
        obs = run(s)
        stats["runs"] += 1
        stats["choice_points_max"] = max(stats["choice_points_max"], len(s.choices))
        if s.alts:
            stats["alts_max"] = max(stats["alts_max"], max(s.alts))
        outcomes.setdefault(obs, tuple(s.choices))
        if used >= bound:
            continue
        for i in range(len(prefix), len(s.choices)):
            for alt in range(1, s.alts[i]):
                stack.append((tuple(s.choices[:i]) + (alt,), used + 1))
    stats["outcomes"] = outcomes
    return stats
