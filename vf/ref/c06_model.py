"""C06 reference model (plain Python, never imports amaranth).

Two oracles, both written from the property statement and docs/guide.rst ("Combinational evaluation",
"Assigning to signals" / signal granularity):

* driver placement: a design is in conflict iff some signal bit is owned by two different driver entities, where a
  logic driver entity is the pair (module, domain) and every instance output / memory read port / I/O buffer input is
  an entity of its own.
* combinational dependency: a term language with per-output-bit dependency sets.  Bit-precise constructs (slice,
  concatenation, ``& | ^ ~``, the data inputs of a choice, the data of a conditional assignment) pass dependencies
  bit by bit; word-level operators make every output bit depend on every input bit; a condition makes exactly the
  bits assigned under it depend on every bit of the condition; a register breaks the path.

Terms (tuples; every value is unsigned):
  ("n", node)              one bit of a graph signal            ("x", k)  bit k of the free input `xin`
  ("xw", w)                low w bits of the free input `xin`   ("c", value, w)
  ("cat", t...) ("sl", t, lo, hi) ("not", t) ("and"|"or"|"xor", a, b) ("mux", sel, a, b)
  word level: ("add"|"sub"|"mul"|"div"|"mod"|"eq"|"ne"|"lt"|"ge"|"shl"|"shr", a, b), ("neg"|"bool"|"any"|"all"|"rxor", a),
              ("bsel", value, offset, width), ("arr", index, e0, e1, ...) [index word level, elements bit-precise],
              ("amem", addr, width) [asynchronous memory read]
  ("psel", "b"|"w", value, signed, offset, width)  run-time bit_select / word_select, see deps()
"""

EMPTY = frozenset()
XIN_WIDTH = 8

WORD2 = ("add", "sub", "mul", "div", "mod", "eq", "ne", "lt", "ge", "shl", "shr")
WORD1 = ("neg", "bool", "any", "all", "rxor")


def _union(bits):
    out = set()
    for b in bits:
        out |= b
    return frozenset(out)


def deps(t, memo=None):
    """-> list (one entry per output bit, LSB first) of frozensets of graph nodes the bit depends on"""
    if memo is None:
        memo = {}
    if t in memo:
        return memo[t]
    k = t[0]
    if k == "n":
        r = [frozenset([t[1]])]
    elif k == "x":
        r = [EMPTY]
    elif k == "xw":
        r = [EMPTY] * t[1]
    elif k == "c":
        r = [EMPTY] * t[2]
    elif k == "cat":
        r = []
        for p in t[1:]:
            r += deps(p, memo)
    elif k == "sl":
        r = deps(t[1], memo)[t[2]:t[3]]
    elif k == "not":
        r = list(deps(t[1], memo))
    elif k in ("and", "or", "xor"):
        a, b = deps(t[1], memo), deps(t[2], memo)
        r = [(a[i] if i < len(a) else EMPTY) | (b[i] if i < len(b) else EMPTY) for i in range(max(len(a), len(b)))]
    elif k == "mux":
        s, a, b = deps(t[1], memo), deps(t[2], memo), deps(t[3], memo)
        su = _union(s)
        r = [su | (a[i] if i < len(a) else EMPTY) | (b[i] if i < len(b) else EMPTY) for i in range(max(len(a), len(b)))]
    elif k in WORD2:
        a, b = deps(t[1], memo), deps(t[2], memo)
        wa, wb = len(a), len(b)
        if k in ("add", "sub"):
            w = max(wa, wb) + 1
        elif k == "mul":
            w = wa + wb
        elif k == "div":
            w = wa
        elif k == "mod":
            w = wb
        elif k in ("eq", "ne", "lt", "ge"):
            w = 1
        elif k == "shl":
            w = wa + (1 << wb) - 1
        elif k == "shr":
            w = wa
        r = [_union(a + b)] * w
    elif k in WORD1:
        a = deps(t[1], memo)
        w = len(a) + 1 if k == "neg" else 1
        r = [_union(a)] * w
    elif k == "bsel":
        r = [_union(deps(t[1], memo) + deps(t[2], memo))] * t[3]
    elif k == "arr":
        idx = deps(t[1], memo)
        iu = _union(idx)
        es = [deps(e, memo) for e in t[2:]][:1 << len(idx)]        # elements the index cannot select contribute nothing
        w = max(len(e) for e in es)
        r = [iu | _union([e[i] for e in es if i < len(e)]) for i in range(w)]
    elif k == "amem":
        r = [_union(deps(t[1], memo))] * t[2]
    elif k == "psel":
        # ("psel", "b"|"w", value, signed, offset, width): value.bit_select(offset, width) / value.word_select(offset, width)
        # with a run-time offset.  Reading selected by memo["__mode__"]:
        #   "word"    every window bit depends on every value bit and every offset bit (the coarse, word-level reading)
        #   "precise" window bit k is value[k + off*stride] for some representable off (stride 1 for bit_select, `width`
        #             for word_select); positions past the MSB read the sign bit if the value is signed, zero otherwise
        #   "stridew" like precise but with stride = width for both (only used to CLASSIFY which cycles need stride 1)
        _, kind, value, signed, offset, w = t
        vd, od = deps(value, memo), deps(offset, memo)
        ou = _union(od)
        mode = memo.get("__mode__", "word")
        if mode == "word":
            r = [ou | _union(vd)] * w
        else:
            stride = w if (kind == "w" or mode == "stridew") else 1
            r = []
            for kbit in range(w):
                d = set(ou)
                for off in range(1 << len(od)):
                    pos = kbit + off * stride
                    if pos < len(vd):
                        d |= vd[pos]
                    elif signed and vd:
                        d |= vd[-1]
                r.append(frozenset(d))
    else:
        raise ValueError(t)
    memo[t] = r
    return r


def is_signed(t):
    """negation and subtraction have to represent negative results (docs/guide.rst, arithmetic operators); every other
    term of this language is built from unsigned operands and is unsigned; slices and concatenations are unsigned"""
    return t[0] in ("neg", "sub")


def width(t, memo=None):
    return len(deps(t, memo))


def _contributions(stmts, nbits_of_sig, node_of, mode="word"):
    """-> list of (stmt index, node, frozenset deps): what every statement contributes to every bit it can assign"""
    memo = {"__mode__": mode}
    out = []
    for k, s in enumerate(stmts):
        cd = EMPTY
        for c in s["conds"]:
            cd |= _union(deps(c, memo))
        r = deps(s["rhs"], memo)
        lhs = s["lhs"]
        comb = s["dom"] == "comb"
        if lhs[0] == "bits":
            # a narrower right-hand side is extended: with zeros (no dependency) if unsigned, with its MSB if signed
            ext = r[-1] if (r and is_signed(s["rhs"])) else EMPTY
            for i, v in enumerate(lhs[1]):
                d = cd | (r[i] if i < len(r) else ext)
                out.append((k, v, d if comb else EMPTY))
        elif lhs[0] == "bsel":
            # sig.bit_select(offset, 1).eq(rhs): every bit whose index the offset can take is a possible target
            sig, off = lhs[1], lhs[2]
            od = _union(deps(off, memo))
            reach = min(nbits_of_sig[sig], 1 << width(off, memo))
            for b in range(reach):
                out.append((k, node_of[(sig, b)], (cd | od | (r[0] if r else EMPTY)) if comb else EMPTY))
        elif lhs[0] == "arr":
            # Array([bit, bit, ...])[index].eq(rhs): every element the index can select is a possible target
            od = _union(deps(lhs[2], memo))
            for v in lhs[1][:1 << width(lhs[2], memo)]:
                out.append((k, v, (cd | od | (r[0] if r else EMPTY)) if comb else EMPTY))
        else:
            raise ValueError(lhs)
    return out


def _graph(contribs, skip=()):
    g = {}
    for k, v, d in contribs:
        g[v] = g.get(v, EMPTY) | (EMPTY if (k, v) in skip else d)
    return g


def node_graph(stmts, nbits_of_sig, node_of, mode="word"):
    """stmts (in assignment order): list of dicts {dom, conds:[terms], lhs: ("bits",[nodes]) | ("bsel", sig, offset_term) |
    ("arr",[nodes],index_term), rhs: term}.  -> {node: frozenset(nodes it combinationally depends on)}; every statement
    that can assign a bit contributes (no liveness analysis)."""
    return _graph(_contributions(stmts, nbits_of_sig, node_of, mode))


def _unconditional_cover(s):
    return s["dom"] == "comb" and not s["conds"] and s["lhs"][0] == "bits"


def node_graphs(stmts, nbits_of_sig, node_of):
    """Dependency graphs under docs/guide.rst "Assignment order" (if several assignments change the same bits, the one
    added last determines the final value) and "Active and inactive assignments" (the final value is as if the inactive
    assignments were removed): the value a statement assigns to a bit is irrelevant (dead) iff a
    LATER UNCONDITIONAL assignment covers that bit.  A conditional or partial later assignment does not remove the
    dependency of a bit on earlier assignments (the earlier one is visible whenever the later one is inactive / for the
    bits it does not cover).

    -> dict with
       all:    every contribution counts (purely structural reading)
       sem:    dead contributions removed (a bit of `sem` reaching itself is a real loop under every reading)
       claim:  only the indisputably dead contributions removed: an unconditional whole-signal assignment that belongs to
               the leading run of unconditional whole-signal assignments of its signal and is not the last of that run
               (nothing of it can ever be observed, and no conditional statement lies between it and its replacement)
       nodefault_on_covered: `sem` minus what the FIRST unconditional whole-signal assignment of a signal gives to bits that
               a later statement also assigns (used only to classify which cycles run through the default of an
               overridden bit)"""
    contribs = _contributions(stmts, nbits_of_sig, node_of)
    node_sig = {v: sb[0] for sb, v in node_of.items()}
    sig_nodes = {}
    for (sg, b), v in sorted(node_of.items()):
        sig_nodes.setdefault(sg, []).append(v)
    targets = {}                     # stmt -> set of nodes it can assign
    for k, v, d in contribs:
        targets.setdefault(k, set()).add(v)
    dead = set()
    for k, v, d in contribs:
        for j in range(k + 1, len(stmts)):
            if _unconditional_cover(stmts[j]) and v in stmts[j]["lhs"][1]:
                dead.add((k, v))
                break
    # leading runs of unconditional whole-signal assignments
    claim = set()
    first_default = {}               # sig -> stmt index of its first statement if that is an unconditional whole-signal one
    for sg, nodes in sig_nodes.items():
        touching = [k for k in range(len(stmts)) if targets.get(k, set()) & set(nodes)]
        run = []
        for k in touching:
            s = stmts[k]
            if _unconditional_cover(s) and list(s["lhs"][1]) == list(nodes):
                run.append(k)
            else:
                break
        if run:
            first_default[sg] = run[0]
        for k in run[:-1]:
            for v in nodes:
                claim.add((k, v))
    covered_later = set()
    for sg, k0 in first_default.items():
        for v in sig_nodes[sg]:
            if any(j > k0 and v in targets.get(j, set()) for j in range(len(stmts))):
                covered_later.add((k0, v))
    return {"all": _graph(contribs), "sem": _graph(contribs, dead), "claim": _graph(contribs, claim & dead),
            "nodefault_on_covered": _graph(contribs, dead | covered_later), "has_dead": bool(dead)}


def find_cycle(g):
    """DFS; -> list of nodes forming a cycle (v0 <- v1 <- ... <- v0) or None"""
    WHITE, GREY, BLACK = 0, 1, 2
    color = {}
    for root in sorted(g):
        if color.get(root, WHITE) != WHITE:
            continue
        stack = [(root, iter(sorted(g.get(root, ()))))]
        color[root] = GREY
        path = [root]
        while stack:
            v, it = stack[-1]
            for u in it:
                c = color.get(u, WHITE)
                if c == GREY:
                    return path[path.index(u):] + [u]
                if c == WHITE:
                    color[u] = GREY
                    path.append(u)
                    stack.append((u, iter(sorted(g.get(u, ())))))
                    break
            else:
                color[v] = BLACK
                path.pop()
                stack.pop()
    return None


def reaches_itself(g):
    """independent second formulation (transitive closure by fixpoint) used to cross-check find_cycle"""
    reach = {v: set(d) for v, d in g.items()}
    changed = True
    while changed:
        changed = False
        for v in reach:
            new = set()
            for u in reach[v]:
                new |= reach.get(u, set())
            if not new <= reach[v]:
                reach[v] |= new
                changed = True
    return any(v in r for v, r in reach.items())


# ---------------------------------------------------------------- driver placement
def driver_truth(case):
    """case: {widths, frontend, drivers:[[kind, module, domain, sig, mask], ...]} -> 'ok' | 'DriverConflict' | 'SyntaxError'.

    'SyntaxError' = the Module DSL's documented statement-time rejection: within ONE module some bit is assigned from
    two different domains (docs/guide.rst, "it is an error to add two assignments to the same signal bit to two
    different domains").  It pre-empts conversion, so it takes precedence when the design is written with the DSL."""
    owners = {}
    for idx, (kind, module, domain, sig, mask) in enumerate(case["drivers"]):
        ident = ("L", module, domain) if kind == "L" else (kind, idx)
        for bit in range(case["widths"][sig]):
            if mask >> bit & 1:
                owners.setdefault((sig, bit), set()).add(ident)
    conflict = any(len(s) > 1 for s in owners.values())
    if case["frontend"] == "dsl":
        for s in owners.values():
            logic = [i for i in s if i[0] == "L"]
            for a in logic:
                for b in logic:
                    if a[1] == b[1] and a[2] != b[2]:
                        return "SyntaxError"
    return "DriverConflict" if conflict else "ok"


def conflict_kinds(case):
    """which antecedents of the statement a conflicting design exercises (for the vacuity guards)"""
    owners = {}
    for idx, (kind, module, domain, sig, mask) in enumerate(case["drivers"]):
        ident = ("L", module, domain) if kind == "L" else (kind, idx)
        for bit in range(case["widths"][sig]):
            if mask >> bit & 1:
                owners.setdefault((sig, bit), set()).add(ident)
    kinds = set()
    for s in owners.values():
        s = sorted(s, key=repr)
        for i, a in enumerate(s):
            for b in s[i + 1:]:
                if a[0] == "L" and b[0] == "L":
                    if a[1] != b[1] and a[2] == b[2]:
                        kinds.add("two_modules")
                    elif a[1] == b[1] and a[2] != b[2]:
                        kinds.add("two_domains")
                    else:
                        kinds.add("two_modules_and_domains")
                elif a[0] == "L" or b[0] == "L":
                    kinds.add("logic_and_" + (b[0] if a[0] == "L" else a[0]))
                else:
                    kinds.add("two_nonlogic")
    if len(owners) and not kinds:
        multi = len(case["drivers"]) > 1
        kinds.add("disjoint_multi_driver" if multi else "single_driver")
    return kinds


# ---------------------------------------------------------------- driver placement under control inserters / renamers
def apply_wrappers(case):
    """Drivers of a wrapped placement after the wrappers took effect.  case["wrap"] = {"pos": "top"|"child", "chain": [[kind,
    arg], ...]} with the INNERMOST wrapper first; kind "R" (ResetInserter) / "E" (EnableInserter) only add statements to
    the domains the wrapped logic already uses, so they change no owner; kind "D" (DomainRenamer, arg = {old: new} or a
    string meaning {"sync": arg}) substitutes the domain of every driver inside the wrapped subtree (top wraps top and
    child, child wraps child only), one simultaneous substitution per renamer, inner renamer first."""
    wrap = case.get("wrap")
    out = []
    for kind, module, domain, sig, mask in case["drivers"]:
        if wrap and kind == "L" and domain != "comb" and (wrap["pos"] == "top" or module == "child"):
            for wk, arg in wrap["chain"]:
                if wk == "D":
                    dmap = {"sync": arg} if isinstance(arg, str) else arg
                    domain = dmap.get(domain, domain)
        out.append([kind, module, domain, sig, mask])
    return out


def wrapped_truth(case):
    """-> 'ok' | 'DriverConflict' | 'SyntaxError' for a wrapped placement.  The DSL's statement-time check sees the design as
    written (before any wrapper is applied); conversion sees the owners after the renamers' substitution."""
    if case["frontend"] == "dsl" and driver_truth(dict(case, frontend="dsl")) == "SyntaxError":
        return "SyntaxError"
    return driver_truth({"widths": case["widths"], "frontend": "frag", "drivers": apply_wrappers(case)})
