"""C15 reference semantics of data layouts, written from the property statement and docs/stdlib/data.rst.

Plain ints / tuples only; nothing here imports amaranth.

Layout terms (hashable tuples; json turns them into lists, `tup` restores them):
    ("u", w) | ("s", w)                    plain unsigned / signed field of w bits
    ("E", name)                            shaped enumeration leaf, see ENUMS
    ("struct", (t0, t1, ...))              data.StructLayout, keys "a", "b", ...
    ("union",  (t0, t1, ...))              data.UnionLayout,  keys "a", "b", ...
    ("array",  t, n)                       data.ArrayLayout(t, n), keys 0..n-1
    ("flex",   size, ((key, t, off), ...)) data.FlexibleLayout, keys str or int
    ("scls",   (t0, ...)) / ("ucls", (t0, ...))
                                           data.Struct / data.Union subclass defined with annotations; the
                                           LAST field has a class-level default of "all ones" (see default_of)
"""

KEYS = "abcdefgh"

# shaped enumerations usable as leaves: base class name, shape, member values (names M0, M1, ...)
ENUMS = {
    "EU": {"base": "Enum",    "width": 2, "signed": False, "values": [0, 1, 2, 3]},
    "EP": {"base": "Enum",    "width": 2, "signed": False, "values": [0, 1, 2]},        # 3 is not a valid pattern
    "ES": {"base": "Enum",    "width": 2, "signed": True,  "values": [-2, -1, 0, 1]},
    "IE": {"base": "IntEnum", "width": 2, "signed": False, "values": [0, 1, 2, 3]},
    "IS": {"base": "IntEnum", "width": 2, "signed": True,  "values": [-2, -1, 0, 1]},
    "FL": {"base": "Flag",    "width": 2, "signed": False, "values": [1, 2]},           # every 2-bit pattern is a valid combination
}


def tup(t):
    return tuple(tup(x) if isinstance(x, (list, tuple)) else x for x in t)


def is_leaf(t):
    return t[0] in ("u", "s", "E")


def width(t):
    k = t[0]
    if k in ("u", "s"):
        return t[1]
    if k == "E":
        return ENUMS[t[1]]["width"]
    if k in ("struct", "scls"):
        return sum(width(x) for x in t[1])
    if k in ("union", "ucls"):
        return max((width(x) for x in t[1]), default=0)
    if k == "array":
        return width(t[1]) * t[2]
    if k == "flex":
        return t[1]
    raise ValueError(t)


def signed(t):
    """signedness of the field's shape; every layout is unsigned(size)"""
    if t[0] == "s":
        return True
    if t[0] == "E":
        return ENUMS[t[1]]["signed"]
    return False


def fields(t):
    """[(key, subterm, offset)] in declaration order -- the placement rules of the statement"""
    k = t[0]
    if k in ("struct", "scls"):
        out, off = [], 0
        for i, x in enumerate(t[1]):
            out.append((KEYS[i], x, off))
            off += width(x)
        return out
    if k in ("union", "ucls"):
        return [(KEYS[i], x, 0) for i, x in enumerate(t[1])]
    if k == "array":
        w = width(t[1])
        return [(i, t[1], i * w) for i in range(t[2])]
    if k == "flex":
        return [(key, x, off) for key, x, off in t[2]]
    raise ValueError(t)


def depth(t):
    if is_leaf(t):
        return 0
    return 1 + max((depth(x) for _k, x, _o in fields(t)), default=0)


def show(t):
    k = t[0]
    if k in ("u", "s"):
        return f"{k}{t[1]}"
    if k == "E":
        return t[1]
    if k in ("struct", "union", "scls", "ucls"):
        return {"struct": "S", "union": "U", "scls": "Sc", "ucls": "Uc"}[k] + "(" + ",".join(show(x) for x in t[1]) + ")"
    if k == "array":
        return f"A({show(t[1])}*{t[2]})"
    if k == "flex":
        return f"F({t[1]};" + ",".join(f"{key!r}:{show(x)}@{off}" for key, x, off in t[2]) + ")"
    raise ValueError(t)


def mask(w):
    return (1 << w) - 1


def covered_mask(t):
    m = 0
    for _k, x, off in fields(t):
        m |= mask(width(x)) << off
    return m


def to_signed(bits, w):
    if w and bits >> (w - 1):
        return bits - (1 << w)
    return bits


def leaf_valid(t, bits):
    """is `bits` a valid pattern of the leaf (only enumerations can have invalid patterns)"""
    if t[0] != "E":
        return True
    e = ENUMS[t[1]]
    v = to_signed(bits, e["width"]) if e["signed"] else bits
    if e["base"] in ("Flag", "IntFlag"):
        allbits = 0
        for x in e["values"]:
            allbits |= x
        return v & ~allbits == 0
    return v in e["values"]


INVALID = ("invalid",)


def decode(t, bits):
    """the value of a field holding `bits`: the bit slice reinterpreted in the field's shape.
    leaf -> int (enumerations: the member value, or INVALID); layout -> ("L", bits, ((key, decoded), ...))"""
    w = width(t)
    bits &= mask(w)
    if is_leaf(t):
        if not leaf_valid(t, bits):
            return INVALID
        return to_signed(bits, w) if signed(t) else bits
    return ("L", bits, tuple((key, decode(x, (bits >> off) & mask(width(x)))) for key, x, off in fields(t)))


def assign(t, whole, key, field_bits):
    """bits of the whole value after assigning field_bits through field `key`: only that field's bits change"""
    for k, x, off in fields(t):
        if k == key:
            m = mask(width(x)) << off
            return (whole & ~m) | ((field_bits << off) & m)
    raise KeyError(key)


def default_of(t):
    """class-level defaults of a ("scls"/"ucls") term: the last field is initialised to all ones"""
    fs = fields(t)
    if not fs:
        return {}
    key, x, _off = fs[-1]
    return {key: ("bits", mask(width(x)))}


def encode(t, init):
    """bits of `layout.const(init)`: an all-zero value with every field assigned in the order of `init`.
    init: int for leaves (taken modulo the width), ("bits", n) = an already built constant, ("hc", value, width,
    signed) = an hdl.Const initialiser of a plain field, None, dict or list"""
    w = width(t)
    if isinstance(init, tuple) and len(init) == 2 and init[0] == "bits":
        return init[1] & mask(w)
    if isinstance(init, tuple) and len(init) == 4 and init[0] == "hc":
        # an hdl.Const(value, Shape(cw, csigned)) assigned to the field: the constant's own value (wrapped into its
        # own shape, sign-extended iff the constant is signed) truncated / extended to the field width
        _hc, value, cw, csigned = init
        value &= mask(cw)
        if csigned:
            value = to_signed(value, cw)
        return value & mask(w)
    if is_leaf(t):
        return init & mask(w)
    if init is None:
        items = []
    elif isinstance(init, dict):
        items = list(init.items())
    else:
        items = list(enumerate(init))
    if t[0] == "scls":
        merged = dict(default_of(t))
        merged.update(dict(items))
        items = list(merged.items())
    elif t[0] == "ucls" and not items:
        items = list(default_of(t).items())
    bits = 0
    sub = {k: (x, off) for k, x, off in fields(t)}
    for key, v in items:
        x, off = sub[key]
        m = mask(width(x)) << off
        bits = (bits & ~m) | ((encode(x, v) << off) & m)
    return bits


def init_from(t, bits, nested="dict"):
    """an initialiser that describes `bits` field by field (struct/array/flex: all fields in order; leaf: value).
    Returns None if a field holds an invalid enumeration pattern. Unions are handled by the caller."""
    w = width(t)
    bits &= mask(w)
    if is_leaf(t):
        d = decode(t, bits)
        return None if d is INVALID else d
    if nested == "bits":
        return ("bits", bits)
    out = {}
    fs = fields(t)
    if t[0] in ("union", "ucls"):
        # the widest first field that covers the value
        fs = sorted(fs, key=lambda f: -width(f[1]))[:1]
    for key, x, off in fs:
        v = init_from(x, (bits >> off) & mask(width(x)), nested)
        if v is None:
            return None
        out[key] = v
    if t[0] == "array":
        return [out[i] for i in range(t[2])]
    return out
