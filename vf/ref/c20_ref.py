"""C20 reference semantics (plain Python, never imports amaranth).

1. `parse_spec` / `grammar_accepts`: the *documented* format-specification grammar of amaranth's `Format`
   (RFC 50 as summarised by the property statement: `[[fill]align][sign][#][0][width][_][type]`, align one of
   `< > =`, type one of `b o d x X c s` or absent; `c`/`s` only for unsigned values and without `=`, sign, `#`,
   `0`, grouping; `s` only for widths divisible by 8).  It is a hand-written left-to-right parser, not a copy of
   the regular expression in the code under test.
2. `expected_text`: what Python's own `format()` yields for the value interpreted in its own shape.
3. `active_leaves` / `TimingModel`: which Print / Assert / Assume / Cover statements of a small control-flow
   program are active for a valuation, and when a clocked domain has an active edge.
"""

ALIGNS_PY = "<>=^"
TYPES_DOC = "bodxXcs"


class SpecError(Exception):
    pass


def parse_spec(spec):
    """Parse by Python's format-spec mini-language layout; raises SpecError when the string is not of the form
    [[fill]align][sign][#][0][width][grouping][type] with width a decimal number without leading zero."""
    i, n = 0, len(spec)
    fill = align = sign = grouping = typ = None
    alt = zero = False
    width = None
    if n >= 2 and spec[1] in ALIGNS_PY:
        fill, align, i = spec[0], spec[1], 2
    elif n >= 1 and spec[0] in ALIGNS_PY:
        align, i = spec[0], 1
    if i < n and spec[i] in "+- ":
        sign = spec[i]
        i += 1
    if i < n and spec[i] == "#":
        alt = True
        i += 1
    if i < n and spec[i] == "0":
        zero = True
        i += 1
    j = i
    while j < n and spec[j] in "0123456789":
        j += 1
    if j > i:
        if spec[i] == "0":
            raise SpecError("width with a leading zero")
        width = int(spec[i:j])
        i = j
    if i < n and spec[i] in "_,":
        grouping = spec[i]
        i += 1
    if i < n:
        typ = spec[i]
        i += 1
    if i != n:
        raise SpecError("trailing characters")
    return {"fill": fill, "align": align, "sign": sign, "alt": alt, "zero": zero, "width": width,
            "grouping": grouping, "type": typ}


def grammar_accepts(spec, width, signed):
    """True iff `spec` is inside the documented grammar for a value of shape (width, signed)."""
    try:
        p = parse_spec(spec)
    except SpecError:
        return False
    if p["align"] == "^":
        return False
    if p["grouping"] == ",":
        return False
    if p["type"] is not None and p["type"] not in TYPES_DOC:
        return False
    if p["type"] in ("c", "s"):
        if signed:
            return False
        if p["align"] == "=" or p["sign"] is not None or p["alt"] or p["zero"] or p["grouping"] is not None:
            return False
    if p["type"] == "s" and width % 8 != 0:
        return False
    return True


def python_accepts(spec):
    """Does Python's own format() accept the specification for an int (or, for `s`, a str) argument?"""
    try:
        if spec.endswith("s"):
            format("A", spec[:-1])
        elif spec.endswith("c"):
            format(65, spec)
        else:
            format(5, spec)
        return True
    except (ValueError, TypeError):
        return False


def wrap(v, width, signed):
    if width == 0:
        return 0
    v &= (1 << width) - 1
    if signed and v >> (width - 1):
        v -= 1 << width
    return v


def string_of(value, width):
    """`s`: the value as a little-endian byte string without the padding NULs; None when the property says
    nothing about the value (NUL bytes below a non-NUL byte, or bytes that are not UTF-8)."""
    raw = value.to_bytes((width + 7) // 8, "little").rstrip(b"\0")
    if b"\0" in raw:
        return None
    try:
        return raw.decode("utf-8")
    except UnicodeDecodeError:
        return None


def expected_text(spec, value, width):
    """Python's rendering of `value` (already interpreted in its own shape); None = no expectation."""
    if spec.endswith("s"):
        s = string_of(value, width)
        return None if s is None else format(s, spec[:-1])
    if spec.endswith("c"):
        if not 0 <= value <= 0x10FFFF:
            return None
        return format(value, spec)
    return format(value, spec)


def spec_class(spec):
    return "s" if spec.endswith("s") else "c" if spec.endswith("c") else "i"


# ----------------------------------------------------------------------------------------------- operand forms
# the formatted operand is an expression over one signal `s` of shape (w, sg); reference: (shape, value)
def form_shape(form, w, sg):
    if form == "sig" or form == "inv":
        return (w, sg)
    if form == "reinterp":
        return (w, not sg)
    if form == "add1":
        return (w + 1, sg)
    raise ValueError(form)


def form_value(form, v, w, sg):
    if form == "sig":
        return v
    if form == "inv":
        return wrap(~v, w, sg)
    if form == "reinterp":
        return wrap(v, w, not sg)
    if form == "add1":
        return v + 1
    raise ValueError(form)


# ----------------------------------------------------------------------------------------------- timing part
# program = list of statements:
#   ("P", id) ("A", id, test) ("U", id, test) ("C", id, test) ("R",)
#   ("if", [(cond | None, body), ...])              If / Elif ... / Else
#   ("sw", test, [(patterns | None, body), ...])    Switch / Case(*patterns) / Default
# env: dict of plain ints: x (2 bits), cnt (2 bits), k (1 bit)
def ev(name, env):
    x, cnt, k = env["x"], env["cnt"], env["k"]
    if name == "x0":
        return x & 1
    if name == "x1":
        return (x >> 1) & 1
    if name == "nx0":
        return 1 - (x & 1)
    if name == "c0":
        return cnt & 1
    if name == "c1":
        return (cnt >> 1) & 1
    if name == "k":
        return k
    if name == "w":          # a combinational wire x[0] & x[1]
        return (x & 1) & ((x >> 1) & 1)
    if name == "x":          # multi-bit condition: true iff non-zero
        return x
    if name == "cnt":
        return cnt
    if name == "xe2":
        return int(x == 2)
    if name == "xn3":
        return int(x != 3)
    if name == "cn3":
        return int(cnt != 3)
    if name == "kx":         # k | x[0]
        return k | (x & 1)
    if name == "xc":         # Cat(x[0], cnt[0])
        return (x & 1) | ((cnt & 1) << 1)
    if name == "xk":         # Cat(x, k), 3 bits
        return x | (k << 2)
    # multi-bit values used directly as a test / condition: true iff non-zero
    if name == "sg":         # signed(3) register
        return env["sg"]
    if name == "xs":         # x.as_signed(), signed(2)
        return wrap(x, 2, True)
    if name == "xpc":        # x + cnt, unsigned(3)
        return x + cnt
    if name == "xmc":        # x - cnt, signed(3)
        return x - cnt
    if name == "xl1":        # x << 1, unsigned(3): bit 0 is always clear
        return x << 1
    if name == "xk12":       # Cat(x, k)[1:3]
        return ((x | (k << 2)) >> 1) & 3
    if name == "sgs":        # sg[1:], the two upper bits of the signed register, unsigned(2)
        return (env["sg"] & 7) >> 1
    raise ValueError(name)


def value_class(v):
    """how a multi-bit test value relates to the 'only bit 0 is examined' / 'sign is mishandled' mistakes"""
    if v == 0:
        return "zero"
    if v < 0:
        return "negative_even" if v % 2 == 0 else "negative_odd"
    return "even_nonzero" if v % 2 == 0 else "odd"


def sg_of(x, k):
    """the signed(3) register is loaded with Cat(x, k) on every active edge of p"""
    return wrap(x | (k << 2), 3, True)


WIDTH = {"x": 2, "xc": 2, "xk": 3, "cnt": 2}


def pat_match(pat, value, width):
    if isinstance(pat, int):
        return value == pat & ((1 << width) - 1)
    pat = pat.replace(" ", "").replace("_", "")
    assert len(pat) == width
    for i, ch in enumerate(reversed(pat)):     # leftmost character is the most significant bit
        if ch != "-" and int(ch) != (value >> i) & 1:
            return False
    return True


def active_leaves(prog, env, out=None, seen=None):
    """leaves that are active (all enclosing conditions hold) for env, in program order; `seen` (a set) collects
    ("if", condition name, value class) for every If / Elif condition that was evaluated"""
    if out is None:
        out = []
    for st in prog:
        if st[0] == "if":
            for cond, body in st[1]:
                if cond is not None and seen is not None:
                    seen.add(("if", cond, value_class(ev(cond, env))))
                if cond is None or ev(cond, env):
                    active_leaves(body, env, out, seen)
                    break
        elif st[0] == "sw":
            v = ev(st[1], env)
            for pats, body in st[2]:
                if pats is None or any(pat_match(p, v, WIDTH[st[1]]) for p in pats):
                    active_leaves(body, env, out, seen)
                    break
        else:
            out.append(st)
    return out


def all_leaves(prog, out=None):
    if out is None:
        out = []
    for st in prog:
        if st[0] == "if":
            for _c, body in st[1]:
                all_leaves(body, out)
        elif st[0] == "sw":
            for _p, body in st[2]:
                all_leaves(body, out)
        else:
            out.append(st)
    return out


def leaf_text(st, env):
    """the text a Print leaf emits / an Assert leaf carries: id and the values seen just before the edge"""
    return f"{st[0]}{st[1]}:{env['x']}:{env['cnt']}:{env['k']}"


class TimingModel:
    """Two clocked domains: `p` (rising edge active unless p_edge="neg"; owns register cnt) and `n` (falling edge
    active, owns register k).  An action sets the input x and then toggles the clocks selected by the mask
    (bit0 = p.clk, bit1 = n.clk) simultaneously.  With `arst` bit2 of the mask toggles the asynchronous reset of p.
    Monitor variants (opts): p_reg="k": the register statements of the p program toggle k (reset_less) instead of
    incrementing cnt; top_regs=False: sg is not driven; top_cnt=True: cnt increments on active p edges with x[1]."""
    def __init__(self, prog_p, prog_n, cnt0=0, k0=0, arst=False, p_edge="pos", p_reg="cnt", top_regs=True, top_cnt=False):
        self.prog = {"p": prog_p, "n": prog_n}
        self.init = {"cnt": cnt0, "k": k0, "sg": sg_of(cnt0, k0)}
        self.env = {"x": 0, "cnt": cnt0, "k": k0, "sg": sg_of(cnt0, k0)}
        self.clk = {"p": 0, "n": 0}
        self.rst = 0
        self.arst = arst
        self.p_edge, self.p_reg, self.top_regs, self.top_cnt = p_edge, p_reg, top_regs, top_cnt

    def _evaluate(self, domains, pre, seen=None):
        prints, fails, regs = [], [], []
        for d in domains:
            for st in active_leaves(self.prog[d], pre, seen=seen):
                if st[0] == "P":
                    prints.append(leaf_text(st, pre))
                elif st[0] in "AUC":
                    if seen is not None:
                        seen.add((st[0], st[2], value_class(ev(st[2], pre))))
                    if st[0] in "AU" and ev(st[2], pre) == 0:      # fails iff the test value is ZERO
                        fails.append(leaf_text(st, pre))
                elif st[0] == "R":
                    regs.append(d)
        return prints, fails, regs

    def step(self, iv, tm):
        """-> dict(prints=[texts], fails=[texts], edges=[domains with an active edge], unconstrained=bool, ...)"""
        self.env["x"] = iv
        pre = dict(self.env)
        edges = []
        if tm & 1:
            if self.clk["p"] == (0 if self.p_edge == "pos" else 1):
                edges.append("p")
            self.clk["p"] ^= 1
        if tm & 2:
            if self.clk["n"] == 1:
                edges.append("n")
            self.clk["n"] ^= 1
        rst_rise = rst_event = False
        if tm & 4:
            self.rst ^= 1
            rst_event = True
            rst_rise = self.rst == 1
        seen = set()
        prints, fails, regs = self._evaluate(edges, pre, seen)
        # what the statements of p WOULD do if they were (wrongly) run at a reset edge that is not a clock edge
        hypo = None
        if rst_event and "p" not in edges:
            hp, hf, _r = self._evaluate(["p"], pre)
            hypo = ("rise" if rst_rise else "fall", bool(hp), bool(hf))
        if "p" in edges:
            if self.top_regs:
                self.env["sg"] = sg_of(pre["x"], pre["k"])
            if self.top_cnt and (pre["x"] >> 1) & 1:
                self.env["cnt"] = (self.env["cnt"] + 1) & 3
        for d in regs:
            if d == "p" and self.p_reg == "cnt":
                self.env["cnt"] = (self.env["cnt"] + 1) & 3
            else:
                self.env["k"] ^= 1
        # the property does not say whether statements are active while the domain is held in reset
        unconstrained = bool(self.arst and self.rst and "p" in edges)
        if self.arst and self.rst:
            self.env["cnt"] = self.init["cnt"]
            self.env["sg"] = self.init["sg"]
        return {"seen": seen, "prints": prints, "fails": fails, "edges": edges, "unconstrained": unconstrained,
                "rst_rise": rst_rise, "rst_event": rst_event, "pre": pre, "hypo": hypo}


# ----------------------------------------------------------------------------------------------- Print arguments
def render_print_arg(arg, vals):
    """the str Python's print() would be given for one argument; vals = (a, b, c) plain ints in their own shape"""
    a, b, c = vals
    kind, what = arg
    if kind == "v":
        return str({"a": a, "b": b, "c": c, "amb": a - b}[what])
    if kind == "f":
        if what == "hex":
            return format(a, "02x")
        if what == "brace":
            return "b=" + str(b) + "|{}"
        raise ValueError(what)
    return str(what)


def expected_print(args, sep, end, vals):
    """exactly what Python's print(*rendered, sep=sep, end=end) writes"""
    import io
    buf = io.StringIO()
    kw = {}
    if sep is not None:
        kw["sep"] = sep
    if end is not None:
        kw["end"] = end
    print(*[render_print_arg(a, vals) for a in args], file=buf, **kw)
    return buf.getvalue()


# ----------------------------------------------------------------------------------------------- inserted enables
class EnableModel:
    """A checker (Print / Assert / Assume statements, optionally a register r) wrapped in EnableInserter /
    ResetInserter.  The statements are active at an active clock edge iff EVERY inserted enable around them is 1
    (and their own m.If condition holds); an inserted reset only resets the registers inside it (when enabled).
    Watched register w counts active edges (frozen / reset like any register when its driver is inside the wrapper)."""
    def __init__(self, desc):
        self.desc = desc
        self.w = self.r = 0
        self.clk = 0

    def state(self):
        return (self.w, self.r, self.clk)

    def step(self, inp, toggle):
        """inp: dict name -> int.  -> dict(edge, enabled, prints, fails, would_print, would_fail)"""
        desc = self.desc
        d = inp["d"]
        edge = bool(toggle) and self.clk == (0 if desc["edge"] == "pos" else 1)
        if toggle:
            self.clk ^= 1
        wrapper = desc["wrapper"]
        enabled = {"none": 1, "rst": 1, "en": inp.get("en1", 1), "en_dict": inp.get("en1", 1),
                   "en_en": inp.get("en1", 1) & inp.get("en2", 1), "en_rst": inp.get("en1", 1)}[wrapper]
        reset = inp.get("srst", 0) if wrapper in ("rst", "en_rst") else 0
        w, r = self.w, self.r
        prints, fails = [], []
        if "P" in desc["content"]:
            prints.append(f"Q:{w}:{d}:{r}")
            if d & 1:
                prints.append(f"R:{w}")
        if "A" in desc["content"]:
            if w == 2 and not (d >> 1) & 1:
                fails.append(f"A:{w}:{d}")
            if d & 1 and w == 1:
                fails.append(f"U:{w}")
        res = {"edge": edge, "enabled": bool(enabled), "reset": bool(reset), "prints": [], "fails": [],
               "would_print": bool(prints), "would_fail": bool(fails), "pre": {"w": w, "r": r, "d": d}}
        if not edge:
            return res
        if enabled:
            res["prints"], res["fails"] = prints, fails
        if desc["place"] in ("subsub_w", "same"):          # driver of w inside the wrapper
            if enabled:
                self.w = 0 if reset else (w + 1) & 3
        else:
            self.w = (w + 1) & 3
        if "R" in desc["content"] and enabled:
            self.r = 0 if reset else (r + 1) & 3
        return res
