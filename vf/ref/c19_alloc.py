"""C19 reference: a boring resource allocator, connector-chain resolution and constraint-file parsers.

Plain Python over the json-able *table spec* produced by vf/gen/c19_tables.py; nothing here imports amaranth.

Table spec
    {"connectors": [{"name", "number", "io": "A2 - A0" | {"p": "3"}, "conn": None | [name, number]}, ...],
     "resources":  [{"name", "number", "node": NODE}, ...]}
    NODE = {"kind": "pins", "names": [...], "conn": None|[name, number], "dir", "invert", "clock_mhz", "attrs"}
           (clock_mhz: None | MHz number | {"hz"|"khz"|"ns"|"ps"|"us": value}, see clock_hz)
         | {"kind": "diff", "p": [...], "n": [...], "conn", "dir", "invert", "clock_mhz", "attrs"}
         | {"kind": "group", "subs": [{"name": str, "node": NODE}, ...], "attrs"}
An action is {"name", "number", "dir", "xdr"}; dir/xdr are None | str/int | (nested) dict, exactly the arguments
given to Platform.request().
"""
import re

GRANT, REFUSE_RE, REFUSE_ANY, EITHER = "GRANT", "REFUSE_ResourceError", "REFUSE_any", "EITHER"
DIRS = ("i", "o", "oe", "io")


# ------------------------------------------------------------------ connector chains
def connector_map(table):
    """{'<conn>_<number>:<conn pin>': platform pin or pin of another connector}"""
    mp = {}
    for c in table.get("connectors", []):
        if isinstance(c["io"], str):
            pairs = [(str(i), tok) for i, tok in enumerate(c["io"].split(), start=1) if tok != "-"]
        else:
            pairs = list(c["io"].items())
        for cpin, target in pairs:
            if c.get("conn"):
                target = f"{c['conn'][0]}_{c['conn'][1]}:{target}"
            mp[f"{c['name']}_{c['number']}:{cpin}"] = target
    return mp


def physical_pins(table):
    """names that are physical pins of the platform described by the table: targets of connectors that are not mounted
    on another connector, and names used directly (no connector) by a resource"""
    phys = set()
    for c in table.get("connectors", []):
        if not c.get("conn"):
            phys.update(t for t in (c["io"].split() if isinstance(c["io"], str) else c["io"].values()) if t != "-")
    for r in table["resources"]:
        for _path, leaf in leaves(r["node"]):
            if not leaf.get("conn"):
                names = leaf["names"] if leaf["kind"] == "pins" else leaf["p"] + leaf["n"]
                phys.update(n for n in names if ":" not in n)
    return phys


def resolve_name(name, cmap):
    """follow connector-relative names until a physical pin is reached; None if the chain dangles"""
    hops = 0
    while ":" in name:
        if name not in cmap or hops > 16:
            return None
        name = cmap[name]
        hops += 1
    return name


def full_names(names, conn):
    if conn:
        return [f"{conn[0]}_{conn[1]}:{n}" for n in names]
    return list(names)


def leaves(node, path=()):
    """declared order, depth first: [(path of subsignal names, leaf node)]"""
    if node["kind"] == "group":
        out = []
        for s in node["subs"]:
            out += leaves(s["node"], path + (s["name"],))
        return out
    return [(path, node)]


def leaf_pins(leaf, cmap):
    """-> dict(io=[...]) or dict(p=[...], n=[...]) of physical names (None where the chain dangles)"""
    if leaf["kind"] == "pins":
        return {"io": [resolve_name(n, cmap) for n in full_names(leaf["names"], leaf.get("conn"))]}
    return {"p": [resolve_name(n, cmap) for n in full_names(leaf["p"], leaf.get("conn"))],
            "n": [resolve_name(n, cmap) for n in full_names(leaf["n"], leaf.get("conn"))]}


# ------------------------------------------------------------------ option merging (dir / xdr overrides)
def merge(node, d, x, path=()):
    """-> list of (path, leaf, eff_dir, eff_xdr, status) with status in ok | illegal | either"""
    if node["kind"] == "group":
        if d is None:
            dd, dash = {}, False
        elif d == "-":
            dd, dash = {}, True
        elif isinstance(d, dict):
            dd, dash = d, False
        else:
            return [(path, None, d, x, "illegal")]
        if x is None:
            xx = {}
        elif isinstance(x, dict):
            xx = x
        else:
            return [(path, None, d, x, "illegal")]
        out = []
        for s in node["subs"]:
            out += merge(s["node"], "-" if dash else dd.get(s["name"]), xx.get(s["name"]), path + (s["name"],))
        return out
    eff_d = node["dir"] if d is None else d
    eff_x = 0 if x is None else x
    status = "ok"
    if not isinstance(eff_d, str) or eff_d not in DIRS + ("-",):
        status = "illegal"
    elif eff_d != node["dir"] and not (node["dir"] == "io" or eff_d == "-"):
        status = "illegal"                 # only io -> i/o/oe and anything -> "-" may be overridden
    elif isinstance(eff_x, bool) or not isinstance(eff_x, int) or eff_x < 0:
        status = "illegal"
    elif eff_x > 2:
        status = "either"                  # data rates above 2 are platform specific: either outcome is fine
    return [(path, node, eff_d, eff_x, status)]


class RefAlloc:
    """granted set + pin -> owner map; a refused request never changes either"""
    def __init__(self, table, static=None):
        self.cmap, self.res, self.pins = static if static is not None else self.prepare(table)
        self.granted = set()
        self.owner = {}

    @staticmethod
    def prepare(table):
        """the immutable part (connector map, resources by key, resolved pins per resource); shareable between runs"""
        cmap = connector_map(table)
        res = {(r["name"], r["number"]): r for r in table["resources"]}
        pins = {}
        self_check = physical_pins(table)
        for k, r in res.items():
            lst = []
            for _path, leaf in leaves(r["node"]):
                for half in leaf_pins(leaf, cmap).values():
                    lst += half
            pins[k] = lst
            assert all(p is None or p in self_check for p in lst), "reference: resolved name is not a physical pin"
        return cmap, res, pins

    def key(self):
        return (frozenset(self.granted), frozenset(self.owner.items()))

    def expect(self, action):
        """-> (verdict, why, merged leaves)"""
        k = (action["name"], action["number"])
        if k not in self.res:
            return REFUSE_ANY, "no such resource", []
        merged = merge(self.res[k]["node"], action.get("dir"), action.get("xdr"))
        illegal = any(m[4] == "illegal" for m in merged)
        either = any(m[4] == "either" for m in merged)
        dangling = any(p is None for p in self.pins[k])
        pins = [p for p in self.pins[k] if p is not None]
        if k in self.granted:
            return (REFUSE_ANY if illegal or dangling else REFUSE_RE), "already requested", merged
        clash = sorted(p for p in pins if p in self.owner)
        if clash:
            why = "pin %s held by %s_%d" % (clash[0], *self.owner[clash[0]])
            return (REFUSE_ANY if illegal or either or dangling else REFUSE_RE), why, merged
        if illegal:
            return REFUSE_ANY, "illegal dir/xdr override", merged
        if dangling:
            return REFUSE_ANY, "connector pin does not exist", merged
        if either:
            return EITHER, "xdr > 2", merged
        return GRANT, "free", merged

    def commit(self, action):
        k = (action["name"], action["number"])
        self.granted.add(k)
        for p in self.pins[k]:
            self.owner[p] = k


def verdict_ok(verdict, got_ok, got_is_resource_error):
    if verdict == GRANT:
        return got_ok
    if verdict == REFUSE_RE:
        return (not got_ok) and got_is_resource_error
    if verdict == REFUSE_ANY:
        return not got_ok
    return True


def clock_hz(spec):
    """declared clock -> frequency in Hz. spec: number (MHz) | {"hz": f} | {"khz": f} | {"ns": t} | {"ps": t}"""
    if isinstance(spec, dict):
        (unit, v), = spec.items()
        return {"hz": lambda: v, "khz": lambda: v * 1e3, "mhz": lambda: v * 1e6,
                "ns": lambda: 1e9 / v, "ps": lambda: 1e12 / v, "us": lambda: 1e6 / v}[unit]()
    return spec * 1e6


PORT_DIR = {"i": "i", "o": "o", "oe": "o", "io": "io"}      # declared pin direction -> I/O port direction value


# ------------------------------------------------------------------ constraint files
class ParseError(Exception):
    pass


def parse_pcf(text):
    loc, freq = [], []
    for line in text.splitlines():
        line = line.split("#", 1)[0].strip()
        if not line:
            continue
        w = line.split()
        if w[0] == "set_io" and len(w) == 3:
            loc.append((w[1], w[2]))
        elif w[0] == "set_frequency" and len(w) == 3:
            freq.append((w[1], float(w[2]) * 1e6))
        else:
            raise ParseError(line)
    return loc, freq


def parse_lpf(text):
    loc, freq = [], []
    body = "\n".join(l.split("#", 1)[0] for l in text.splitlines())
    for stmt in body.split(";"):
        stmt = " ".join(stmt.split())
        if not stmt:
            continue
        m = re.fullmatch(r'LOCATE COMP "([^"]*)" SITE "([^"]*)"', stmt)
        if m:
            loc.append((m.group(1), m.group(2)))
            continue
        m = re.fullmatch(r'FREQUENCY (PORT|NET) "([^"]*)" ([0-9.eE+-]+) HZ', stmt)
        if m:
            freq.append((m.group(2), float(m.group(3))))
            continue
        if re.fullmatch(r'IOBUF PORT "([^"]*)"( \S+=\S*)*', stmt) or re.fullmatch(r"BLOCK \w+", stmt):
            continue
        raise ParseError(stmt)
    return loc, freq


def parse_cst(text):
    loc = []
    body = "\n".join(l.split("//", 1)[0] for l in text.splitlines())
    for stmt in body.split(";"):
        stmt = " ".join(stmt.split())
        if not stmt:
            continue
        m = re.fullmatch(r'IO_LOC "([^"]*)" (\S+)', stmt)
        if m:
            loc.append((m.group(1), m.group(2)))
            continue
        if re.fullmatch(r'IO_PORT "([^"]*)" \S+=\S*', stmt):
            continue
        raise ParseError(stmt)
    return loc, None          # the Apicula flow has no timing-constraint file


def parse_top_ports(rtlil, top="top"):
    """[(name, width)] of the ports of the top module of an RTLIL text"""
    m = re.search(r"^module \\%s\s*$" % re.escape(top), rtlil, re.M)
    if not m:
        raise ParseError("no top module")
    body = rtlil[m.end():]
    body = body[:re.search(r"^end\s*$", body, re.M).start()]
    ports = []
    for line in body.splitlines():
        mm = re.match(r"\s*wire\s+(.*?)\\(\S+)\s*$", line)
        if not mm:
            continue
        opts = mm.group(1).split()
        if not any(o in ("input", "output", "inout") for o in opts):
            continue
        width = int(opts[opts.index("width") + 1]) if "width" in opts else 1
        ports.append((mm.group(2), width))
    return ports


def parse_top_cells(rtlil, top="top"):
    """{cell name: [wire names mentioned on the right-hand side of its connections]} for the cells of the top module"""
    m = re.search(r"^module \\%s\s*$" % re.escape(top), rtlil, re.M)
    if not m:
        raise ParseError("no top module")
    body = rtlil[m.end():]
    body = body[:re.search(r"^end\s*$", body, re.M).start()]
    cells, cur = {}, None
    for line in body.splitlines():
        mm = re.match(r"\s*cell\s+\S+\s+\\(\S+)\s*$", line)
        if mm:
            cur = cells.setdefault(mm.group(1), [])
            continue
        if re.match(r"\s*end\s*$", line):
            cur = None
            continue
        mm = re.match(r"\s*connect\s+\\\S+\s+(.*)$", line)
        if mm and cur is not None:
            cur += re.findall(r"\\(\S+)", mm.group(1))
    return cells


def strip_dedup(name):
    """netlist names are made unique with a $<number> suffix"""
    return re.sub(r"\$\d+$", "", name)


def bit_names(name, width):
    return [name] if width == 1 else [f"{name}[{i}]" for i in range(width)]


# ------------------------------------------------------------------ Tcl-based constraint files (.qsf .sdc .xdc .pdc)
def ascii_escape(name):
    """the SymbiFlow flows name nets with every character outside [A-Za-z0-9_] replaced by _<hex code>_"""
    return "".join(c if (c.isascii() and (c.isalnum() or c == "_")) else "_%02x_" % ord(c) for c in name)


class TclWord:
    __slots__ = ("kind", "text", "raw", "subst", "words")

    def __init__(self, kind, text, raw="", subst=False, words=None):
        self.kind, self.text, self.raw, self.subst, self.words = kind, text, raw, subst, words

    def __repr__(self):
        return f"<{self.kind} {self.text!r}>"


def tcl_commands(text, comment="#", diamond=False):
    """A small Tcl word reader: -> list of commands, each a list of TclWord.
    "quoted" words are decoded by Tcl's double-quote rules: backslash + char = that char; an unescaped `[` or `$`
    would be a substitution (word.subst = True). {braced} words are literal. [bracketed] words are nested commands
    (kind "cmd", .words). Bare words are literal (a balanced [n] inside a bare word belongs to the word: the pdc
    dialect of nextpnr). With diamond=True a quoted word is first un-doubled (`\\\\` -> `\\`): Diamond reads SDC names
    with one more level of backslash escaping (vendor quirk stated in amaranth/build/plat.py)."""
    pos, n = 0, len(text)
    cmds = []

    def skip_ws(i, newline_is_ws):
        while i < n and (text[i] in " \t\r" or (text[i] == "\\" and i + 1 < n and text[i + 1] == "\n")
                         or (newline_is_ws and text[i] == "\n")):
            i += 2 if text[i] == "\\" else 1
        return i

    def read_quoted(i):
        j = i + 1
        raw = []
        while j < n and text[j] != '"':
            if text[j] == "\\" and j + 1 < n:
                raw.append(text[j:j + 2])
                j += 2
            else:
                raw.append(text[j])
                j += 1
        if j >= n:
            raise ParseError("unterminated quoted word")
        raw = "".join(raw)
        src = raw.replace("\\\\", "\\") if diamond else raw
        out, subst, k = [], False, 0
        while k < len(src):
            c = src[k]
            if c == "\\" and k + 1 < len(src):
                out.append(src[k + 1])
                k += 2
                continue
            if c in "[$":
                subst = True
            out.append(c)
            k += 1
        return TclWord("quoted", "".join(out), raw, subst), j + 1

    def read_braced(i):
        depth, j = 0, i
        while j < n:
            if text[j] == "\\":
                j += 2
                continue
            if text[j] == "{":
                depth += 1
            elif text[j] == "}":
                depth -= 1
                if depth == 0:
                    return TclWord("braced", text[i + 1:j], text[i:j + 1]), j + 1
            j += 1
        raise ParseError("unterminated braced word")

    def read_bare(i, in_bracket):
        j, depth = i, 0
        while j < n:
            c = text[j]
            if c == "[":
                depth += 1
            elif c == "]":
                if depth == 0:
                    break
                depth -= 1
            elif depth == 0 and (c in " \t\r\n;"):
                break
            j += 1
        return TclWord("bare", text[i:j], text[i:j]), j

    def read_words(i, in_bracket):
        words = []
        while True:
            i = skip_ws(i, in_bracket)
            if i >= n:
                if in_bracket:
                    raise ParseError("unterminated [command]")
                return words, i
            c = text[i]
            if in_bracket and c == "]":
                return words, i + 1
            if not in_bracket and c in "\n;":
                return words, i + 1
            if c == '"':
                w, i = read_quoted(i)
            elif c == "{":
                w, i = read_braced(i)
            elif c == "[":
                sub, i = read_words(i + 1, True)
                w = TclWord("cmd", sub[0].text if sub else "", "", False, sub)
            else:
                w, i = read_bare(i, in_bracket)
                if w.text == "" and i < n:           # a stray `}` or similar single character
                    w, i = TclWord("bare", text[i], text[i]), i + 1
            words.append(w)

    while pos < n:
        pos = skip_ws(pos, False)
        if pos >= n:
            break
        if text.startswith(comment, pos):
            while pos < n and text[pos] != "\n":
                pos += 1
            continue
        words, pos = read_words(pos, False)
        if words:
            cmds.append(words)
    return cmds


def _all_words(words):
    for w in words:
        yield w
        if w.kind == "cmd":
            yield from _all_words(w.words)


def _target(word):
    """name designated by a [get_ports NAME] / [get_nets NAME] word or by a plain word"""
    if word.kind == "cmd":
        args = [w for w in word.words[1:] if not (w.kind == "bare" and (w.text.startswith("-") or w.text == "}"))]
        return args[0].text if args else None
    return word.text


def extract_tcl(text, comment="#", diamond=False, period_unit=1e9):
    """-> dict(loc [(name, pin)], attrs [(name, key, value)], freq [(name, hz)], quote_errs [raw word])"""
    out = {"loc": [], "attrs": [], "freq": [], "quote_errs": [], "quoted": []}
    for cmd in tcl_commands(text, comment, diamond):
        for w in _all_words(cmd):
            if w.kind == "quoted":
                out["quoted"].append(w.text)
                if w.subst:
                    out["quote_errs"].append('"' + w.raw + '"')
        head, args = cmd[0].text, cmd[1:]
        opts, plain, i = {}, [], 0
        with_value = {"set_location_assignment": ("-to",), "set_instance_assignment": ("-to", "-name"),
                      "create_clock": ("-name", "-period"), "ldc_set_location": ("-site",), "ldc_set_port": ("-iobuf",)}.get(head)
        if with_value is None and head != "set_property":
            continue
        while i < len(args):
            w = args[i]
            if with_value and w.kind == "bare" and w.text in with_value and i + 1 < len(args):
                opts[w.text] = args[i + 1]
                i += 2
            else:
                plain.append(w)
                i += 1
        if head == "set_location_assignment" and "-to" in opts and plain:
            pin = plain[0].text
            out["loc"].append((opts["-to"].text, pin[4:] if pin.startswith("PIN_") else pin))
        elif head == "set_instance_assignment" and "-to" in opts and "-name" in opts and plain:
            out["attrs"].append((opts["-to"].text, opts["-name"].text, plain[0].text))
        elif head == "set_property" and len(plain) >= 3:
            name = _target(plain[2])
            if plain[0].text == "LOC":
                out["loc"].append((name, plain[1].text))
            else:
                out["attrs"].append((name, plain[0].text, plain[1].text))
        elif head == "ldc_set_location" and "-site" in opts and plain:
            out["loc"].append((_target(plain[0]), opts["-site"].text))
        elif head == "ldc_set_port" and "-iobuf" in opts and plain:
            for kv in opts["-iobuf"].text.split():
                k, _, v = kv.partition("=")
                out["attrs"].append((_target(plain[0]), k, v))
        elif head == "create_clock" and "-period" in opts and plain:
            out["freq"].append((_target(plain[0]), period_unit / float(opts["-period"].text)))
    return out


def extract_lpf(text):
    out = {"loc": [], "attrs": [], "freq": [], "quote_errs": []}
    body = "\n".join(l.split("#", 1)[0] for l in text.splitlines())
    for stmt in body.split(";"):
        stmt = " ".join(stmt.split())
        if not stmt:
            continue
        m = re.fullmatch(r'LOCATE COMP "([^"]*)" SITE "([^"]*)"', stmt)
        if m:
            out["loc"].append((m.group(1), m.group(2)))
            continue
        m = re.fullmatch(r'FREQUENCY (PORT|NET) "([^"]*)" ([0-9.eE+-]+) HZ', stmt)
        if m:
            out["freq"].append((m.group(2), float(m.group(3))))
            continue
        m = re.fullmatch(r'IOBUF PORT "([^"]*)"((?: \S+=\S*)*)', stmt)
        if m:
            for kv in m.group(2).split():
                k, _, v = kv.partition("=")
                out["attrs"].append((m.group(1), k, v))
            continue
        if re.fullmatch(r"BLOCK \w+", stmt):
            continue
        raise ParseError(stmt)
    return out


def extract_cst(text):
    out = {"loc": [], "attrs": [], "freq": [], "quote_errs": []}
    body = "\n".join(l.split("//", 1)[0] for l in text.splitlines())
    for stmt in body.split(";"):
        stmt = " ".join(stmt.split())
        if not stmt:
            continue
        m = re.fullmatch(r'IO_LOC "([^"]*)" (\S+)', stmt)
        if m:
            out["loc"].append((m.group(1), m.group(2)))
            continue
        m = re.fullmatch(r'IO_PORT "([^"]*)" (\S+)=(\S*)', stmt)
        if m:
            out["attrs"].append((m.group(1), m.group(2), m.group(3)))
            continue
        raise ParseError(stmt)
    return out


def extract_pcf(text):
    loc, freq = parse_pcf(text)
    return {"loc": loc, "attrs": [], "freq": freq, "quote_errs": []}


def extract_ucf(text):
    """ISE: NET "n<bit>" LOC=pin; NET "n" KEY=VALUE; NET "n" TNM_NET="G"; TIMESPEC "TS"=PERIOD "G" <ns> ns HIGH 50%;"""
    out = {"loc": [], "attrs": [], "freq": [], "quote_errs": []}
    groups = {}
    body = "\n".join(l.split("#", 1)[0] for l in text.splitlines())
    for stmt in body.split(";"):
        stmt = " ".join(stmt.split())
        if not stmt:
            continue
        m = re.fullmatch(r'NET "([^"]*)" (\w+)=("?)([^"]*)\3', stmt)
        if m:
            name = re.sub(r"<(\d+)>$", r"[\1]", m.group(1))
            if m.group(2) == "LOC":
                out["loc"].append((name, m.group(4)))
            elif m.group(2) == "TNM_NET":
                groups[m.group(4)] = name
            else:
                out["attrs"].append((name, m.group(2), m.group(4)))
            continue
        m = re.fullmatch(r'TIMESPEC "([^"]*)"=PERIOD "([^"]*)" ([0-9.eE+-]+) ns HIGH 50%', stmt)
        if m:
            out["freq"].append((groups.get(m.group(2), "?" + m.group(2)), 1e9 / float(m.group(3))))
            continue
        raise ParseError(stmt)
    return out


def expected_attrs(resource_node, path):
    """attributes of the leaf at `path`: resource level first, overridden level by level; None removes a key;
    a callable ({"call": text}) stands for the text it returns"""
    acc = {}
    node = resource_node

    def merge(a):
        for k, v in (a or {}).items():
            acc[k] = v
        for k in [k for k, v in acc.items() if v is None]:
            del acc[k]
    merge(node.get("attrs"))
    for name in path:
        node = next(s["node"] for s in node["subs"] if s["name"] == name)
        merge(node.get("attrs"))
    return {k: (v["call"] if isinstance(v, dict) else str(v)) for k, v in acc.items()}
