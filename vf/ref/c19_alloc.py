"""C19 reference: a boring resource allocator, connector-chain resolution and constraint-file parsers.

Plain Python over the json-able *table spec* produced by vf/gen/c19_tables.py; nothing here imports amaranth.

Table spec
    {"connectors": [{"name", "number", "io": "A2 - A0" | {"p": "3"}, "conn": None | [name, number]}, ...],
     "resources":  [{"name", "number", "node": NODE}, ...]}
    NODE = {"kind": "pins", "names": [...], "conn": None|[name, number], "dir", "invert", "clock_mhz", "attrs"}
           (clock_mhz: None | MHz number | {"hz"|"khz"|"ns"|"ps"|"us": value}, see clock_hz)
         | {"kind": "diff", "p": [...], "n": [...], "conn", "dir", "invert", "clock_mhz", "attrs"}
         | {"kind": "group", "subs": [{"name": str, "node": NODE}, ...], "attrs"}
An action is {"name", "number", "dir", "xdr"}; dir/xdr are None | str/int | (nested) dict, exactly the arguments
given to Platform.request().
"""
import re

GRANT, REFUSE_RE, REFUSE_ANY, EITHER = "GRANT", "REFUSE_ResourceError", "REFUSE_any", "EITHER"
DIRS = ("i", "o", "oe", "io")


# ------------------------------------------------------------------ connector chains
def connector_map(table):
    """{'<conn>_<number>:<conn pin>': platform pin or pin of another connector}"""
    mp = {}
    for c in table.get("connectors", []):
        if isinstance(c["io"], str):
            pairs = [(str(i), tok) for i, tok in enumerate(c["io"].split(), start=1) if tok != "-"]
        else:
            pairs = list(c["io"].items())
        for cpin, target in pairs:
            if c.get("conn"):
                target = f"{c['conn'][0]}_{c['conn'][1]}:{target}"
            mp[f"{c['name']}_{c['number']}:{cpin}"] = target
    return mp


def resolve_name(name, cmap):
    """follow connector-relative names until a physical pin is reached; None if the chain dangles"""
    hops = 0
    while ":" in name:
        if name not in cmap or hops > 16:
            return None
        name = cmap[name]
        hops += 1
    return name


def full_names(names, conn):
    if conn:
        return [f"{conn[0]}_{conn[1]}:{n}" for n in names]
    return list(names)


def leaves(node, path=()):
    """declared order, depth first: [(path of subsignal names, leaf node)]"""
    if node["kind"] == "group":
        out = []
        for s in node["subs"]:
            out += leaves(s["node"], path + (s["name"],))
        return out
    return [(path, node)]


def leaf_pins(leaf, cmap):
    """-> dict(io=[...]) or dict(p=[...], n=[...]) of physical names (None where the chain dangles)"""
    if leaf["kind"] == "pins":
        return {"io": [resolve_name(n, cmap) for n in full_names(leaf["names"], leaf.get("conn"))]}
    return {"p": [resolve_name(n, cmap) for n in full_names(leaf["p"], leaf.get("conn"))],
            "n": [resolve_name(n, cmap) for n in full_names(leaf["n"], leaf.get("conn"))]}


# ------------------------------------------------------------------ option merging (dir / xdr overrides)
def merge(node, d, x, path=()):
    """-> list of (path, leaf, eff_dir, eff_xdr, status) with status in ok | illegal | either"""
    if node["kind"] == "group":
        if d is None:
            dd, dash = {}, False
        elif d == "-":
            dd, dash = {}, True
        elif isinstance(d, dict):
            dd, dash = d, False
        else:
            return [(path, None, d, x, "illegal")]
        if x is None:
            xx = {}
        elif isinstance(x, dict):
            xx = x
        else:
            return [(path, None, d, x, "illegal")]
        out = []
        for s in node["subs"]:
            out += merge(s["node"], "-" if dash else dd.get(s["name"]), xx.get(s["name"]), path + (s["name"],))
        return out
    eff_d = node["dir"] if d is None else d
    eff_x = 0 if x is None else x
    status = "ok"
    if not isinstance(eff_d, str) or eff_d not in DIRS + ("-",):
        status = "illegal"
    elif eff_d != node["dir"] and not (node["dir"] == "io" or eff_d == "-"):
        status = "illegal"                 # only io -> i/o/oe and anything -> "-" may be overridden
    elif isinstance(eff_x, bool) or not isinstance(eff_x, int) or eff_x < 0:
        status = "illegal"
    elif eff_x > 2:
        status = "either"                  # data rates above 2 are platform specific: either outcome is fine
    return [(path, node, eff_d, eff_x, status)]


class RefAlloc:
    """granted set + pin -> owner map; a refused request never changes either"""
    def __init__(self, table, static=None):
        self.cmap, self.res, self.pins = static if static is not None else self.prepare(table)
        self.granted = set()
        self.owner = {}

    @staticmethod
    def prepare(table):
        """the immutable part (connector map, resources by key, resolved pins per resource); shareable between runs"""
        cmap = connector_map(table)
        res = {(r["name"], r["number"]): r for r in table["resources"]}
        pins = {}
        for k, r in res.items():
            lst = []
            for _path, leaf in leaves(r["node"]):
                for half in leaf_pins(leaf, cmap).values():
                    lst += half
            pins[k] = lst
        return cmap, res, pins

    def key(self):
        return (frozenset(self.granted), frozenset(self.owner.items()))

    def expect(self, action):
        """-> (verdict, why, merged leaves)"""
        k = (action["name"], action["number"])
        if k not in self.res:
            return REFUSE_ANY, "no such resource", []
        merged = merge(self.res[k]["node"], action.get("dir"), action.get("xdr"))
        illegal = any(m[4] == "illegal" for m in merged)
        either = any(m[4] == "either" for m in merged)
        dangling = any(p is None for p in self.pins[k])
        pins = [p for p in self.pins[k] if p is not None]
        if k in self.granted:
            return (REFUSE_ANY if illegal or dangling else REFUSE_RE), "already requested", merged
        clash = sorted(p for p in pins if p in self.owner)
        if clash:
            why = "pin %s held by %s_%d" % (clash[0], *self.owner[clash[0]])
            return (REFUSE_ANY if illegal or either or dangling else REFUSE_RE), why, merged
        if illegal:
            return REFUSE_ANY, "illegal dir/xdr override", merged
        if dangling:
            return REFUSE_ANY, "connector pin does not exist", merged
        if either:
            return EITHER, "xdr > 2", merged
        return GRANT, "free", merged

    def commit(self, action):
        k = (action["name"], action["number"])
        self.granted.add(k)
        for p in self.pins[k]:
            self.owner[p] = k


def verdict_ok(verdict, got_ok, got_is_resource_error):
    if verdict == GRANT:
        return got_ok
    if verdict == REFUSE_RE:
        return (not got_ok) and got_is_resource_error
    if verdict == REFUSE_ANY:
        return not got_ok
    return True


def clock_hz(spec):
    """declared clock -> frequency in Hz. spec: number (MHz) | {"hz": f} | {"khz": f} | {"ns": t} | {"ps": t}"""
    if isinstance(spec, dict):
        (unit, v), = spec.items()
        return {"hz": lambda: v, "khz": lambda: v * 1e3, "mhz": lambda: v * 1e6,
                "ns": lambda: 1e9 / v, "ps": lambda: 1e12 / v, "us": lambda: 1e6 / v}[unit]()
    return spec * 1e6


PORT_DIR = {"i": "i", "o": "o", "oe": "o", "io": "io"}      # declared pin direction -> I/O port direction value


# ------------------------------------------------------------------ constraint files
class ParseError(Exception):
    pass


def parse_pcf(text):
    loc, freq = [], []
    for line in text.splitlines():
        line = line.split("#", 1)[0].strip()
        if not line:
            continue
        w = line.split()
        if w[0] == "set_io" and len(w) == 3:
            loc.append((w[1], w[2]))
        elif w[0] == "set_frequency" and len(w) == 3:
            freq.append((w[1], float(w[2]) * 1e6))
        else:
            raise ParseError(line)
    return loc, freq


def parse_lpf(text):
    loc, freq = [], []
    body = "\n".join(l.split("#", 1)[0] for l in text.splitlines())
    for stmt in body.split(";"):
        stmt = " ".join(stmt.split())
        if not stmt:
            continue
        m = re.fullmatch(r'LOCATE COMP "([^"]*)" SITE "([^"]*)"', stmt)
        if m:
            loc.append((m.group(1), m.group(2)))
            continue
        m = re.fullmatch(r'FREQUENCY (PORT|NET) "([^"]*)" ([0-9.eE+-]+) HZ', stmt)
        if m:
            freq.append((m.group(2), float(m.group(3))))
            continue
        if re.fullmatch(r'IOBUF PORT "([^"]*)"( \S+=\S*)*', stmt) or re.fullmatch(r"BLOCK \w+", stmt):
            continue
        raise ParseError(stmt)
    return loc, freq


def parse_cst(text):
    loc = []
    body = "\n".join(l.split("//", 1)[0] for l in text.splitlines())
    for stmt in body.split(";"):
        stmt = " ".join(stmt.split())
        if not stmt:
            continue
        m = re.fullmatch(r'IO_LOC "([^"]*)" (\S+)', stmt)
        if m:
            loc.append((m.group(1), m.group(2)))
            continue
        if re.fullmatch(r'IO_PORT "([^"]*)" \S+=\S*', stmt):
            continue
        raise ParseError(stmt)
    return loc, None          # the Apicula flow has no timing-constraint file


def parse_top_ports(rtlil, top="top"):
    """[(name, width)] of the ports of the top module of an RTLIL text"""
    m = re.search(r"^module \\%s\s*$" % re.escape(top), rtlil, re.M)
    if not m:
        raise ParseError("no top module")
    body = rtlil[m.end():]
    body = body[:re.search(r"^end\s*$", body, re.M).start()]
    ports = []
    for line in body.splitlines():
        mm = re.match(r"\s*wire\s+(.*?)\\(\S+)\s*$", line)
        if not mm:
            continue
        opts = mm.group(1).split()
        if not any(o in ("input", "output", "inout") for o in opts):
            continue
        width = int(opts[opts.index("width") + 1]) if "width" in opts else 1
        ports.append((mm.group(2), width))
    return ports


def bit_names(name, width):
    return [name] if width == 1 else [f"{name}[{i}]" for i in range(width)]
