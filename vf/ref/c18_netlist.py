"""C18 helper: a tiny evaluator for the fine netlist (amaranth.hdl._nir) restricted to the cells an I/O buffer
design may contain (top, bitwise operators, mux, flip-flop, iob), and a scanner/interpreter for the RTLIL text
of the same designs ($xor/$not/$and/$or/$mux/$pos/$tribuf/$dff, sub-module cells, connects).

Both only *observe* what amaranth produced; the expected values come from vf.ref.c18_ref.
"""
import re


class Unsupported(Exception):
    pass


# ------------------------------------------------------------------------------------------- vendor cells
# Opaque per-bit boxes. Pad cells: `din` data towards the pad, `dout` data from the pad (a free variable of
# the evaluation), `en` (name, active level), `pad` I/O ports of the true half, `padn` of the complement half.
# The first name that the cell instance actually has is used. Names as in amaranth/vendor/*.py.
def _pad(din=(), dout=(), en=(), pad=(), padn=()):
    return {"role": "pad", "din": din, "dout": dout, "en": en, "pad": pad, "padn": padn}


VENDOR_CELLS = {
    "SB_IO": _pad(("D_OUT_0",), ("D_IN_0",), (("OUTPUT_ENABLE", 1),), ("PACKAGE_PIN",)),
    "SB_GB_IO": _pad(("D_OUT_0",), ("GLOBAL_BUFFER_OUTPUT", "D_IN_0"), (("OUTPUT_ENABLE", 1),), ("PACKAGE_PIN",)),
    "IB": _pad(dout=("O",), pad=("I",)),
    "OBZ": _pad(("I",), (), (("T", 0),), ("O",)),
    "BB": _pad(("I",), ("O",), (("T", 0),), ("B",)),
    "IBUF": _pad(dout=("O",), pad=("I",)),
    "OBUFT": _pad(("I",), (), (("T", 0),), ("O",)),
    "TBUF": _pad(("I",), (), (("OEN", 0),), ("O",)),
    "IOBUF": _pad(("I",), ("O",), (("T", 0), ("OEN", 0)), ("IO",)),
    "IBUFDS": _pad(dout=("O",), pad=("I",), padn=("IB",)),
    "OBUFTDS": _pad(("I",), (), (("T", 0),), ("O",), ("OB",)),
    "IOBUFDS": _pad(("I",), ("O",), (("T", 0),), ("IO",), ("IOB",)),
    "TLVDS_IBUF": _pad(dout=("O",), pad=("I",), padn=("IB",)),
    "TLVDS_TBUF": _pad(("I",), (), (("OEN", 0),), ("O",), ("OB",)),
    "TLVDS_IOBUF": _pad(("I",), ("O",), (("OEN", 0),), ("IO",), ("IOB",)),
    "altiobuf_in": _pad(dout=("dataout",), pad=("datain",), padn=("datain_b",)),
    "altiobuf_out": _pad(("datain",), (), (("oe", 1),), ("dataout",), ("dataout_b",)),
    "altiobuf_bidir": _pad(("datain",), ("dataout",), (("oe", 1),), ("dataio",), ("dataio_b",)),
    # registers / LUTs between the fabric and the pad cell: transparent D -> Q boxes, LUT4 by its INIT parameter
    "SB_DFF": {"role": "pass", "d": "D", "q": "Q"},
    "FDCE": {"role": "pass", "d": "D", "q": "Q"},
    "IFS1P3DX": {"role": "pass", "d": "D", "q": "Q"},
    "OFS1P3DX": {"role": "pass", "d": "D", "q": "Q"},
    "IFD1P3DX": {"role": "pass", "d": "D", "q": "Q"},
    "OFD1P3DX": {"role": "pass", "d": "D", "q": "Q"},
    "SB_LUT4": {"role": "lut4", "q": "O"},
}


def _first(names, have):
    for n in names:
        key = n[0] if isinstance(n, tuple) else n
        if key in have:
            return n
    return None


# ------------------------------------------------------------------------------------------- NIR
class NirEval:
    def __init__(self, nl, vendor=False):
        self.vendor = vendor
        self.vfree = {}          # (cell index, output bit) -> value of an opaque pad cell output
        from amaranth.hdl import _nir
        self._nir = _nir
        self.nl = nl
        self.iobs = [(i, c) for i, c in enumerate(nl.cells) if isinstance(c, _nir.IOBuffer)]
        self.ffs = [(i, c) for i, c in enumerate(nl.cells) if isinstance(c, _nir.FlipFlop)]
        self.ff_state = {i: c.init for i, c in self.ffs}
        for i, c in enumerate(nl.cells):
            if vendor and isinstance(c, _nir.Instance):
                if c.type not in VENDOR_CELLS:
                    raise Unsupported(f"vendor cell type {c.type} is not in the table")
                continue
            if not isinstance(c, (_nir.Top, _nir.Operator, _nir.IOBuffer, _nir.FlipFlop, _nir.Match, _nir.AssignmentList)):
                raise Unsupported(f"unexpected cell {c!r} in an I/O buffer netlist")
        self.env = {}
        self.ext = {}

    def uses(self):
        """{(port index, bit): [(cell index, dir name)]}"""
        out = {}
        for i, c in self.iobs:
            for net in c.port:
                out.setdefault((net.port, net.bit), []).append((i, c.dir.value))
        return out

    def sig_nets(self, sig):
        return self.nl.signals[sig]

    def set_signal(self, sig, value):
        for j, net in enumerate(self.nl.signals[sig]):
            self.env[int(net)] = (value >> j) & 1

    def set_pad(self, port_idx, bit, value):
        self.ext[(port_idx, bit)] = value

    def net(self, net, memo):
        n = int(net)
        if n in (0, 1):
            return n
        if n in memo:
            return memo[n]
        _nir = self._nir
        ci, bit = n >> 16, n & 0xffff
        cell = self.nl.cells[ci]
        if isinstance(cell, _nir.Top):
            v = self.env[n]
        elif isinstance(cell, _nir.FlipFlop):
            # vendor leg: registers are transparent, only the wiring around them is judged
            v = self.net(cell.data[bit], memo) if self.vendor else (self.ff_state[ci] >> bit) & 1
        elif self.vendor and isinstance(cell, _nir.Instance):
            spec = VENDOR_CELLS[cell.type]
            oname, k = None, None
            for name, (start, width) in cell.ports_o.items():
                if start <= bit < start + width:
                    oname, k = name, bit - start
            if spec["role"] == "pad":
                v = self.vfree.get((ci, bit), 0)
            elif spec["role"] == "pass" and oname == spec["q"]:
                v = self.net(cell.ports_i[spec["d"]][k], memo)
            elif spec["role"] == "lut4" and oname == spec["q"]:
                idx = sum(self.net(cell.ports_i[f"I{x}"][0], memo) << x for x in range(4))
                v = (cell.parameters["LUT_INIT"].value >> idx) & 1
            else:
                raise Unsupported(f"output {oname} of vendor cell {cell.type}")
        elif isinstance(cell, _nir.IOBuffer):
            io = cell.port[bit]
            v = self.pad_value((io.port, io.bit), memo)
        elif isinstance(cell, _nir.Operator):
            v = self.operator(cell, bit, memo)
        elif isinstance(cell, _nir.Match):
            # one-hot: the first pattern set matching `value`, nothing while `en` is 0 (patterns are MSB first)
            v = 0
            if self.net(cell.en, memo):
                val = [self.net(x, memo) for x in cell.value]
                for k, pats in enumerate(cell.patterns):
                    if any(all(ch == "-" or int(ch) == val[len(pat) - 1 - j] for j, ch in enumerate(pat)) for pat in pats):
                        v = 1 if k == bit else 0
                        break
        elif isinstance(cell, _nir.AssignmentList):
            src = cell.default[bit]
            for a in cell.assignments:
                if a.start <= bit < a.start + len(a.value) and self.net(a.cond, memo):
                    src = a.value[bit - a.start]
            v = self.net(src, memo)
        else:
            raise Unsupported(repr(cell))
        memo[n] = v
        return v

    def operator(self, cell, bit, memo):
        op, ins = cell.operator, cell.inputs
        g = lambda k: self.net(ins[k][bit], memo)
        if op == "~":
            return 1 - g(0)
        if op == "^":
            return g(0) ^ g(1)
        if op == "&":
            return g(0) & g(1)
        if op == "|":
            return g(0) | g(1)
        if op == "m":
            return self.net(ins[1][bit], memo) if self.net(ins[0][0], memo) else self.net(ins[2][bit], memo)
        raise Unsupported(f"operator {op}")

    def vendor_pads(self):
        """[(cell index, cell, spec, {(io port index, bit): (role 'pad'|'padn', channel)})] of every pad cell"""
        out = []
        for ci, c in enumerate(self.nl.cells):
            if isinstance(c, self._nir.Instance) and VENDOR_CELLS[c.type]["role"] == "pad":
                spec = VENDOR_CELLS[c.type]
                touch = {}
                for name, (value, _dir) in c.ports_io.items():
                    role = "pad" if name in spec["pad"] else "padn" if name in spec["padn"] else None
                    if role is None:
                        raise Unsupported(f"I/O port {name} of vendor cell {c.type} is not in the table")
                    for k, io in enumerate(value):
                        touch[(io.port, io.bit)] = (role, k)
                out.append((ci, c, spec, touch))
        return out

    def vendor_pins(self, ci, c, spec, k, memo):
        """-> (din value | None, enable (active high) | None, key of the free dout variable | None) of channel k"""
        din = _first(spec["din"], c.ports_i)
        en = _first(spec["en"], c.ports_i)
        dout = _first(spec["dout"], c.ports_o)
        dv = self.net(c.ports_i[din][k], memo) if din else None
        ev = None
        if en:
            raw = self.net(c.ports_i[en[0]][k], memo)
            ev = raw if en[1] else 1 - raw
        return dv, ev, ((ci, c.ports_o[dout][0] + k) if dout else None)

    def drivers(self, memo):
        """{(port, bit): [(value, enable)]} for every output / inout buffer cell"""
        out = {}
        for i, c in self.iobs:
            if c.dir.value == "input":
                continue
            en = self.net(c.oe, memo)
            for k, io in enumerate(c.port):
                out.setdefault((io.port, io.bit), []).append((self.net(c.o[k], memo), en))
        return out

    def pad_value(self, key, memo):
        for i, c in self.iobs:
            if c.dir.value == "input":
                continue
            for k, io in enumerate(c.port):
                if (io.port, io.bit) == key and self.net(c.oe, memo):
                    return self.net(c.o[k], memo)
        return self.ext.get(key, 0)

    def value(self, nets, memo=None):
        memo = {} if memo is None else memo
        v = 0
        for j, n in enumerate(nets):
            v |= self.net(n, memo) << j
        return v

    def get_state(self):
        return tuple(sorted(self.ff_state.items()))

    def set_state(self, st):
        self.ff_state = dict(st)

    def tick(self, clk_sig):
        """active edge of every flip-flop clocked by clk_sig (posedge flops only)"""
        clk = [int(n) for n in self.nl.signals[clk_sig]]
        memo = {}
        new = {}
        for i, c in self.ffs:
            if int(c.clk) in clk:
                if c.clk_edge != "pos" or int(c.arst) != 0:
                    raise Unsupported("flip-flop flavour")
                new[i] = self.value(c.data, memo)
        self.ff_state.update(new)
        return len(new)


# ------------------------------------------------------------------------------------------- RTLIL
_TOK = re.compile(r"\s*(\{|\}|\[[0-9:]+\]|[0-9]+'[01xz-]*|\\[^\s]+|\$[^\s]+|-?[0-9]+|\"(?:[^\"\\]|\\.)*\")")


def _tokens(s):
    out, pos = [], 0
    s = s.strip()
    while pos < len(s):
        m = _TOK.match(s, pos)
        if not m:
            raise Unsupported(f"cannot tokenise RTLIL sigspec {s!r}")
        out.append(m.group(1))
        pos = m.end()
    return out


class RModule:
    def __init__(self, name):
        self.name = name
        self.wires = {}       # name -> (width, port kind or None)
        self.cells = []       # (type, name, params, conns)
        self.connects = []    # (lhs bits, rhs bits)
        self.procs = []       # (name, body); body = [("assign", lhs, rhs) | ("switch", sig, [(patterns, body)])]


def _sigspec(toks, i, wires):
    """-> (list of bits, next index); a bit is ("c", 0|1) or ("w", wire name, index). LSB first."""
    t = toks[i]
    if t == "{":
        i += 1
        parts = []
        while toks[i] != "}":
            bits, i = _sigspec(toks, i, wires)
            parts.append(bits)
        i += 1
        out = []
        for p in reversed(parts):     # RTLIL concatenation lists the most significant part first
            out += p
        bits = out
    elif t[0] in "\\$":
        if t not in wires:
            raise Unsupported(f"reference to an undeclared wire {t}")
        w = wires[t][0]
        bits = [("w", t, k) for k in range(w)]
        i += 1
    elif "'" in t:
        n, body = t.split("'")
        bits = [("c", 1 if ch == "1" else 0) for ch in reversed(body)]
        assert len(bits) == int(n)
        i += 1
    else:
        v = int(t)
        bits = [("c", (v >> k) & 1) for k in range(32)]
        i += 1
    while i < len(toks) and toks[i].startswith("["):
        sel = toks[i][1:-1]
        if ":" in sel:
            hi, lo = (int(x) for x in sel.split(":"))
            if not (0 <= lo <= hi < len(bits)):
                raise Unsupported(f"slice [{sel}] runs past the end of a {len(bits)}-bit value ({t})")
            bits = bits[lo:hi + 1]
        else:
            if not (0 <= int(sel) < len(bits)):
                raise Unsupported(f"bit [{sel}] is outside a {len(bits)}-bit value ({t})")
            bits = [bits[int(sel)]]
        i += 1
    return bits, i


def _parse_proc_body(lines, i, wires):
    """statements up to the `end` / `case` that closes the enclosing construct -> (body, next index)"""
    body = []
    while i < len(lines):
        line = lines[i]
        if line == "end" or line.startswith("case"):
            return body, i
        if line.startswith("assign "):
            toks = _tokens(line[len("assign "):])
            lhs, k = _sigspec(toks, 0, wires)
            rhs, k = _sigspec(toks, k, wires)
            if k != len(toks) or len(lhs) != len(rhs):
                raise Unsupported(f"malformed process assignment {line!r}")
            body.append(("assign", lhs, rhs))
            i += 1
        elif line.startswith("switch "):
            sig, _k = _sigspec(_tokens(line[len("switch "):]), 0, wires)
            i += 1
            cases = []
            while lines[i].startswith("case"):
                pats = [p.strip() for p in lines[i][len("case"):].split(",") if p.strip()]
                pats = [p.split("'")[1] for p in pats]
                if any(len(p) != len(sig) for p in pats):
                    raise Unsupported(f"case pattern width differs from the switch value in {lines[i]!r}")
                sub, i = _parse_proc_body(lines, i + 1, wires)
                cases.append((pats, sub))
            if lines[i] != "end":
                raise Unsupported(f"unexpected {lines[i]!r} in a switch")
            i += 1
            body.append(("switch", sig, cases))
        else:
            raise Unsupported(f"RTLIL process line {line!r}")
    raise Unsupported("unterminated process")


def parse_rtlil(text):
    mods, cur, cell = {}, None, None
    pending = []
    proc, depth = None, 0
    for raw in text.splitlines():
        line = raw.strip()
        if not line or line.startswith("attribute") or line.startswith("#"):
            continue
        if proc is not None:                     # inside `process ... end`: collect, parse at the module end
            if line.startswith("switch "):
                depth += 1
            if line == "end":
                if depth == 0:
                    cur.procs.append(proc)
                    proc = None
                    continue
                depth -= 1
            proc[1].append(line)
            continue
        if line.startswith("process "):
            proc, depth = [line.split()[1], []], 0
            continue
        if line.startswith("module "):
            cur = RModule(line.split()[1])
            mods[cur.name] = cur
            pending = []
            continue
        if line == "end":
            if cell is not None:
                cur.cells.append(cell)
                cell = None
            else:
                for rest in pending:
                    ta = _tokens(rest)
                    lhs, i = _sigspec(ta, 0, cur.wires)
                    rhs, i = _sigspec(ta, i, cur.wires)
                    cur.connects.append((lhs, rhs))
                procs = []
                for name, lines in cur.procs:
                    body, k = _parse_proc_body(lines + ["end"], 0, cur.wires)
                    procs.append((name, body))
                cur.procs = procs
                cur = None
            continue
        if line.startswith("wire "):
            toks = line.split()
            name = toks[-1]
            width, kind = 1, None
            k = 1
            while k < len(toks) - 1:
                if toks[k] == "width":
                    width = int(toks[k + 1]); k += 2
                elif toks[k] in ("input", "output", "inout"):
                    kind = toks[k]; k += 2
                else:
                    k += 1
            cur.wires[name] = (width, kind)
            continue
        if line.startswith("cell "):
            _c, typ, name = line.split()
            cell = [typ, name, {}, {}]
            continue
        if line.startswith("parameter "):
            toks = line.split(None, 2)
            cell[2][toks[1]] = toks[2]
            continue
        if line.startswith("connect "):
            rest = line[len("connect "):]
            if cell is not None:
                port, spec = rest.split(None, 1)
                cell[3][port] = spec      # resolved lazily: wires may be declared later
            else:
                pending.append(rest)          # resolved at the end of the module
            continue
        raise Unsupported(f"RTLIL line {line!r}")
    # resolve cell connections
    for m in mods.values():
        cells = []
        for typ, name, params, conns in m.cells:
            rc = {}
            for port, spec in conns.items():
                bits, i = _sigspec(_tokens(spec), 0, m.wires)
                rc[port] = bits
            cells.append((typ, name, params, rc))
        m.cells = cells
    return mods


class RtlilEval:
    """Hierarchical evaluator. A wire bit is keyed (instance path, wire name, index). inout port connections
    alias the child bit with the parent bit (union-find); every net then has at most one driver: a cell
    output, a module-level connect, a port connection, a flip-flop, or a $tribuf (which falls back to the
    externally applied value while disabled). Undriven nets take the externally applied value (`ext`)."""
    def __init__(self, mods, top):
        self.mods = mods
        self.top = top
        self.parent = {}
        self.raw = []         # (key, driver)
        self.tribufs = []     # (path, cell name, Y keys, A bits, EN bit)
        self.dffs = []        # (path, name, D bits, CLK bit, polarity)
        self.vcells = []      # vendor cells: (path, name, type, spec, params, conns)
        self.vfree = {}       # (path, name, channel) -> value of an opaque pad cell output
        self.transparent_ff = False
        self.state = {}
        self.ext = {}
        self._build((), mods[top])
        self.driver = {}
        for key, d in self.raw:
            k = self.find(key)
            if k in self.driver:
                raise Unsupported(f"two drivers for {key}")
            self.driver[k] = d

    # union-find over keys
    def find(self, k):
        p = self.parent
        while k in p:
            k = p[k]
        return k

    def union(self, a, b):
        ra, rb = self.find(a), self.find(b)
        if ra != rb:
            # keep the outermost (shortest path) key as the representative
            if len(ra[0]) <= len(rb[0]):
                self.parent[rb] = ra
            else:
                self.parent[ra] = rb

    @staticmethod
    def key(path, bit):
        return (path, bit[1], bit[2])

    def _build(self, path, m):
        for lhs, rhs in m.connects:
            if len(lhs) != len(rhs):
                raise Unsupported("connect width mismatch")
            for l, r in zip(lhs, rhs):
                self.raw.append((self.key(path, l), ("bit", path, r)))
        for name, body in m.procs:
            lhs = []

            def collect(b):
                for st in b:
                    if st[0] == "assign":
                        lhs.extend(x for x in st[1] if x[0] == "w")
                    else:
                        for _p, sub in st[2]:
                            collect(sub)
            collect(body)
            for b in dict.fromkeys(lhs):
                self.raw.append((self.key(path, b), ("proc", path, name, body, b)))
        for typ, name, params, conns in m.cells:
            if typ in self.mods:
                sub = self.mods[typ]
                spath = path + (name,)
                for port, bits in conns.items():
                    width, kind = sub.wires[port]
                    if len(bits) != width:
                        raise Unsupported("port width mismatch")
                    for k, b in enumerate(bits):
                        if kind == "input":
                            self.raw.append(((spath, port, k), ("bit", path, b, "hier")))
                        elif kind == "output":
                            self.raw.append((self.key(path, b), ("bit", spath, ("w", port, k), "hier")))
                        elif kind == "inout":
                            self.union((spath, port, k), self.key(path, b))
                        else:
                            raise Unsupported("connection to a non-port wire")
                self._build(spath, sub)
            elif typ == "$tribuf":
                ys = [self.key(path, b) for b in conns["\\Y"]]
                self.tribufs.append((path, name, ys, conns["\\A"], conns["\\EN"][0]))
                for k, y in enumerate(ys):
                    self.raw.append((y, ("tri", path, conns["\\A"][k], conns["\\EN"][0])))
            elif typ == "$dff":
                pol = int(params["\\CLK_POLARITY"].split("'")[-1], 2) if "'" in params["\\CLK_POLARITY"] \
                    else int(params["\\CLK_POLARITY"])
                self.dffs.append((path, name, conns["\\D"], conns["\\CLK"][0], pol))
                for k, b in enumerate(conns["\\Q"]):
                    self.raw.append((self.key(path, b), ("ff", (path, name), k)))
                self.state[(path, name)] = 0
            elif typ in ("$xor", "$and", "$or", "$not", "$pos", "$mux"):
                for k, b in enumerate(conns["\\Y"]):
                    self.raw.append((self.key(path, b), ("op", typ, path, conns, k)))
            elif typ.startswith("\\") and typ[1:] in VENDOR_CELLS:
                spec = VENDOR_CELLS[typ[1:]]
                cn = {k[1:]: v for k, v in conns.items()}
                self.vcells.append((path, name, typ[1:], spec, params, cn))
                if spec["role"] == "pad":
                    dout = _first(spec["dout"], cn)
                    for k, b in enumerate(cn[dout] if dout else []):
                        self.raw.append((self.key(path, b), ("vfree", (path, name, k))))
                else:
                    for k, b in enumerate(cn[spec["q"]]):
                        self.raw.append((self.key(path, b), ("vbox", path, typ[1:], spec, params, cn, k)))
            else:
                raise Unsupported(f"RTLIL cell {typ}")

    def set_top(self, wire, value):
        if wire not in self.mods[self.top].wires:
            return          # zero-width ports are not emitted
        for k in range(self.mods[self.top].wires[wire][0]):
            self.ext[self.find(((), wire, k))] = (value >> k) & 1

    def bit(self, path, b, memo):
        if b[0] == "c":
            return b[1]
        return self.keyval(self.find(self.key(path, b)), memo)

    def keyval(self, key, memo):
        if key in memo:
            return memo[key]
        d = self.driver.get(key)
        if d is None:
            v = self.ext.get(key, 0)
        elif d[0] == "bit":
            v = self.bit(d[1], d[2], memo)
        elif d[0] == "tri":
            v = self.bit(d[1], d[2], memo) if self.bit(d[1], d[3], memo) else self.ext.get(key, 0)
        elif d[0] == "ff":
            if self.transparent_ff:
                dff = next(x for x in self.dffs if (x[0], x[1]) == d[1])
                v = self.bit(dff[0], dff[2][d[2]], memo)
            else:
                v = (self.state[d[1]] >> d[2]) & 1
        elif d[0] == "vfree":
            v = self.vfree.get(d[1], 0)
        elif d[0] == "vbox":
            _v, path, typ, spec, params, cn, k = d
            if spec["role"] == "pass":
                v = self.bit(path, cn[spec["d"]][k], memo)
            else:
                idx = sum(self.bit(path, cn[f"I{x}"][0], memo) << x for x in range(4))
                init = params["\\LUT_INIT"]
                v = (int(init.split("'")[1], 2) >> idx) & 1
        elif d[0] == "proc":
            _p, path, name, body, b = d
            pk = ("proc", path, name)
            if pk not in memo:
                memo[pk] = None            # a process reading its own output would loop
                env = {}
                self._run(path, body, env, memo)
                memo[pk] = env
            if memo[pk] is None or b not in memo[pk]:
                raise Unsupported(f"process {name} does not assign {b} on this path")
            v = memo[pk][b]
        else:
            _o, typ, p, conns, k = d
            a = lambda port: self.bit(p, conns[port][k], memo)
            if typ == "$xor":
                v = a("\\A") ^ a("\\B")
            elif typ == "$and":
                v = a("\\A") & a("\\B")
            elif typ == "$or":
                v = a("\\A") | a("\\B")
            elif typ == "$not":
                v = 1 - a("\\A")
            elif typ == "$pos":
                v = a("\\A")
            else:
                v = a("\\B") if self.bit(p, conns["\\S"][0], memo) else a("\\A")
        memo[key] = v
        return v

    def _run(self, path, body, env, memo):
        for st in body:
            if st[0] == "assign":
                vals = [self.bit(path, r, memo) for r in st[2]]
                for l, v in zip(st[1], vals):
                    env[l] = v
            else:
                val = [self.bit(path, x, memo) for x in st[1]]
                for pats, sub in st[2]:
                    if not pats or any(all(ch == "-" or int(ch) == val[len(p) - 1 - j] for j, ch in enumerate(p)) for p in pats):
                        self._run(path, sub, env, memo)
                        break

    def get_state(self):
        return tuple(sorted(self.state.items()))

    def set_state(self, st):
        self.state = dict(st)

    def top_value(self, wire, memo=None):
        memo = {} if memo is None else memo
        if wire not in self.mods[self.top].wires:
            return 0
        return sum(self.keyval(self.find(((), wire, k)), memo) << k for k in range(self.mods[self.top].wires[wire][0]))

    def terminal(self, key):
        """follow plain wire-to-wire connections from a bit to the bit that finally stands for it"""
        key = self.find(key)
        while True:
            d = self.driver.get(key)
            if d is not None and d[0] == "bit" and d[2][0] == "w":
                key = self.find(self.key(d[1], d[2]))
                continue
            return key

    def vendor_pads(self):
        """[(cell id, type, spec, conns, path, {terminal key of a pad bit: (role, channel)})]"""
        out = []
        for path, name, typ, spec, params, cn in self.vcells:
            if spec["role"] != "pad":
                continue
            touch = {}
            for pname in spec["pad"] + spec["padn"]:
                if pname in cn:
                    for k, b in enumerate(cn[pname]):
                        if b[0] != "w":
                            raise Unsupported(f"pad port {pname} of {typ} is tied to a constant")
                        touch[self.terminal(self.key(path, b))] = ("pad" if pname in spec["pad"] else "padn", k)
            out.append(((path, name), typ, spec, cn, path, touch))
        return out

    def vendor_pins(self, cid, spec, cn, path, k, memo):
        din, en, dout = _first(spec["din"], cn), _first(spec["en"], cn), _first(spec["dout"], cn)
        dv = self.bit(path, cn[din][k], memo) if din else None
        ev = None
        if en:
            raw = self.bit(path, cn[en[0]][k], memo)
            ev = raw if en[1] else 1 - raw
        return dv, ev, ((cid[0], cid[1], k) if dout else None)

    def pad_drivers(self, wire, k, memo):
        """[(value, enable)] of everything that drives top-level wire bit (wire, k): every $tribuf bit reaching it
        through the hierarchy, or -- a plain `connect` / cell output on the port wire -- an unconditional driver"""
        key = self.find(((), wire, k))
        while True:
            d = self.driver.get(key)
            if d is not None and d[0] == "bit" and d[2][0] == "w" and len(d) > 3:      # port connection: go down
                key = self.find(self.key(d[1], d[2]))
                continue
            break
        out = []
        for path, name, ys, a, en in self.tribufs:
            for j, y in enumerate(ys):
                if self.find(y) == key:
                    out.append((self.bit(path, a[j], memo), self.bit(path, en, memo)))
        d = self.driver.get(key)
        if d is not None and d[0] != "tri":
            out.append((self.keyval(key, memo), 1))
        return out

    def tick(self, clk_wire):
        clk_root = self.find(((), clk_wire, 0))
        memo, new = {}, {}
        for path, name, d, clk, pol in self.dffs:
            key = self.find(self.key(path, clk))
            while True:
                dr = self.driver.get(key)
                if dr is not None and dr[0] == "bit" and dr[2][0] == "w":
                    key = self.find(self.key(dr[1], dr[2]))
                    continue
                break
            if key == clk_root:
                if pol != 1:
                    raise Unsupported("negedge $dff")
                new[(path, name)] = sum(self.bit(path, b, memo) << k for k, b in enumerate(d))
        self.state.update(new)
        return len(new)
