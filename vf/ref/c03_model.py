"""Register-level reference model for C03, written from the property statement and docs/guide.rst (sections
lang-sync, lang-clockdomains, lang-controlinserter, lang-domainrenamer).  Plain ints; no amaranth import.

The modelled design (built for real in vf/props/c03.py):
  core module : cnt  (2 bit, +1 every active edge, domain sync)      rl[0] (reset_less, toggles, sync)
                (rl is a reset_less 2-bit signal, init 0b11, of which only bit 0 is ever assigned)
                rw <= ~rl[0]  (a fully driven reset_less signal, sync)
                sp[0] (bit 0 of the shared signal sp, toggles, sync)
                [cntb (2 bit, +1, domain other)  rlb (1 bit, reset_less, toggles, other)       if logic_b: this ONE module
                 sq[0] (toggles, sync)  sq[1] (toggles, other): a second split signal         then has logic in two domains
                 rs[0] <= ~rl[0] (sync)  rs[1] <= ~rlb (other): a RESET_LESS signal split between the two domains]
  leaf module : sp[1] (bit 1 of sp, toggles, domain other -- sync in single-domain designs)
                memory 2 x 1 bit, write port (sync): mem[cnt[0]] <= d, en = 1
                                  sync read port (sync; domain other with cfg rpdom="other"): rdata <= mem[rl[0]],
                                                         en = 1, not transparent                        (ports "n"/"nt")
                                  sync read port (sync): tdata <= mem[d],  en = 1, transparent_for=(write port,)  ("t"/"nt")
                obs = Cat(ClockSignal("sync"), ResetSignal("sync", allow_reset_less=True))   (combinational)
                (cfg "order": "ab" = the module uses m.d.sync before m.d.other, "ba" = the other way round)
  top         : defines the clock domains (optionally a third, empty one, "tgt": the target of the merging renamer DM); core = wrap_top(Core(leaf = wrap_sub(Leaf)))

Semantics implemented here (the statement, literally):
  * an element changes only at the active edge of the clock of its (final) domain, or -- domains with asynchronous
    reset -- at the rise of that reset, which loads init into every non-reset-less signal of the domain and does
    nothing else;
  * active edge: domain reset asserted -> init (reset-less signals: behave as if there was no reset; no bit of a
    reset-less signal is ever touched by a domain reset or an inserted reset, however few of its bits a domain drives);
    otherwise any inserted reset that is asserted and not frozen -> init; otherwise all enables asserted -> next
    value; otherwise hold;
  * wrappers are applied innermost first; a wrapper acts on an element iff the element lies inside the wrapped
    module (submodules included) and its *current* domain name is one the wrapper names; DomainRenamer changes the
    current name (all entries of its map are substituted simultaneously: an element in X goes to map.get(X, X), once);
    an enable freezes (ANDs into) everything already present on the element: its update and the
    resets inserted before; it never touches the domain reset nor wrappers applied later;
  * obs shows the clock level and the reset level (0 for a reset-less domain) of the domain the leaf's "sync"
    finally is, whatever the inserted controls are (inserters never affect combinational logic);
  * memory: write happens at the active edge of the port's domain iff all enables are asserted (resets do not clear
    rows), read port data is loaded at the active edge iff all enables are asserted, and sees the row before the write;
    a transparent read port sees that row patched by the write the ports of its transparency set make at the same edge.
"""

KINDS = [(e, r) for e in ("pos", "neg") for r in ("sync", "async", "none")]

# name -> (kind, {domain named by the wrapper: control input}) ; renamers: (kind, {old name: new name})
WRAPPERS = {
    "R1": ("reset", {"sync": "r1"}),                     # short form ResetInserter(r1)
    "R2": ("reset", {"sync": "r2", "other": "r2", "tgt": "r2"}),      # one control for every domain of the design
    "R3": ("reset", {"sync": "ra", "other": "rb"}),      # a distinct control per domain
    "E1": ("enable", {"sync": "e1"}),
    "E2": ("enable", {"sync": "e2", "other": "e2", "tgt": "e2"}),
    "E3": ("enable", {"sync": "ea", "other": "eb"}),
    "DR": ("rename", {"sync": "other"}),
    "DX": ("rename", {"sync": "other", "other": "sync"}),      # swap (thorough tier only)
    "DM": ("rename", {"sync": "tgt", "other": "tgt"}),         # merges two source domains into a third one
    "DC": ("rename", {"sync": "other", "other": "tgt"}),       # a chain, listed in the order of the chain
    "DCr": ("rename", {"other": "tgt", "sync": "other"}),      # the same chain, listed the other way round
}
CONTROLS = ("r1", "r2", "ra", "rb", "e1", "e2", "ea", "eb")

INITS = {"cnt": 1, "rl": 1, "rl1": 1, "rw": 1, "rs0": 1, "rs1": 0, "sp0": 0, "sp1": 1, "cntb": 2, "rlb": 0, "sq0": 1, "sq1": 0, "rdata": 0, "m0": 0, "m1": 1}


class Elem:
    __slots__ = ("name", "off", "width", "mask", "init", "reset_less", "dom0", "dom", "where", "ens", "rsts", "kind")

    def __init__(self, name, width, reset_less, dom0, where, kind="reg"):
        self.name, self.width, self.mask = name, width, (1 << width) - 1
        self.init = INITS.get(name, 0)
        self.reset_less, self.dom0, self.dom, self.where, self.kind = reset_less, dom0, dom0, where, kind
        self.ens = []           # controls that must all be 1 for the update
        self.rsts = []          # (control, [enables that freeze it])
        self.off = 0


class Model:
    def __init__(self, cfg):
        self.cfg = cfg
        doms = cfg["doms"]
        two = "other" in doms
        self.dom_names = ["sync"] + (["other"] if two else []) + (["tgt"] if "tgt" in doms else [])
        self.order = cfg.get("order", "ab")
        self.nclk = len(self.dom_names)
        self.clk_mask = (1 << self.nclk) - 1
        self.edge = {n: doms[n][0] for n in self.dom_names}
        self.rkind = {n: doms[n][1] for n in self.dom_names}
        self.arst_doms = [n for n in self.dom_names if self.rkind[n] == "async"]
        self.inits = dict(INITS)
        other = "other" if two else "sync"
        # rl is a reset_less 2-bit signal of which only bit 0 is ever assigned; rw is a fully driven reset_less signal
        elems = [Elem("cnt", 2, False, "sync", "core"), Elem("rl", 1, True, "sync", "core"),
                 Elem("rl1", 1, True, None, "core", kind="const"),
                 Elem("sp0", 1, False, "sync", "core"), Elem("sp1", 1, False, other, "leaf"),
                 Elem("rw", 1, True, "sync", "core")]
        if cfg.get("logic_b"):
            elems += [Elem("cntb", 2, False, "other", "core"), Elem("rlb", 1, True, "other", "core"),
                      Elem("sq0", 1, False, "sync", "core"), Elem("sq1", 1, False, "other", "core"),
                      # rs: ONE reset_less signal whose bits are split between the two domains
                      Elem("rs0", 1, True, "sync", "core"), Elem("rs1", 1, True, "other", "core")]
        self.ports = cfg.get("ports", "n")
        self.rports = []
        if "n" in self.ports:
            self.rports.append(Elem("rdata", 1, False, cfg.get("rpdom", "sync"), "leaf", kind="rdata"))
        if "t" in self.ports:
            self.rports.append(Elem("tdata", 1, False, "sync", "leaf", kind="rdata"))
        elems += self.rports
        self.wp = Elem("wport", 0, True, "sync", "leaf", kind="wport")
        off = 0
        for e in elems:
            e.off = off
            off += e.width
        self.elems = elems
        used = []
        for e in elems + [self.wp]:
            seq = (list(cfg["sub"]) if e.where == "leaf" else []) + list(cfg["top"])
            for w in seq:
                kind, named = WRAPPERS[w]
                if kind == "rename":
                    e.dom = named.get(e.dom, e.dom)
                    continue
                for dn, c in named.items():
                    if dn in doms and c not in used:
                        used.append(c)
                if e.dom not in named:
                    continue
                c = named[e.dom]
                if kind == "reset":
                    e.rsts.append((c, []))
                else:
                    e.ens.append(c)
                    for _c, frozen in e.rsts:
                        frozen.append(c)
        for w in list(cfg["sub"]) + list(cfg["top"]):
            if WRAPPERS[w][0] == "rename" and not all(t in doms for t in WRAPPERS[w][1].values()):
                raise ValueError("DomainRenamer needs its target domain")
        self.merge_flags = self._classify_renames(cfg)
        ws = list(cfg["sub"]) + list(cfg["top"])
        self.static_flags = tuple(f for w, f in (("DX", "rename_exchange"), ("DC", "rename_chain"), ("DCr", "rename_chain_reverse_listing"))
                                  if w in ws)
        self.controls = [c for c in CONTROLS if c in used]
        self.obs_dom = self.wp.dom        # what the leaf calls "sync" is finally this domain (the ports never leave it)
        self.sync_inputs = ["d"] + self.controls + [f"rst_{n}" for n in self.dom_names if self.rkind[n] == "sync"]
        self.in_index = {n: k for k, n in enumerate(self.sync_inputs)}

    def _classify_renames(self, cfg):
        """which renames make statements of two domains of ONE module (or of parent and child) share a name
        -> {final target domain: [coverage flags]} (antecedents for the vacuity guards only)"""
        cur = {e.name: e.dom0 for e in self.elems if e.kind == "reg"}
        where = {e.name: e.where for e in self.elems if e.kind == "reg"}
        out = {}
        steps = [("leaf", w) for w in cfg["sub"]] + [("all", w) for w in cfg["top"]]
        for k, (scope, w) in enumerate(steps):
            kind, named = WRAPPERS[w]
            if kind != "rename":
                continue
            inside = [n for n in cur if scope == "all" or where[n] == "leaf"]
            later = [WRAPPERS[x][1] for sc, x in steps[k + 1:] if WRAPPERS[x][0] == "rename"]

            def final(d):
                for mp in later:
                    d = mp.get(d, d)
                return d
            for tgt in set(named.values()):
                fl = []
                for frag in ("core", "leaf"):
                    srcs = {cur[n] for n in inside if where[n] == frag and named.get(cur[n], cur[n]) == tgt}
                    if len(srcs) >= 2:
                        fl.append(("rename_onto_populated_domain_same_module:" if tgt in srcs else "merge_two_sources_same_module:")
                                  + self.order)
                if scope == "all":
                    core = {cur[n] for n in inside if where[n] == "core" and named.get(cur[n], cur[n]) == tgt}
                    leaf = {cur[n] for n in inside if where[n] == "leaf" and named.get(cur[n], cur[n]) == tgt}
                    if core and leaf and core != leaf and tgt not in (core | leaf):
                        fl.append("merge_sources_of_parent_and_child")
                if fl:
                    out.setdefault(final(tgt), []).extend(fl)
            for n in inside:
                cur[n] = named.get(cur[n], cur[n])
        return out

    # -- packing
    def initial(self):
        regs = 0
        for e in self.elems:
            regs |= (e.init & e.mask) << e.off
        return (regs, (INITS["m0"], INITS["m1"]), 0)

    def unpack(self, regs):
        return {e.name: (regs >> e.off) & e.mask for e in self.elems}

    def _next(self, name, v):
        if name in ("cnt", "cntb"):
            return (v[name] + 1) & 3
        if name in ("rw", "rs0"):
            return v["rl"] ^ 1
        if name == "rs1":
            return v["rlb"] ^ 1
        return v[name] ^ 1            # rl, rlb, sp0, sp1, sq0, sq1

    def _dom_reset(self, dom, iv, lv):
        rk = self.rkind[dom]
        if rk == "sync":
            return iv["rst_" + dom]
        if rk == "async":
            return (lv >> (self.nclk + self.arst_doms.index(dom))) & 1
        return 0

    def decide(self, e, iv, dr):
        """what happens to element e at an active edge of its domain -> 'domain-reset' | 'inserted-reset' |
        'update' | 'frozen'; plus coverage flags"""
        flags = []
        en = all(iv[c] for c in e.ens)
        live = [c for c, frozen in e.rsts if iv[c] and all(iv[f] for f in frozen)]
        if dr and not e.reset_less:
            if not en:
                flags.append("domain_reset_overrides_enable")
            return "domain-reset", flags
        if dr and e.reset_less:
            flags.append("reset_less_signal_kept_under_domain_reset")
        if live and e.reset_less and e.kind == "reg":
            flags.append("inserted_reset_skips_reset_less")
        if live and not e.reset_less:
            flags.append("inserted_reset_applied")
            if not en:
                flags.append("inserted_reset_not_frozen_by_inner_enable")
            ctl = {c for c, _f in e.rsts}
            if len(ctl) >= 2 and len(set(live)) == 1:
                flags.append("two_resets_or")
            if live[0] in ("ra", "rb"):
                flags.append("per_domain_reset_applied")
            if e.name in ("sp0", "sp1", "sq0", "sq1"):
                flags.append("partial_signal_reset")
            return "inserted-reset", flags
        if not e.reset_less and any(iv[c] and not all(iv[f] for f in frozen) for c, frozen in e.rsts):
            flags.append("inserted_reset_frozen_by_outer_enable")
        if en:
            return "update", flags
        flags.append("enable_freezes_update")
        if any(c in ("ea", "eb") and not iv[c] for c in e.ens):
            flags.append("per_domain_enable_freezes")
        if len(set(e.ens)) >= 2 and sum(1 for c in set(e.ens) if not iv[c]) == 1:
            flags.append("two_enables_and")
        return "frozen", flags

    def step(self, m, inp, kind, arg):
        """-> (set of allowed successor states, flags, new packed levels)"""
        regs, rows, lv = m
        iv = {n: (inp >> k) & 1 for k, n in enumerate(self.sync_inputs)}
        v = self.unpack(regs)
        flags = []
        new = dict(v)
        rows2 = list(rows)
        alts = {}                 # read-port data registers whose behaviour is left open: name -> set of other allowed values
        why = {}
        if kind == "r":
            dom = self.arst_doms[arg]
            bit = self.nclk + arg
            lv2 = lv ^ (1 << bit)
            if (lv2 >> bit) & 1:
                flags.append("async_reset_rise")
                for e in self.elems:
                    if e.dom != dom:
                        continue
                    if e.kind == "rdata":
                        alts.setdefault(e.name, set()).add(e.init)       # unspecified: hold or init
                        why[e.name] = "async-reset-rise"
                    elif e.reset_less:
                        flags.append("async_rise_leaves_reset_less")
                    else:
                        new[e.name] = e.init
                        why[e.name] = "async-reset-rise"
                if self.wp.dom == dom:
                    flags.append("async_rise_leaves_memory")
            else:
                flags.append("async_reset_fall")
        else:
            lv2 = lv ^ arg
            active = []
            for k, dom in enumerate(self.dom_names):
                if (arg >> k) & 1:
                    if ((lv2 >> k) & 1) == (1 if self.edge[dom] == "pos" else 0):
                        active.append(dom)
                        flags.append("active_edge")
                        if self.edge[dom] == "neg":
                            flags.append("negedge_active")
                        if self.rkind[dom] == "none":
                            flags.append("reset_less_domain_edge")
                    else:
                        flags.append("inactive_edge")
            if len(active) >= 2:
                flags.append("simultaneous_active_edges")
            populated = {e.dom for e in self.elems if e.kind != "const"}
            if len(active) == 1 and len(populated) == 2 and active[0] in ("sync", "other"):
                flags.append("other_domain_edge_only")
                # a per-domain control of the idle domain is asserted while this domain's own control is not
                mine, its = ("ra", "rb") if active[0] == "sync" else ("rb", "ra")
                if iv.get(its) and not iv.get(mine, 1):
                    flags.append("idle_domain_reset_control_asserted")
                mine, its = ("ea", "eb") if active[0] == "sync" else ("eb", "ea")
                if iv.get(mine) and not iv.get(its, 1):
                    flags.append("idle_domain_enable_control_deasserted")
            if active:
                flags += self.static_flags
            for dom in active:
                flags += self.merge_flags.get(dom, ())
                dr = self._dom_reset(dom, iv, lv)
                if dr:
                    flags.append("domain_reset_at_edge")
                    if self.rkind[dom] == "async":
                        flags.append("edge_under_async_reset")
                for e in self.elems:
                    if e.dom != dom:
                        continue
                    what, fl = self.decide(e, iv, dr)
                    flags += fl
                    why[e.name] = what
                    if e.dom0 != e.dom:
                        flags.append("renamed_logic_clocked_by_target")
                    if e.kind == "rdata":
                        en = all(iv[c] for c in e.ens)
                        transparent = e.name == "tdata"
                        addr = iv["d"] if transparent else v["rl"]
                        val = rows[addr]
                        if transparent and self.wp.dom == dom and all(iv[c] for c in self.wp.ens) and (v["cnt"] & 1) == addr:
                            val = iv["d"]             # the same-edge write of the port it is transparent for
                            if en:
                                flags.append("transparent_read_sees_same_edge_write")
                        if en:
                            new[e.name] = val
                            flags.append("transparent_read" if transparent else "mem_read")
                            if e.dom != self.wp.dom:
                                flags.append("read_port_in_another_domain_than_write_port")
                                if self.wp.dom in active and all(iv[c] for c in self.wp.ens) and (v["cnt"] & 1) == addr:
                                    # both clocks edge in the same instant and the row read is being written from the
                                    # other domain: nothing says whether the old or the new contents are seen
                                    alts.setdefault(e.name, set()).add(iv["d"])
                                    flags.append("cross_domain_read_and_write_same_instant")
                        else:
                            flags.append("transparent_read_gated_by_enable" if transparent else "mem_read_gated_by_enable")
                            if val != v[e.name]:
                                flags.append("gated_transparent_read_would_change" if transparent else "gated_read_would_change")
                        if what in ("domain-reset", "inserted-reset"):
                            alts.setdefault(e.name, set()).add(e.init)     # unspecified: normal behaviour or init
                    elif what in ("domain-reset", "inserted-reset"):
                        new[e.name] = e.init
                    elif what == "update":
                        new[e.name] = self._next(e.name, v)
                        if e.name in ("rl", "rs0", "rs1") and new[e.name] != e.init:
                            # a bit of the partially driven reset-less signal takes a value other than its init while ...
                            if "inserted_reset_skips_reset_less" in fl:
                                flags.append("partially_driven_reset_less_not_init_under_inserted_reset")
                            if dr:
                                flags.append("partially_driven_reset_less_not_init_under_domain_reset")
                if self.wp.dom == dom:
                    if all(iv[c] for c in self.wp.ens):
                        rows2[v["cnt"] & 1] = iv["d"]
                        why["mem"] = "write"
                        flags.append("mem_write")
                        if self.wp.dom != self.wp.dom0:
                            flags.append("mem_ports_renamed")
                    else:
                        why["mem"] = "write-gated"
                        flags.append("mem_write_gated_by_enable")
        packed = 0
        for e in self.elems:
            packed |= new[e.name] << e.off
        rows2 = tuple(rows2)
        cands = [packed]
        for e in self.rports:
            for alt in alts.get(e.name, ()):
                cands += [(p & ~(1 << e.off)) | (alt << e.off) for p in cands]
        allowed = {(p, rows2, lv2) for p in cands}
        self._why = why
        return allowed, tuple(flags), lv2

    def expected_obs(self, inp, lv2):
        """Cat(ClockSignal("sync"), ResetSignal("sync", allow_reset_less=True)) evaluated in the leaf after the event"""
        dom = self.obs_dom
        clk = (lv2 >> self.dom_names.index(dom)) & 1
        iv = {n: (inp >> k) & 1 for k, n in enumerate(self.sync_inputs)}
        return clk | (self._dom_reset(dom, iv, lv2) << 1)

    def event_name(self, m, kind, arg):
        lv = m[2]
        if kind == "r":
            dom = self.arst_doms[arg]
            rising = not (lv >> (self.nclk + arg)) & 1
            return f"async-rst-{'rise' if rising else 'fall'}[{dom}]"
        lv2 = lv ^ arg
        parts = []
        for k, dom in enumerate(self.dom_names):
            if (arg >> k) & 1:
                act = ((lv2 >> k) & 1) == (1 if self.edge[dom] == "pos" else 0)
                parts.append(dom + ("+" if act else "-"))
        return "clk[" + ",".join(parts) + "]"       # + = active edge, - = inactive edge

    def explain(self, m, got, allowed, inp, kind, arg):
        """human-readable differences between the implementation's successor state and the (first) allowed one"""
        self.step(m, inp, kind, arg)
        why = self._why
        want = min(sorted(allowed), key=lambda c: bin(c[0] ^ got[0]).count("1"))
        ev = self.event_name(m, kind, arg)
        iv = {n: (inp >> k) & 1 for k, n in enumerate(self.sync_inputs)}
        ins = ",".join(f"{n}={x}" for n, x in iv.items())
        pre, g, w = self.unpack(m[0]), self.unpack(got[0]), self.unpack(want[0])
        errs = []
        for e in self.elems:
            if g[e.name] != w[e.name]:
                errs.append(f"{e.name}({e.dom}):{ev}:{why.get(e.name, 'not-its-event')} got {g[e.name]}, model {w[e.name]} "
                            f"(was {pre[e.name]}; inputs {ins}; levels {m[2]:0{self.nclk + len(self.arst_doms)}b})")
        for k in range(2):
            if got[1][k] != want[1][k]:
                errs.append(f"mem[{k}]({self.wp.dom}):{ev}:{why.get('mem', 'not-its-event')} got {got[1][k]}, model {want[1][k]} (was {m[1][k]}; cnt={pre['cnt']}; "
                            f"inputs {ins})")
        if got[2] != want[2]:
            errs.append(f"levels:{ev} got {got[2]:b}, model {want[2]:b}")
        return errs or [f"state:{ev} got {got}, model one of {sorted(allowed)}"]
