"""Bit-serial Williams/Rocksoft CRC reference for C16 (plain ints, never calls amaranth).

Model ("A Painless Guide to CRC Error Detection Algorithms", parameters WIDTH POLY INIT REFIN REFOUT XOROUT, as
used by the reveng catalogue): a WIDTH-bit register starts at INIT; message bits are consumed one at a time -- each
data word most significant bit first, or least significant bit first when REFIN; for every message bit the
register is shifted left by one and POLY is XORed in when (bit shifted out) XOR (message bit) is 1; the result is
the register, bit-reflected over WIDTH when REFOUT, XOR XOROUT.

A *codeword* is the message bit stream followed by the CRC register image (output with XOROUT applied, in register
bit order) highest-order term first; packed into data words the same way message bits are (first bit = word MSB,
or word LSB when REFIN). For REFIN == REFOUT this is the usual "big-endian words" / "little-endian words" rule of
the amaranth docs. The residue (reveng definition) is the register left after an error-free codeword, reflected
when REFOUT, without XOROUT.
"""
import json
import os


def reflect(v, n):
    r = 0
    for i in range(n):
        if (v >> i) & 1:
            r |= 1 << (n - 1 - i)
    return r


def word_bits(word, dw, refin):
    """bits of one data word in the order the model consumes them"""
    if refin:
        return [(word >> i) & 1 for i in range(dw)]
    return [(word >> i) & 1 for i in range(dw - 1, -1, -1)]


def pack_bits(bits, dw, refin):
    """inverse of word_bits over a whole stream (len(bits) must be a multiple of dw)"""
    assert len(bits) % dw == 0
    words = []
    for k in range(0, len(bits), dw):
        w = 0
        for j, b in enumerate(bits[k:k + dw]):
            if b:
                w |= 1 << (j if refin else dw - 1 - j)
        words.append(w)
    return words


def shift_bit(reg, bit, width, poly):
    top = (reg >> (width - 1)) & 1
    reg = (reg << 1) & ((1 << width) - 1)
    if top ^ bit:
        reg ^= poly
    return reg


def feed_word(reg, word, width, poly, refin, dw):
    for b in word_bits(word, dw, refin):
        reg = shift_bit(reg, b, width, poly)
    return reg


def feed_words(reg, words, width, poly, refin, dw):
    for w in words:
        reg = feed_word(reg, w, width, poly, refin, dw)
    return reg


def output(reg, width, refout, xorout):
    return (reflect(reg, width) if refout else reg) ^ xorout


def crc(width, poly, init, refin, refout, xorout, dw, words):
    return output(feed_words(init, words, width, poly, refin, dw), width, refout, xorout)


def trailer_bits(c, width, refout):
    """bits of the CRC output value c in transmission order (highest-order register term first)"""
    image = reflect(c, width) if refout else c
    return [(image >> i) & 1 for i in range(width - 1, -1, -1)]


def trailer_words(c, width, refin, refout, dw):
    """the CRC output value c as data words in transmission order (width must be a multiple of dw)"""
    return pack_bits(trailer_bits(c, width, refout), dw, refin)


def residue_after(width, poly, init, refin, refout, xorout, dw, words):
    """register left after message `words` followed by its own CRC, reflected when refout, no xorout.
    The trailer is fed bit-serially, so dw need not divide width."""
    reg = feed_words(init, words, width, poly, refin, dw)
    for b in trailer_bits(output(reg, width, refout, xorout), width, refout):
        reg = shift_bit(reg, b, width, poly)
    return reflect(reg, width) if refout else reg


CHECK_MESSAGE = b"123456789"


def check_words(dw, refin):
    """the ASCII check string as dw-bit words carrying the same bit stream as its 9 octets (dw must divide 72)"""
    bits = []
    for byte in CHECK_MESSAGE:
        bits += word_bits(byte, 8, refin)
    return pack_bits(bits, dw, refin)


def published():
    """{catalogue name: (check, residue)} -- the reveng values, see c16_checks.json for provenance"""
    with open(os.path.join(os.path.dirname(os.path.abspath(__file__)), "c16_checks.json")) as f:
        doc = json.load(f)
    return {k: (int(v[0], 16), int(v[1], 16)) for k, v in doc["entries"].items()}
