"""Reference semantics of Amaranth expressions, written from docs/guide.rst and the operator docstrings
("Returns" sections) with plain Python ints. Never imports amaranth.

A term is a nested tuple; a value is (v, w, sg): Python int v inside the range of Shape(w, sg).

leaves   ("s", i, w, sg)            signal number i of shape (w, sg); its value comes from env[i]
         ("c", v, w, sg)            constant
unary    ("u", op, x)               op in neg inv pos bool any all xor as_signed as_unsigned abs
binary   ("b", op, x, y)            op in + - * // % & | ^ == != < <= > >= << >>
         ("shl"|"shr"|"rol"|"ror", x, k)        constant amount (may be negative)
         ("idx", x, i)  ("slice", x, i, j, k)   Python indexing / slicing (None allowed in i, j, k)
         ("cat", x, ...)  ("rep", x, n)
         ("bsel"|"wsel", x, off, width)         off is a term (unsigned) or ("k", int) for a Python int
         ("match", x, pat, ...)                  pat: int or str of '0' '1' '-'
         ("mux", sel, a, b)
         ("arr", idx, e0, e1, ...)               Array([e0, e1, ...])[idx]  (idx in range)
"""


class Invalid(Exception):
    """the term is not a legal Amaranth expression (e.g. signed shift amount, as_signed of width 0)"""


def mask(w):
    return (1 << w) - 1


def bits_of(v, w):
    return v & mask(w)


def from_bits(b, w, sg):
    b &= mask(w)
    if sg and w and b >> (w - 1):
        b -= 1 << w
    return b


def fits(v, w, sg):
    if sg:
        return w >= 1 and -(1 << (w - 1)) <= v < (1 << (w - 1))
    return 0 <= v < (1 << w)


def bitwise_shape(a, b):
    (_, aw, asg), (_, bw, bsg) = a, b
    if not asg and not bsg:
        return max(aw, bw), False
    if asg and bsg:
        return max(aw, bw), True
    if not asg and bsg:
        return max(aw + 1, bw), True
    return max(aw, bw + 1), True


def ev(t, env):
    k = t[0]
    if k == "s":
        return (env[t[1]], t[2], t[3])
    if k == "c":
        return (t[1], t[2], t[3])
    if k == "u":
        op = t[1]
        v, w, sg = x = ev(t[2], env)
        if op == "neg":
            return (-v, w + 1, True)
        if op == "pos":
            return x
        if op == "inv":
            return (~v, w, True) if sg else (mask(w) - v, w, False)
        if op in ("bool", "any"):
            return (int(v != 0), 1, False)
        if op == "all":
            return (int(bits_of(v, w) == mask(w)), 1, False)
        if op == "xor":
            return (bin(bits_of(v, w)).count("1") & 1, 1, False)
        if op == "as_signed":
            if w == 0:
                raise Invalid
            return (from_bits(bits_of(v, w), w, True), w, True)
        if op == "as_unsigned":
            return (bits_of(v, w), w, False)
        if op == "abs":
            return (abs(v), w, False)
        raise ValueError(op)
    if k == "b":
        op = t[1]
        a = ev(t[2], env)
        b = ev(t[3], env)
        av, aw, asg = a
        bv, bw, bsg = b
        if op in ("+", "-"):
            w, sg = bitwise_shape(a, b)
            if op == "+":
                return (av + bv, w + 1, sg)
            return (av - bv, w + 1, True)
        if op == "*":
            return (av * bv, aw + bw, asg or bsg)
        if op == "//":
            r = 0 if bv == 0 else av // bv
            if not asg and not bsg:
                return (r, aw, False)
            if not asg and bsg:
                return (r, aw + 1, True)
            if asg and not bsg:
                return (r, aw, True)
            return (r, aw + 1, True)
        if op == "%":
            r = 0 if bv == 0 else av % bv
            return (r, bw, bsg)
        if op in ("&", "|", "^"):
            w, sg = bitwise_shape(a, b)
            r = av & bv if op == "&" else av | bv if op == "|" else av ^ bv
            return (r, w, sg)     # Python int bitwise ops on sign-extended ints are exact
        if op in ("==", "!=", "<", "<=", ">", ">="):
            r = {"==": av == bv, "!=": av != bv, "<": av < bv, "<=": av <= bv, ">": av > bv, ">=": av >= bv}[op]
            return (int(r), 1, False)
        if op == "<<":
            if bsg:
                raise Invalid
            return (av << bv, aw + (1 << bw) - 1, asg)
        if op == ">>":
            if bsg:
                raise Invalid
            return (av >> bv, aw, asg)
        raise ValueError(op)
    if k in ("shl", "shr"):
        v, w, sg = ev(t[1], env)
        amt = t[2] if k == "shl" else -t[2]
        if amt >= 0:
            r = v << amt
        else:
            r = v >> (-amt)
        return (r, max(w + amt, 1 if sg else 0), sg)
    if k in ("rol", "ror"):
        v, w, sg = ev(t[1], env)
        if w == 0:
            return (0, 0, False)
        amt = (t[2] if k == "rol" else -t[2]) % w
        b = bits_of(v, w)
        r = ((b << amt) | (b >> (w - amt))) & mask(w)
        return (r, w, False)
    if k in ("idx", "slice") and t[1][0] == "arrp":
        # indexing / slicing an array proxy itself is forwarded to the elements (ArrayProxy.__getitem__): the result is a proxy over
        # the sliced elements; an element for which the index is invalid makes the whole expression invalid
        inner = t[1]
        return ev(("arrp", inner[1]) + tuple((k, e) + t[2:] for e in inner[2:]), env)
    if k == "idx":
        v, w, sg = ev(t[1], env)
        i = t[2]
        if not (-w <= i < w):
            raise Invalid
        bl = [(bits_of(v, w) >> n) & 1 for n in range(w)]
        return (bl[i], 1, False)
    if k == "slice":
        v, w, sg = ev(t[1], env)
        bl = [(bits_of(v, w) >> n) & 1 for n in range(w)]
        sel = bl[slice(t[2], t[3], t[4])]
        return (sum(b << n for n, b in enumerate(sel)), len(sel), False)
    if k == "cat":
        r, off = 0, 0
        for p in t[1:]:
            v, w, sg = ev(p, env)
            r |= bits_of(v, w) << off
            off += w
        return (r, off, False)
    if k == "rep":
        v, w, sg = ev(t[1], env)
        if t[2] < 0:
            raise Invalid
        r = 0
        for n in range(t[2]):
            r |= bits_of(v, w) << (n * w)
        return (r, w * t[2], False)
    if k in ("bsel", "wsel"):
        v, w, sg = ev(t[1], env)
        width = t[3]
        if width < 0 or (k == "wsel" and width == 0):
            raise Invalid          # a word of zero width has no stride; Part rejects it (documented as TypeError for bad widths)
        if t[2][0] == "k":
            off = t[2][1]
            if off < 0:
                raise Invalid
        else:
            off, ow, osg = ev(t[2], env)
            if osg:
                raise Invalid
        start = off if k == "bsel" else off * width
        b = bits_of(v, w)
        r = 0
        for n in range(width):
            pos = start + n
            if pos < w:
                bit = (b >> pos) & 1
            else:
                bit = ((b >> (w - 1)) & 1) if (sg and w) else 0
            r |= bit << n
        return (r, width, False)
    if k == "match":
        v, w, sg = ev(t[1], env)
        b = bits_of(v, w)
        hit = False
        for p in t[2:]:
            if isinstance(p, str):
                p = p.replace(" ", "").replace("\t", "")
                if len(p) != w:
                    raise Invalid
                ok = True
                for n, ch in enumerate(reversed(p)):
                    if ch == "-":
                        continue
                    if ((b >> n) & 1) != int(ch):
                        ok = False
                hit = hit or ok
            else:
                hit = hit or (v == p)
        return (int(hit), 1, False)
    if k == "mux":
        s = ev(t[1], env)
        a = ev(t[2], env)
        b = ev(t[3], env)
        w, sg = bitwise_shape(a, b)
        return ((a if s[0] != 0 else b)[0], w, sg)
    if k in ("arr", "arrp"):
        # "arrp": the same array access used WITHOUT casting it to a value first (operators, methods and statements receive the
        # ArrayProxy object itself); every operator of Value applied to a proxy acts on the selected element's value
        i = ev(t[1], env)
        elems = [ev(e, env) for e in t[2:]]
        if i[2] or not (0 <= i[0] < len(elems)):
            raise Invalid
        # shape: narrowest shape containing every *reachable* element shape (an index of width n selects among the first
        # 2**n elements only); not documented -> only representability is checked
        reach = elems[:1 << i[1]]
        sg = any(e[2] for e in reach)
        w = 0
        for e in reach:
            w = max(w, e[1] + (1 if sg and not e[2] else 0))
        return (elems[i[0]][0], w, sg)
    raise ValueError(t)


def shape_documented(t):
    """False for forms whose result shape the reference documentation does not spell out"""
    return t[0] not in ("arr", "arrp")


def leaves(t, acc=None):
    """signal leaves of a term: {i: (w, sg)}"""
    if acc is None:
        acc = {}
    if t[0] == "s":
        acc[t[1]] = (t[2], t[3])
    elif t[0] not in ("c", "k"):
        for x in t[1:]:
            if isinstance(x, tuple):
                leaves(x, acc)
    return acc


def values_of(w, sg):
    if sg:
        return range(-(1 << (w - 1)), 1 << (w - 1))
    return range(0, 1 << w)


def show(t):
    """compact human-readable form"""
    k = t[0]
    if k == "s":
        return f"{'s' if t[3] else 'u'}{t[2]}#{t[1]}"
    if k == "c":
        return f"C({t[1]},{'s' if t[3] else 'u'}{t[2]})"
    if k == "k":
        return str(t[1])
    if k == "u":
        return f"{t[1]}({show(t[2])})"
    if k == "b":
        return f"({show(t[2])} {t[1]} {show(t[3])})"
    if k in ("shl", "shr", "rol", "ror", "rep", "idx"):
        return f"{show(t[1])}.{k}({t[2]})"
    if k == "slice":
        return f"{show(t[1])}[{t[2]}:{t[3]}:{t[4]}]"
    if k in ("bsel", "wsel"):
        return f"{show(t[1])}.{k}({show(t[2])},{t[3]})"
    if k == "match":
        return f"{show(t[1])}.matches{t[2:]!r}"
    return f"{k}(" + ",".join(show(x) for x in t[1:]) + ")"
