"""Reference semantics of assignments and control flow (docs/guide.rst "Assigning to signals", "Control flow"):
per bit, the last active assignment in program order wins; activity = every enclosing block selected;
If/Elif/Else: first non-zero condition; Switch: first case with a matching pattern, Default if none.

Assignable target terms (subset of the expression terms of vf.ref.expr):
  ("s", i, w, sg) | ("slice", T, a, b, None) | ("idx", T, i) | ("cat", T...) | ("bsel"|"wsel", T, off, width)
  | ("arr", idx, T0, T1, ...) | ("u", "as_signed"|"as_unsigned", T) | ("rol"|"ror", T, k)
Statements:
  ("assign", T, rhs) | ("if", [(cond, [stmt...]), ...], else_body_or_None) | ("switch", test, [(patterns_or_None, [stmt...]), ...])
"""
from . import expr as R


def bitmap(T, cur):
    """list with one entry per bit of the target: (signal index, bit index) or None when the bit falls outside"""
    k = T[0]
    if k == "s":
        return [(T[1], n) for n in range(T[2])]
    if k == "slice":
        assert T[4] in (None, 1)
        return bitmap(T[1], cur)[slice(T[2], T[3])]
    if k == "idx":
        return [bitmap(T[1], cur)[T[2]]]
    if k == "cat":
        out = []
        for p in T[1:]:
            out += bitmap(p, cur)
        return out
    if k in ("bsel", "wsel"):
        bm = bitmap(T[1], cur)
        width = T[3]
        if T[2][0] == "k":
            off = T[2][1]
        else:
            off = R.ev(T[2], cur)[0]
        start = off if k == "bsel" else off * width
        return [bm[start + n] if start + n < len(bm) else None for n in range(width)]
    if k == "arr":
        i = R.ev(T[1], cur)[0]
        elems = T[2:]
        pw = proxy_width(T)
        bm = bitmap(elems[i], cur)
        bm = bm[:pw] + [None] * (pw - len(bm))
        return bm
    if k == "u" and T[1] in ("as_signed", "as_unsigned"):
        return bitmap(T[2], cur)
    if k in ("rol", "ror"):
        bm = bitmap(T[1], cur)
        w = len(bm)
        if w == 0:
            return bm
        amt = (T[2] if k == "rol" else -T[2]) % w
        # result bit n of rotate_left(amt) is source bit (n - amt) mod w
        return [bm[(n - amt) % w] for n in range(w)]
    raise ValueError(f"not assignable: {T!r}")


def reachable_elems(T):
    """an index of width n can only select the first 2**n elements; the others do not take part in the proxy's shape"""
    iw = target_shape(T[1])[0] if T[1][0] != "k" else None
    elems = list(T[2:])
    return elems[:1 << iw] if iw is not None else elems


def proxy_width(T):
    ws = []
    sgs = []
    for e in reachable_elems(T):
        w, sg = target_shape(e)
        ws.append(w)
        sgs.append(sg)
    sg = any(sgs)
    return max([w + (1 if sg and not s else 0) for w, s in zip(ws, sgs)] + [0])


def target_shape(T):
    k = T[0]
    if k == "s":
        return T[2], T[3]
    if k == "u":
        return target_shape(T[2])[0], T[1] == "as_signed"
    if k == "arr":
        return proxy_width(T), any(target_shape(e)[1] for e in reachable_elems(T))
    env = {i: 0 for i in R.leaves(T)}
    _, w, sg = R.ev(T, env)
    return w, sg


def write(T, rhs_value, cur, nxt, shapes):
    """rhs_value: Python int in the RHS's own shape. `v & mask(L)` truncates, or zero-/sign-extends by the
    RHS's own signedness, to the target length L."""
    bm = bitmap(T, cur)
    bits = rhs_value & R.mask(len(bm))
    for n, ent in enumerate(bm):
        if ent is None:
            continue
        i, b = ent
        w, sg = shapes[i]
        raw = R.bits_of(nxt[i], w)
        raw = (raw & ~(1 << b)) | (((bits >> n) & 1) << b)
        nxt[i] = R.from_bits(raw, w, sg)


def pattern_matches(test, pats):
    """test: (v, w, sg). pats: None = Default; tuple of int / str patterns (empty tuple never matches)"""
    if pats is None:
        return True
    v, w, sg = test
    b = R.bits_of(v, w)
    for p in pats:
        if isinstance(p, str):
            p = p.replace(" ", "").replace("\t", "")
            ok = len(p) == w
            for n, ch in enumerate(reversed(p)):
                if ch != "-" and ((b >> n) & 1) != int(ch):
                    ok = False
            if ok:
                return True
        else:
            # an integer pattern that is not representable in the shape of the tested value never matches (it is not compared by bit pattern)
            lo, hi = (-(1 << (w - 1)), (1 << (w - 1)) - 1) if sg and w else (0, (1 << w) - 1)
            if lo <= p <= hi and R.bits_of(p, w) == b:
                return True
    return False


def run_stmts(stmts, cur, nxt, shapes, only=None):
    """only: optional predicate on assign statements (used for modules whose control flow drives several domains:
    each domain sees the same block structure but only its own assignments)"""
    for st in stmts:
        k = st[0]
        if k == "assign":
            if only is None or only(st):
                write(st[1], R.ev(st[2], cur)[0], cur, nxt, shapes)
        elif k == "if":
            for cond, body in st[1]:
                if R.ev(cond, cur)[0] != 0:
                    run_stmts(body, cur, nxt, shapes, only)
                    break
            else:
                if st[2] is not None:
                    run_stmts(st[2], cur, nxt, shapes, only)
        elif k == "switch":
            test = R.ev(st[1], cur)
            for pats, body in st[2]:
                if pattern_matches(test, pats):
                    run_stmts(body, cur, nxt, shapes, only)
                    break
        else:
            raise ValueError(st)


def targets_of(stmts, acc=None):
    """signal indices assigned anywhere in a statement list"""
    if acc is None:
        acc = set()
    for st in stmts:
        if st[0] == "assign":
            for ent in _all_leaves(st[1]):
                acc.add(ent)
        elif st[0] == "if":
            for _c, body in st[1]:
                targets_of(body, acc)
            if st[2] is not None:
                targets_of(st[2], acc)
        elif st[0] == "switch":
            for _p, body in st[2]:
                targets_of(body, acc)
    return acc


def _all_leaves(T):
    """signals that can be written through target T (not the ones read by offsets / indices)"""
    k = T[0]
    if k == "s":
        return {T[1]}
    if k in ("slice", "idx", "rol", "ror"):
        return _all_leaves(T[1])
    if k == "cat":
        out = set()
        for p in T[1:]:
            out |= _all_leaves(p)
        return out
    if k in ("bsel", "wsel"):
        return _all_leaves(T[1])
    if k == "arr":
        out = set()
        for e in T[2:]:
            out |= _all_leaves(e)
        return out
    if k == "u":
        return _all_leaves(T[2])
    raise ValueError(T)
