"""C18 reference: port algebra as plain tuples, written from the PortLike docs and the property statement.

A base port is (width, mask, dir) with dir in "i" / "o" / "io".  A port expression ("term") is one of
    ["b", k]                    the k-th base port of the configuration
    ["inv", t]                  ~t
    ["idx", t, k]               t[k]           (k an int inside -len..len-1)
    ["sl", t, start, stop, step]  t[start:stop:step]
    ["add", t1, t2]             t1 + t2
The value of a term is (dir, bits) where bits is a list of (base index, bit index, inverted) -- or
("exc", class name) when the docs demand an exception.  Nothing here touches amaranth.
"""


class RefError(Exception):
    def __init__(self, cls):
        self.cls = cls


def dir_and(a, b):
    """Direction.__and__ per its docstring: same -> same; Bidir & x -> x; Input & Output -> ValueError."""
    if a == b:
        return a
    if a == "io":
        return b
    if b == "io":
        return a
    raise RefError("ValueError")


def ref_eval(term, bases):
    op = term[0]
    if op == "b":
        w, mask, d = bases[term[1]][:3]
        return d, [(term[1], j, bool((mask >> j) & 1)) for j in range(w)]
    if op == "inv":
        d, bits = ref_eval(term[1], bases)
        return d, [(b, j, not v) for b, j, v in bits]
    if op == "idx":
        d, bits = ref_eval(term[1], bases)
        return d, [bits[term[2]]]
    if op == "sl":
        d, bits = ref_eval(term[1], bases)
        return d, bits[slice(term[2], term[3], term[4])]
    if op == "add":
        d1, b1 = ref_eval(term[1], bases)
        d2, b2 = ref_eval(term[2], bases)
        if kind_of(term[1], bases) != kind_of(term[2], bases):
            raise RefError("TypeError")
        return dir_and(d1, d2), b1 + b2
    raise ValueError(term)


def kind_of(term, bases):
    """port class of a term (bases may carry a 4th element: kind); mixed-kind `+` is a TypeError"""
    if term[0] == "b":
        b = bases[term[1]]
        return b[3] if len(b) > 3 else None
    return kind_of(term[1], bases)


def ref(term, bases):
    try:
        return ("ok",) + tuple(ref_eval(term, bases))
    except RefError as e:
        return ("exc", e.cls)


def term_str(term, bases=None):
    op = term[0]
    if op == "b":
        if bases is None:
            return f"b{term[1]}"
        w, mask, d = bases[term[1]][:3]
        k = (bases[term[1]][3] + ":") if len(bases[term[1]]) > 3 else ""
        return f"{k}b{term[1]}(w{w},m{mask:0{max(w, 1)}b},{d})"
    if op == "inv":
        return f"~{term_str(term[1], bases)}"
    if op == "idx":
        return f"{term_str(term[1], bases)}[{term[2]}]"
    if op == "sl":
        f = lambda x: "" if x is None else str(x)
        s = f"{f(term[2])}:{f(term[3])}" + ("" if term[4] is None else f":{term[4]}")
        return f"{term_str(term[1], bases)}[{s}]"
    if op == "add":
        return f"({term_str(term[1], bases)}+{term_str(term[2], bases)})"
    raise ValueError(term)


def slice_keys(w, steps=(None,), margin=1):
    """All index keys applied to a width-w port: every in-range int; every slice with start/stop in
    {None} u [-w-margin, w+margin] and the given steps, except slices that Python normalises to
    start > stop with a positive step (`x[2:1]`): amaranth's core Value/IOValue slicing rejects those with
    IndexError, which is a core-language rule outside this property."""
    keys = [("idx", k) for k in range(-w, w)]
    vals = [None] + list(range(-w - margin, w + margin + 1))
    for st in steps:
        for a in vals:
            for b in vals:
                s, e, k = slice(a, b, st).indices(w)
                if k > 0 and s > e:
                    continue
                keys.append(("sl", a, b, st))
    return keys


def apply_key(t, key):
    if key[0] == "idx":
        return ["idx", t, key[1]]
    return ["sl", t, key[1], key[2], key[3]]


def term_width(term, bases):
    r = ref(term, bases)
    return len(r[2]) if r[0] == "ok" else None


def legal_buffer(port_dir, buf_dir):
    """Buffer docs: ValueError unless port.direction in (direction, Bidir)."""
    return port_dir == "io" or port_dir == buf_dir
