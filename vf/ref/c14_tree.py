"""C14 reference model: signature trees as plain data, and everything the property statement says about them,
computed by an independent walk (plain Python, never imports amaranth).

tree  = [[name, node], ...]                      (list order = insertion order of the members)
node  = {"k": "p", "f": "o"|"i", "d": [dims], "s": shape_key, "i": 0|1}      port member
      | {"k": "s", "f": "o"|"i", "d": [dims], "t": tree}                     signature member
shape_key = a name of SHAPES, or ["u"|"s", width, init_value] for a raw unsigned/signed shape (used by corruptions)
"""
import itertools

# name -> (width, signed, (default init value, alternative init value) as the integer the port resets to)
SHAPES = {
    "u0": (0, False, (0, 0)),      # unsigned(0): zero-width port (only in the zero-width family: sig + metadata parts)
    "u1": (1, False, (0, 1)),      # 1                       init=1
    "s2": (2, True, (0, -1)),      # signed(2)               init=-1
    "r3": (2, False, (0, 2)),      # range(3)                init=2
    "en": (2, False, (0, 2)),      # lib.enum.Enum A=0,B=1,C=2 with shape unsigned(2); init=E.C
    "st": (3, False, (0, 7)),      # StructLayout({"p": 1, "q": signed(2)}); init={"p": 1, "q": -1} -> 0b111
}
ATTRS = [("u1", 0), ("s2", 1), ("r3", 0), ("en", 1), ("st", 0), ("u1", 1), ("s2", 0), ("r3", 1), ("en", 0), ("st", 1)]


def shape_info(key, init_sel):
    """-> (width, signed, init value)"""
    if isinstance(key, (list, tuple)):
        kind, w, iv = key
        return (w, kind == "s", iv)
    w, sg, inits = SHAPES[key]
    return (w, sg, inits[init_sel])


def norm(tree):
    """deep copy with canonical python types (after a json round trip)"""
    out = []
    for name, n in tree:
        m = dict(n)
        m["d"] = [int(x) for x in n["d"]]
        if n["k"] == "s":
            m["t"] = norm(n["t"])
        elif isinstance(n["s"], (list, tuple)):
            m["s"] = list(n["s"])
        out.append([name, m])
    return out


def _flip(f):
    return "i" if f == "o" else "o"


def canon(tree):
    """canonical one-line text of a tree; `}[` occurs exactly when a signature member has array dimensions"""
    parts = []
    for name, n in tree:
        fl = "Out" if n["f"] == "o" else "In"
        dims = "[" + ",".join(map(str, n["d"])) + "]" if n["d"] else ""
        if n["k"] == "p":
            s = n["s"] if isinstance(n["s"], str) else "%s%d=%d" % tuple(n["s"])
            parts.append(f"{name}:{fl}({s}{'!' if n['i'] else ''}){dims}")
        else:
            parts.append(f"{name}:{fl}{canon(n['t'])}{dims}")
    return "{" + ",".join(parts) + "}"


def indices(dims):
    return list(itertools.product(*[range(d) for d in dims]))


def leaves(tree, flipped=False, path=()):
    """Independent walk: every leaf port element as (path, effective direction, width, signed, init value).
    A member declared In inside a signature reverses everything below it; `flipped` reverses everything."""
    out = []
    for name, n in tree:
        eff_flipped = flipped ^ (n["f"] == "i")
        for idx in indices(n["d"]):
            p = (*path, name, *idx)
            if n["k"] == "p":
                w, sg, iv = shape_info(n["s"], n["i"])
                out.append((p, "i" if eff_flipped else "o", w, sg, iv))
            else:
                out.extend(leaves(n["t"], eff_flipped, p))
    return out


def nodes(tree, flipped=False, path=()):
    """every member (ports and signature members) once: (name path, effective flow, kind, dims)"""
    out = []
    for name, n in tree:
        eff_flipped = flipped ^ (n["f"] == "i")
        out.append(((*path, name), "i" if eff_flipped else "o", n["k"], tuple(n["d"])))
        if n["k"] == "s":
            out.extend(nodes(n["t"], eff_flipped, (*path, name)))
    return out


def node_paths(tree, path=()):
    """name paths of all member nodes (for corruptions)"""
    out = []
    for name, n in tree:
        out.append((*path, name))
        if n["k"] == "s":
            out.extend(node_paths(n["t"], (*path, name)))
    return out


def get_node(tree, npath):
    for name, n in tree:
        if name == npath[0]:
            return n if len(npath) == 1 else get_node(n["t"], npath[1:])
    raise KeyError(npath)


def edit(tree, npath, fn):
    """copy of tree with node at npath replaced by fn(node) (None = delete)"""
    out = []
    for name, n in tree:
        if name != npath[0]:
            out.append([name, n])
            continue
        if len(npath) == 1:
            r = fn(dict(n))
            if r is not None:
                out.append([name, r])
        else:
            m = dict(n)
            m["t"] = edit(n["t"], npath[1:], fn)
            out.append([name, m])
    return out


def flip_top(tree):
    """the tree that describes `Signature(tree).flip()`: flow of every top-level member reversed"""
    return [[name, dict(n, f=_flip(n["f"]))] for name, n in tree]


def orient(tree, want, flipped=False, path=()):
    """same structure and same signature-member flows, port flows chosen so that the effective direction of the port
    member at name path p is want(p) ('o'/'i')"""
    out = []
    for name, n in tree:
        p = (*path, name)
        if n["k"] == "p":
            w = want(p)
            # declared flow f gives effective direction f ^ flipped
            f = w if not flipped else _flip(w)
            out.append([name, dict(n, f=f)])
        else:
            out.append([name, dict(n, t=orient(n["t"], want, flipped ^ (n["f"] == "i"), p))])
    return out


def port_dirs(tree, flipped=False, path=()):
    """{name path of port member: effective direction}"""
    out = {}
    for name, n in tree:
        ef = flipped ^ (n["f"] == "i")
        if n["k"] == "p":
            out[(*path, name)] = "i" if ef else "o"
        else:
            out.update(port_dirs(n["t"], ef, (*path, name)))
    return out


def name_path(p):
    return tuple(x for x in p if isinstance(x, str))


def has_sub_array(tree):
    return any(n["k"] == "s" and (n["d"] or has_sub_array(n["t"])) for _, n in tree)


def nontrivial(tree):
    """a tree is non-trivial when effective directions / paths are not those of a flat list of scalar ports"""
    return any(n["k"] == "s" or n["d"] for _, n in tree)


def depth(tree):
    return 1 + max([depth(n["t"]) for _, n in tree if n["k"] == "s"], default=0) if tree else 0


def metadata(tree, flipped=False):
    """expected ComponentMetadata.as_json() of a component with this signature"""
    def member(n, path, fl):
        if n["k"] == "p":
            w, sg, iv = shape_info(n["s"], n["i"])
            return {"type": "port", "name": "__".join(str(x) for x in path), "dir": "in" if fl else "out",
                    "width": w, "signed": sg, "init": str(iv)}
        return {"type": "interface", "members": members(n["t"], path, fl), "annotations": {}}

    def dims(n, d, path, fl):
        if not d:
            return member(n, path, fl)
        return [dims(n, d[1:], (*path, i), fl) for i in range(d[0])]

    def members(tree, path, fl):
        return {name: dims(n, list(n["d"]), (*path, name), fl ^ (n["f"] == "i")) for name, n in tree}
    return {"interface": {"members": members(tree, (), flipped), "annotations": {}}}


# ------------------------------------------------------------------------------------------------ enumeration
def _assign_attrs(tree, start):
    """give the port members (in order) successive (shape, init) attributes starting at ATTRS[start]"""
    k = [start]

    def go(t):
        out = []
        for name, n in t:
            if n["k"] == "p":
                s, i = ATTRS[k[0] % len(ATTRS)]
                k[0] += 1
                out.append([name, dict(n, s=s, i=i)])
            else:
                out.append([name, dict(n, t=go(n["t"]))])
        return out
    return go(tree)


def _members(levels, lvl, only_sub=False):
    """all member nodes (without attrs) allowed at level lvl; levels[lvl] = dict(pd=port dims, sd=sub dims, maxm=..,
    max_sub=.., empty=bool)"""
    cfg = levels[lvl]
    out = []
    if not only_sub:
        for f in "oi":
            for d in cfg["pd"]:
                out.append({"k": "p", "f": f, "d": list(d)})
    if lvl + 1 < len(levels):
        subs = _trees(levels, lvl + 1)
        for f in "oi":
            for d in cfg["sd"]:
                for t in subs:
                    out.append({"k": "s", "f": f, "d": list(d), "t": t})
    return out


def _trees(levels, lvl):
    cfg = levels[lvl]
    ms = _members(levels, lvl, only_sub=cfg.get("only_sub", False))
    out = []
    if cfg.get("empty", False):
        out.append([])
    for m in ms:
        out.append([["a", m]])
    if cfg["maxm"] >= 2:
        n = 0
        for i in range(len(ms)):
            for j in range(i, len(ms)):
                if (ms[i]["k"] == "s") + (ms[j]["k"] == "s") > cfg.get("max_sub", 2):
                    continue
                if "pair_pd" in cfg and any(m["k"] == "p" and tuple(m["d"]) not in cfg["pair_pd"] for m in (ms[i], ms[j])):
                    continue
                # unordered member pairs; which one is called "a" and which is inserted first alternates, so that
                # insertion order != sorted order is exercised
                x, y = (ms[i], ms[j]) if n % 2 == 0 else (ms[j], ms[i])
                out.append([["a", x], ["b", y]] if (n // 2) % 2 == 0 else [["b", x], ["a", y]])
                n += 1
    return out


def structural_family(levels):
    """every tree allowed by `levels`, port attributes assigned by rotation"""
    return [_assign_attrs(t, i) for i, t in enumerate(_trees(levels, 0))]


def attribute_family(dims, pair_dims):
    """flat signatures of 1..2 port members and one-port sub-signature chains over the FULL port alphabet
    flow x dims x shape x init (pairs: dims restricted to pair_dims)"""
    ports = [{"k": "p", "f": f, "d": list(d), "s": s, "i": i} for f in "oi" for d in dims for (s, i) in ATTRS]
    out = [[["a", p]] for p in ports]
    pp = [p for p in ports if tuple(p["d"]) in [tuple(d) for d in pair_dims]]
    for i in range(len(pp)):
        for j in range(i, len(pp)):
            out.append([["a", pp[i]], ["b", pp[j]]])
    for f in "oi":
        for d in dims:
            for p in ports:
                out.append([["a", {"k": "s", "f": f, "d": list(d), "t": [["x", p]]}]])
    return out


def subflip(tree):
    """flow of every signature member (at every level) reversed; port flows untouched"""
    return [[name, dict(n, f=_flip(n["f"]), t=subflip(n["t"])) if n["k"] == "s" else n] for name, n in tree]


def reorder(tree):
    """same description, members declared in the opposite order at every level"""
    return [[name, dict(n, t=reorder(n["t"])) if n["k"] == "s" else n] for name, n in reversed(tree)]


# ------------------------------------------------------------------------------------------------ JSON schema subset
class SchemaError(Exception):
    pass


def validate_json(inst, schema, root=None, where="$"):
    """Minimal JSON Schema (2020-12 subset) validator, enough for the published component metadata schema.
    Returns a list of error strings. Unknown keywords raise SchemaError (so they cannot be silently ignored)."""
    import re
    root = schema if root is None else root
    errs = []
    known = {"$schema", "$id", "$defs", "$ref", "oneOf", "type", "const", "enum", "pattern", "minimum", "properties",
             "patternProperties", "additionalProperties", "required", "items"}
    for k in schema:
        if k not in known:
            raise SchemaError(f"unsupported schema keyword {k!r}")
    if "$ref" in schema:
        ref = schema["$ref"]
        if not ref.startswith("#/"):
            raise SchemaError(f"unsupported $ref {ref!r}")
        tgt = root
        for part in ref[2:].split("/"):
            tgt = tgt[part]
        errs += validate_json(inst, tgt, root, where)
    if "oneOf" in schema:
        n = sum(1 for s in schema["oneOf"] if not validate_json(inst, s, root, where))
        if n != 1:
            errs.append(f"{where}: matches {n} of oneOf")
    if "type" in schema:
        t = schema["type"]
        ok = {"object": isinstance(inst, dict), "array": isinstance(inst, list), "string": isinstance(inst, str),
              "integer": isinstance(inst, int) and not isinstance(inst, bool), "boolean": isinstance(inst, bool)}
        if t not in ok:
            raise SchemaError(f"unsupported type {t!r}")
        if not ok[t]:
            errs.append(f"{where}: not of type {t}")
    if "const" in schema and not (inst == schema["const"] and type(inst) is type(schema["const"])):
        errs.append(f"{where}: not the constant {schema['const']!r}")
    if "enum" in schema and inst not in schema["enum"]:
        errs.append(f"{where}: not in {schema['enum']!r}")
    if "pattern" in schema and isinstance(inst, str) and not re.search(schema["pattern"], inst):
        errs.append(f"{where}: does not match {schema['pattern']!r}")
    if "minimum" in schema and isinstance(inst, int) and not isinstance(inst, bool) and inst < schema["minimum"]:
        errs.append(f"{where}: below minimum")
    if isinstance(inst, dict):
        for r in schema.get("required", []):
            if r not in inst:
                errs.append(f"{where}: missing {r!r}")
        for k, v in inst.items():
            matched = False
            if k in schema.get("properties", {}):
                matched = True
                errs += validate_json(v, schema["properties"][k], root, f"{where}.{k}")
            for pat, s in schema.get("patternProperties", {}).items():
                if re.search(pat, k):
                    matched = True
                    errs += validate_json(v, s, root, f"{where}.{k}")
            if not matched and "additionalProperties" in schema:
                ap = schema["additionalProperties"]
                if ap is False:
                    errs.append(f"{where}: additional property {k!r}")
                elif isinstance(ap, dict):
                    errs += validate_json(v, ap, root, f"{where}.{k}")
    if isinstance(inst, list) and "items" in schema:
        for i, v in enumerate(inst):
            errs += validate_json(v, schema["items"], root, f"{where}[{i}]")
    return errs


# ------------------------------------------------------------------------------------------------ zero-width leaves
def zero_width_family():
    """signatures of 1..2 members (<= 1 signature member; nested ones with 1..2 ports) and doubly nested one-port chains in
    which each port member in turn is a zero-width port unsigned(0) (with/without array dims, at top level, nested,
    In-flipped), the other ports taking the usual signed/unsigned shapes by rotation"""
    d2 = [(), (2,)]
    fams = [
        [dict(pd=d2, sd=d2, maxm=2, max_sub=1, pair_pd=[()]), dict(pd=d2, sd=[], maxm=2, pair_pd=[()])],
        [dict(pd=d2, sd=d2, maxm=1, only_sub=True), dict(pd=d2, sd=[()], maxm=1, only_sub=True), dict(pd=d2, sd=[], maxm=1)],
    ]
    out = []
    for levels in fams:
        for i, t in enumerate(_trees(levels, 0)):
            t = _assign_attrs(t, i)
            for np_ in node_paths(t):
                if get_node(t, np_)["k"] == "p":
                    out.append(edit(t, np_, lambda n: dict(n, s="u0", i=0)))
    return out


# facts of the published component metadata schema (https://amaranth-lang.org/schema/amaranth/0.5/component.json),
# written down from the published document: (json pointer into the schema, expected value)
SCHEMA_FACTS = [
    (("required",), ["interface"]),
    (("properties", "interface", "required"), ["members", "annotations"]),
    (("$defs", "member-port", "required"), ["type", "name", "dir", "width", "signed", "init"]),
    (("$defs", "member-port", "additionalProperties"), False),
    (("$defs", "member-port", "properties", "type"), {"const": "port"}),
    (("$defs", "member-port", "properties", "dir"), {"enum": ["in", "out"]}),
    (("$defs", "member-port", "properties", "width"), {"type": "integer", "minimum": 0}),
    (("$defs", "member-port", "properties", "signed"), {"type": "boolean"}),
    (("$defs", "member-port", "properties", "init"), {"type": "string", "pattern": "^[+-]?[0-9]+$"}),
    (("$defs", "member-port", "properties", "name"), {"type": "string", "pattern": "^[A-Za-z][A-Za-z0-9_]*$"}),
    (("$defs", "member-interface", "required"), ["type", "members", "annotations"]),
    (("$defs", "member-interface", "properties", "type"), {"const": "interface"}),
    (("$defs", "member-array", "type"), "array"),
]


def schema_fact_errors(schema):
    errs = []
    for ptr, want in SCHEMA_FACTS:
        cur = schema
        try:
            for k in ptr:
                cur = cur[k]
        except (KeyError, TypeError):
            errs.append(("/".join(ptr), "missing", want))
            continue
        got = sorted(cur) if isinstance(want, list) and isinstance(cur, list) else cur
        if got != (sorted(want) if isinstance(want, list) else want):
            errs.append(("/".join(ptr), cur, want))
    return errs
