"""C06 generators: exhaustive driver placements / dependency graphs, their realisation styles (as model terms) and the
builders that turn a case into a real amaranth design.  The expected outcome is never computed here (see ref/c06_model)."""
import itertools

from ..ref import c06_model as M

# ================================================================ part (a): driver placement
MODULES = ("top", "child", "grand", "sib")          # grand is a child of child, sib a second child of top
DOMAINS = ("comb", "d1", "d2")
NONLOGIC = (("inst", "top"), ("inst", "child"), ("iob", "top"), ("mem", "child"))


def driver_options(widths):
    """every single driver: [kind, module, domain, sig, mask]"""
    out = []
    for sig, w in enumerate(widths):
        for mask in range(1, 1 << w):
            for mod in MODULES:
                for dom in DOMAINS:
                    out.append(("L", mod, dom, sig, mask))
            for kind, mod in NONLOGIC:
                if kind == "mem" and mask != (1 << w) - 1:
                    continue                         # a memory read port drives the whole of its data signal
                out.append((kind, mod, None, sig, mask))
    return out


def _ok_combo(combo):
    mems = [d[3] for d in combo if d[0] == "mem"]
    return len(mems) == len(set(mems))               # one public read port per data signal


def driver_cases(widths, max_ordered, max_multiset):
    """all ordered driver tuples of length <= max_ordered plus all multisets of length max_ordered+1..max_multiset"""
    opts = driver_options(widths)
    for n in range(1, max_ordered + 1):
        for combo in itertools.product(opts, repeat=n):
            if _ok_combo(combo):
                yield combo
    for n in range(max_ordered + 1, max_multiset + 1):
        for combo in itertools.combinations_with_replacement(opts, n):
            if _ok_combo(combo):
                yield combo


def drv_variants(combo, all_styles):
    """(frontend, style) variants of one placement.  style: 0 plain, 1 under `If`, 2 under `Switch/Case`, 3 `bit-wise
    Cat target` (every bit of the mask is a separate element of a concatenation on the left-hand side)."""
    out = [("dsl", 0)]
    logic = [d for d in combo if d[0] == "L"]
    if logic and all_styles:
        out += [("dsl", 1), ("dsl", 2), ("dsl", 3)]
    if logic:
        out.append(("frag", 0))
    return out


def drv_sig(case):
    ds = ",".join(f"{k}@{m}" + (f".{d}" if d else "") + f":s{s}m{mask:o}" for k, m, d, s, mask in case["drivers"])
    return f"drv:{case['frontend']}{case['style']}:w{''.join(map(str, case['widths']))}:[{ds}]"


def build_drv(case):
    """-> (elaboratable_or_fragment, ports).  May raise the DSL's statement-time SyntaxError (caller classifies)."""
    from amaranth.hdl import Module, Signal, ClockDomain, Fragment, Instance, IOBufferInstance, IOPort, Cat
    from amaranth.lib.memory import Memory
    widths, drivers, style = case["widths"], [tuple(d) for d in case["drivers"]], case["style"]
    dsl = case["frontend"] == "dsl"
    xin = Signal(4, name="xin")
    en = Signal(1, name="en")
    sel = Signal(2, name="sel")
    ports = [xin, en, sel]
    mems = {}
    sigs = []
    for i, w in enumerate(widths):
        if any(d[0] == "mem" and d[3] == i for d in drivers):
            mem = Memory(shape=w, depth=2, init=[])
            rp = mem.read_port(domain="comb")
            mems[i] = (mem, rp)
            sigs.append(rp.data)
            ports.append(rp.addr)
        else:
            sigs.append(Signal(w, name=f"s{i}"))
    used = {d[1] for d in drivers}
    if "grand" in used:
        used.add("child")
    used.add("top")
    mods = {name: (Module() if dsl else Fragment()) for name in MODULES if name in used}
    cds = [ClockDomain("d1"), ClockDomain("d2")]
    top = mods["top"]
    if dsl:
        top.domains += cds
    else:
        top.add_domains(*cds)

    def target(sig, mask, bitwise):
        s = sigs[sig]
        bits = [b for b in range(len(s)) if mask >> b & 1]
        if not bitwise and bits == list(range(bits[0], bits[-1] + 1)):
            return s if len(bits) == len(s) else s[bits[0]:bits[-1] + 1]
        return Cat(*[s[b] for b in bits])
    n_anon = 0
    for idx, (kind, mod, dom, sig, mask) in enumerate(drivers):
        m = mods[mod]
        lhs = target(sig, mask, style == 3)
        if kind == "L":
            stmt = lhs.eq(xin[:len(lhs)])
            if not dsl:
                m.add_statements(dom, stmt)
            elif style in (0, 3):
                m.d[dom] += stmt
            elif style == 1:
                with m.If(en):
                    m.d[dom] += stmt
            else:
                with m.Switch(sel):
                    with m.Case(1):
                        m.d[dom] += stmt
        else:
            if kind == "inst":
                sub = Instance("prim", i_a=xin, o_q=lhs)
            elif kind == "iob":
                ioport = IOPort(len(lhs), name=f"pad{idx}")
                ports.append(ioport)
                sub = IOBufferInstance(ioport, i=lhs)
            else:
                sub = mems[sig][0]
            if dsl:
                setattr(m.submodules, f"u{idx}", sub)
            else:
                m.add_subfragment(Fragment.get(sub, None), f"u{idx}")
    # hierarchy last, so that the statement-time check of the DSL has seen every assignment first
    for name, parent in (("grand", "child"), ("child", "top"), ("sib", "top")):
        if name in mods:
            if dsl:
                setattr(mods[parent].submodules, name, mods[name])
            else:
                mods[parent].add_subfragment(mods[name], name)
    return top, ports + [s for i, s in enumerate(sigs)]


# ================================================================ part (a'): placements under inserters / renamers
WR_DOMAINS = ("sync", "d1", "d2")
_CTL_SETS = ("value", ["d1"], ["sync", "d1"], ["d1", "d2"], ["d2", "sync"], ["sync", "d1", "d2"])
_RENAMES_APART = ("d3", {"d1": "d3"}, {"d1": "d2", "d2": "d1"}, {"sync": "d1", "d1": "sync"})
_RENAMES_MERGE = ({"d1": "d2"}, {"sync": "d1"}, {"d2": "sync", "d1": "sync"}, {"d2": "d1", "sync": "d3"})
WR_CHAINS = ([[["R", c]] for c in _CTL_SETS] + [[["E", c]] for c in _CTL_SETS] +
             [[["D", d]] for d in _RENAMES_APART + _RENAMES_MERGE] +
             [[["E", ["d1", "d2"]], ["R", ["sync", "d1", "d2"]]],          # innermost first
              [["R", ["d1", "d2"]], ["E", ["sync", "d2"]]],
              [["R", ["d1", "d2"]], ["D", {"d1": "d2"}]],                  # reset inserted on the old names, then merged
              [["D", {"d1": "d2"}], ["R", ["d2", "sync"]]],                # merged, then reset on the new name
              [["E", ["d1", "d2"]], ["D", {"d1": "d2", "d2": "d1"}]],
              [["D", {"d1": "d2"}], ["D", {"d2": "d3"}]],                  # d1 -> d2 -> d3 and d2 -> d3: merged
              [["D", {"d2": "d3"}], ["D", {"d1": "d2"}]],                  # d2 -> d3, then d1 -> d2: kept apart
              [["R", ["d1", "d2"]], ["R", ["d2", "sync"]]]])


def wr_placements(widths):
    """2 drivers: every ordered pair; 3 drivers: every multiset; logic in top / child, domains sync / d1 / d2, every bit
    subset of every signal; at least two different domains"""
    opts = [("L", mod, dom, sig, mask) for sig, w in enumerate(widths) for mask in range(1, 1 << w)
            for mod in ("top", "child") for dom in WR_DOMAINS]
    for combo in itertools.product(opts, repeat=2):
        if len({d[2] for d in combo}) >= 2:
            yield combo
    for combo in itertools.combinations_with_replacement(opts, 3):
        if len({d[2] for d in combo}) >= 2:
            yield combo


def wr_cases(widths):
    for combo in wr_placements(widths):
        drivers = [list(d) for d in combo]
        mods = {d[1] for d in combo}
        base = {"part": "wr", "widths": list(widths), "drivers": drivers}
        dsl_early = M.driver_truth(dict(base, frontend="dsl")) == "SyntaxError"
        frontends = ["dsl"] + (["frag"] if (len(combo) == 2 or dsl_early) else [])
        for fe in frontends:
            yield dict(base, frontend=fe, wrap=None)
            if fe == "dsl" and dsl_early:
                continue                           # rejected while the design is written; no wrapper is ever applied
            for pos in ("top", "child"):
                if pos == "child" and "child" not in mods:
                    continue                       # nothing inside the wrapped subtree
                for chain in WR_CHAINS:
                    if fe == "frag" and len(combo) == 3 and not any(k == "D" for k, a in chain):
                        continue                   # raw-Fragment triples exist for the renamers (a merge can legalise them)
                    yield dict(base, frontend=fe, wrap={"pos": pos, "chain": chain})


def wr_sig(case):
    ds = ",".join(f"{m}.{d}:s{s}m{mask:o}" for k, m, d, s, mask in case["drivers"])
    w = case.get("wrap")
    if not w:
        ws = "plain"
    else:
        def one(k, a):
            if k == "D":
                return "D(" + (a if isinstance(a, str) else ",".join(f"{x}>{y}" for x, y in a.items())) + ")"
            return k + "(" + (a if isinstance(a, str) else ",".join(a)) + ")"
        ws = w["pos"] + ":" + "<".join(one(k, a) for k, a in reversed(w["chain"]))      # outermost first
    return f"wr:{case['frontend']}:w{''.join(map(str, case['widths']))}:[{ds}]:{ws}"


def build_wr(case):
    """root (defines the clock domains) > top > child.  May raise the DSL's statement-time SyntaxError."""
    from amaranth.hdl import Module, Signal, ClockDomain, Fragment, ResetInserter, EnableInserter, DomainRenamer
    dsl = case["frontend"] == "dsl"
    sigs = [Signal(w, name=f"s{i}") for i, w in enumerate(case["widths"])]
    xin = Signal(4, name="xin")
    ports = [xin] + sigs
    ctl = {}

    def wrapper(kind, arg):
        if kind == "D":
            return DomainRenamer(arg)
        cls = ResetInserter if kind == "R" else EnableInserter
        if arg == "value":
            c = Signal(1, name=f"ctl{len(ctl)}")
            ctl[len(ctl)] = c
            ports.append(c)
            return cls(c)
        cs = {}
        for d in arg:
            cs[d] = Signal(1, name=f"ctl{len(ctl)}_{d}")
            ctl[len(ctl)] = cs[d]
            ports.append(cs[d])
        return cls(cs)

    def wrap(obj, pos):
        w = case.get("wrap")
        if w and w["pos"] == pos:
            for kind, arg in w["chain"]:
                obj = wrapper(kind, arg)(obj)
        return obj
    new = (lambda: Module()) if dsl else (lambda: Fragment())
    root, top, child = new(), new(), new()
    cds = [ClockDomain(n) for n in ("sync", "d1", "d2", "d3")]
    if dsl:
        root.domains += cds
    else:
        root.add_domains(*cds)
    use_child = any(d[1] == "child" for d in case["drivers"])
    for kind, mod, dom, sig, mask in case["drivers"]:
        m = top if mod == "top" else child
        s = sigs[sig]
        bits = [b for b in range(len(s)) if mask >> b & 1]
        if bits == list(range(bits[0], bits[-1] + 1)):
            lhs = s if len(bits) == len(s) else s[bits[0]:bits[-1] + 1]
        else:
            from amaranth.hdl import Cat
            lhs = Cat(*[s[b] for b in bits])
        stmt = lhs.eq(xin[:len(lhs)])
        if dsl:
            m.d[dom] += stmt
        else:
            m.add_statements(dom, stmt)
    if use_child:
        if dsl:
            top.submodules.child = wrap(child, "child")
        else:
            top.add_subfragment(wrap(child, "child"), "child")
    if dsl:
        root.submodules.top = wrap(top, "top")
    else:
        root.add_subfragment(wrap(top, "top"), "top")
    return root, ports


# ================================================================ part (b): dependency graphs
def all_edges(n):
    return [(u, v) for u in range(n) for v in range(n)]          # (u, v): v depends on u; self loops included


def graphs(n, max_edges):
    es = all_edges(n)
    for k in range(0, min(max_edges, len(es)) + 1):
        for g in itertools.combinations(es, k):
            yield g


PB_OPS = ("or", "and", "xnor", "muxd", "muxs", "catsl", "add_hi", "add_lo", "sub", "mul", "div", "mod", "eq", "ne", "lt", "ge",
          "shl_amt", "shl_data", "shr_amt", "shr_data", "bsel_off", "bsel_val", "neg", "bool", "any", "all", "rxor",
          "arr_idx", "arr_elem", "amem", "if", "ifn", "sw", "dflt", "else", "ifd")
W_OPS = ("or", "and", "xor", "not", "cat", "muxd", "if", "ext")
WS_OPS = ("add_b", "sub_b", "mul_b", "div_b", "shl_amt_b", "shr_data_b", "bsel_b", "neg_b", "eq_b", "arr_idx_b", "amem_b",
          "muxs_b", "add_w", "shl_amt_w", "bsel_w", "neg_w", "mul_w", "sw", "if", "lbsel", "larr")
BIT_PRECISE_STYLES = {"pb_or", "pb_and", "pb_xnor", "pb_muxd", "pb_catsl", "pb_ifd", "pb_arr_elem"} | {"w_" + o for o in W_OPS}


def styles(n):
    out = ["pb_" + o for o in PB_OPS] + ["w_" + o for o in W_OPS] + ["ws_" + o for o in WS_OPS]
    out += ["pb_or@h", "pb_if@h", "pb_add_hi@h", "w_or@h", "ws_add_b@h", "ws_sw@h"]
    out += [f"pb_or@r{k}" for k in range(n)] + ["pb_or@rall", "pb_add_hi@r0", "pb_if@r0", "w_cat@rs0", "ws_add_b@r0", "ws_add_w@rs0"]
    return out


# ---- "ov" family: drivers of the form [unconditional whole-signal default ; conditional and/or partial override]
VALUE_OPS = tuple(o for o in PB_OPS if o not in ("if", "ifn", "sw", "dflt", "else", "ifd"))
OV_CONDS = ("if", "sw", "nest", "else", "u")          # u = unconditional (then the override is partial, or replaces the default)
OV_COVERS = ("full", "b0", "hi", "last")
OV_FORMS = tuple(c + v for c in OV_CONDS for v in OV_COVERS)
OV_FORMS_SMALL = ("ifb0", "iffull", "uhi", "nestlast")
OV_FORMS_MID = ("ifb0", "iffull", "swhi", "nestlast", "elseb0", "ub0", "uhi", "ulast")
OV_ROLES = ("d", "v", "c", "m0", "m1", "m2", "e", "p")
OV_OPS3 = ("or", "add_hi", "muxs")


def _ov_ok(role, form):
    # the dependency sits in the override condition for role c (and for some signal of the mixed roles): needs a condition
    return not (form.startswith("u") and role in ("c", "m0", "m1", "m2"))


def ov_styles(level):
    """level 'A' (tiny graphs: every edge kind), 'B' (larger graphs, chains: three edge kinds), 'T' (thorough: everything)"""
    out = []

    def add(role, form, op):
        st = f"ov_{role}_{form}_{op}"
        if _ov_ok(role, form) and st not in seen:
            seen.add(st)
            out.append(st)
    seen = set()
    if level == "A":
        for op in VALUE_OPS:
            for role in ("d", "v", "c"):
                for form in OV_FORMS_SMALL + ("swhi",):
                    add(role, form, op)
            for role in ("e", "p"):
                for form in ("ifb0", "uhi", "ufull"):
                    add(role, form, op)
            add("d", "ufull", op)
        for op in OV_OPS3:
            for role in OV_ROLES:
                for form in OV_FORMS:
                    add(role, form, op)
    elif level == "B":
        for op in OV_OPS3:
            for role in OV_ROLES:
                for form in OV_FORMS_MID + ("ufull",):
                    add(role, form, op)
    else:
        for op in VALUE_OPS:
            for role in OV_ROLES:
                for form in OV_FORMS:
                    add(role, form, op)
    return out


def _fold(op, ts):
    t = ts[0]
    for u in ts[1:]:
        t = (op, t, u)
    return t


def pb_term(op, pred_nodes, v):
    """one-bit realisation of `bit v depends on pred_nodes` with the edge kind `op` -> (conds, rhs term)"""
    P = [("n", p) for p in pred_nodes]
    C = ("cat",) + tuple(P)
    k = len(P)
    x0, x1 = ("x", v % 4), ("x", (v + 1) % 4)
    conds = []
    if op in ("or", "and"):
        rhs = _fold(op, P + [x0])
    elif op == "xnor":
        rhs = ("not", _fold("xor", P + [x0]))
    elif op == "muxd":
        rhs = ("x", 7)
        for j, p in enumerate(P):
            rhs = ("mux", ("x", j % 4), p, rhs)
    elif op == "muxs":
        rhs = ("mux", C, x0, x1)
    elif op == "catsl":
        cat = ("cat", x0) + tuple(P) + (x1,)
        rhs = _fold("or", [("sl", cat, 1 + j, 2 + j) for j in range(k)])
    elif op == "add_hi":
        rhs = ("sl", ("add", C, ("c", 1, 1)), k, k + 1)
    elif op == "add_lo":
        rhs = ("sl", ("add", C, ("c", 1, 1)), 0, 1)
    elif op == "sub":
        rhs = ("sl", ("sub", C, ("xw", 1)), 0, 1)
    elif op == "mul":
        rhs = ("sl", ("mul", C, ("xw", 2)), 1, 2)
    elif op == "div":
        rhs = ("sl", ("div", ("xw", 3), C), 2, 3)
    elif op == "mod":
        rhs = ("sl", ("mod", ("xw", 3), C), 0, 1)
    elif op == "eq":
        rhs = ("eq", C, ("xw", k))
    elif op == "ne":
        rhs = ("ne", C, ("c", 1, k))
    elif op == "lt":
        rhs = ("lt", C, ("xw", k))
    elif op == "ge":
        rhs = ("ge", ("xw", k), C)
    elif op == "shl_amt":
        rhs = ("sl", ("shl", ("xw", 2), C), 1, 2)
    elif op == "shl_data":
        rhs = ("sl", ("shl", C, ("xw", 1)), k, k + 1)
    elif op == "shr_amt":
        rhs = ("sl", ("shr", ("xw", 3), C), 0, 1)
    elif op == "shr_data":
        rhs = ("sl", ("shr", C, ("xw", 1)), k - 1, k)
    elif op == "bsel_off":
        rhs = ("bsel", ("xw", 4), C, 1)
    elif op == "bsel_val":
        rhs = ("bsel", C, ("xw", 2), 1)
    elif op == "neg":
        rhs = ("sl", ("neg", C), k, k + 1)
    elif op in ("bool", "any", "all", "rxor"):
        rhs = (op, C)
    elif op == "arr_idx":
        rhs = ("arr", C, ("x", 0), ("x", 1), ("x", 2))
    elif op == "arr_elem":
        rhs = ("arr", ("xw", 3)) + tuple(P) + (x0,)
    elif op == "amem":
        rhs = ("amem", C, 1)
    elif op == "if":
        conds, rhs = [("if", C)], x0
    elif op == "ifn":
        conds, rhs = [("if", p) for p in P], x0
    elif op == "sw":
        conds, rhs = [("case", C, (1 << k) - 1)], x0
    elif op == "dflt":
        conds, rhs = [("default", C)], x0
    elif op == "else":
        conds, rhs = [("else", C)], x0
    elif op == "ifd":
        conds, rhs = [("if", x1)], _fold("or", P + [x0])
    else:
        raise ValueError(op)
    return conds, rhs


def make_groups(layout, edges, style):
    """-> list of statement groups {mod, dom, conds, assigns:[(lhs, rhs)]} realising the graph in the given style"""
    base, _, var = style.partition("@")
    fam, _, op = base.partition("_")
    n = sum(layout)
    node_sb = [(s, b) for s, w in enumerate(layout) for b in range(w)]
    sig_nodes = [[v for v in range(n) if node_sb[v][0] == s] for s in range(len(layout))]
    preds = {v: sorted({u for (u, vv) in edges if vv == v}) for v in range(n)}
    sync_nodes = set()
    if var.startswith("rs"):
        sync_nodes = set(sig_nodes[int(var[2:])]) if int(var[2:]) < len(layout) else set()
    elif var == "rall":
        sync_nodes = set(range(n))
    elif var.startswith("r"):
        sync_nodes = {int(var[1:])}
    groups = []

    def dom(v):
        return "sync" if v in sync_nodes else "comb"

    def group(d, conds, assigns):
        groups.append({"mod": "top", "dom": d, "conds": conds, "assigns": assigns})

    if fam == "pb":
        for v in range(n):
            if not preds[v]:
                continue
            conds, rhs = pb_term(op, preds[v], v)
            group(dom(v), conds, [(("bits", [v]), rhs)])
    elif fam == "w":
        for s, nodes in enumerate(sig_nodes):
            w = len(nodes)
            kmax = max(len(preds[v]) for v in nodes)
            if kmax == 0:
                continue
            cols = []
            for j in range(kmax):
                cols.append(("cat",) + tuple(("n", preds[v][j]) if j < len(preds[v]) else ("x", (i + j) % 4)
                                             for i, v in enumerate(nodes)))
            lhs = ("bits", list(nodes))
            d = dom(nodes[0])
            if op in ("or", "and", "xor"):
                group(d, [], [(lhs, _fold(op, [("xw", w)] + cols))])
            elif op == "not":
                group(d, [], [(lhs, ("not", _fold("or", cols)))])
            elif op == "cat":
                group(d, [], [(lhs, _fold("or", cols))])
            elif op == "muxd":
                rhs = ("xw", w)
                for j, col in enumerate(cols):
                    rhs = ("mux", ("x", j % 4), col, rhs)
                group(d, [], [(lhs, rhs)])
            elif op == "if":
                for j, col in enumerate(cols):
                    group(d, [("if", ("x", j % 4))], [(lhs, col)])
            elif op == "ext":
                if w == 1:
                    group(d, [], [(lhs, _fold("or", [("xw", w)] + cols))])
                else:
                    rest = _fold("or", cols[1:] + [("xw", w)])
                    group(d, [], [(lhs, ("or", cols[0], ("sl", rest, 0, w - 1)))])
            else:
                raise ValueError(style)
    elif fam == "ws":
        for s, nodes in enumerate(sig_nodes):
            G = [v for v in nodes if preds[v]]
            U = sorted({u for v in G for u in preds[v]})
            if not G:
                continue
            C = ("cat",) + tuple(("n", u) for u in U)
            k, g = len(U), len(G)
            d = dom(nodes[0]) if var.startswith("rs") else None
            kind, form = (op.rsplit("_", 1) + [None])[:2] if op.endswith(("_b", "_w")) else (op, None)
            if form is not None:
                if kind == "add":
                    E = ("add", C, ("c", 1, 1))
                elif kind == "sub":
                    E = ("sub", C, ("xw", k))
                elif kind == "mul":
                    E = ("mul", C, ("xw", 2))
                elif kind == "div":
                    E = ("div", ("cat", C, ("xw", 1)), ("xw", 2))
                elif kind == "shl_amt":
                    E = ("shl", ("xw", 2), C)
                elif kind == "shr_data":
                    E = ("shr", C, ("xw", 1))
                elif kind == "bsel":
                    E = ("bsel", ("xw", 4), C, g)
                elif kind == "neg":
                    E = ("neg", C)
                elif kind == "eq":
                    E = ("eq", C, ("xw", k))
                elif kind == "arr_idx":
                    E = ("arr", C, ("xw", g), ("sl", ("xw", 8), 1, 1 + g))
                elif kind == "amem":
                    E = ("amem", C, g)
                elif kind == "muxs":
                    E = ("mux", C, ("xw", g), ("sl", ("xw", 8), 2, 2 + g))
                else:
                    raise ValueError(style)
                we = M.width(E)
                if form == "w":
                    group(d or dom(G[0]), [], [(("bits", list(G)), E)])
                else:
                    for i, v in enumerate(G):
                        j = (we - 1 - i) % we              # high bits first: the carry-out side of the operator
                        group(d or dom(v), [], [(("bits", [v]), ("sl", E, j, j + 1))])
            elif op in ("sw", "if"):
                cond = ("case", C, 0) if op == "sw" else ("if", C)
                for dd in ("comb", "sync"):
                    a = [(("bits", [v]), ("x", i % 4)) for i, v in enumerate(G) if (d or dom(v)) == dd]
                    if a:
                        group(dd, [cond], a)
            elif op == "lbsel":
                group(d or "comb", [], [(("bsel", s, C), ("x", 0))])
            elif op == "larr":
                group(d or "comb", [], [(("arr", list(G), C), ("x", 0))])
            else:
                raise ValueError(style)
    elif fam == "ov":
        role, form, vop = op.split("_", 2)
        cond_kind = next(c for c in OV_CONDS if form.startswith(c))
        cover_kind = form[len(cond_kind):]
        for s, nodes in enumerate(sig_nodes):
            w = len(nodes)
            if not any(preds[v] for v in nodes):
                continue
            r = role if role[0] != "m" else "dvc"[(s + int(role[1])) % 3]
            idx = {"full": list(range(w)), "b0": [0], "hi": list(range(1, w)) or [0], "last": [w - 1]}[cover_kind]
            cover = [nodes[i] for i in idx]
            tv = {v: (pb_term(vop, preds[v], v)[1] if preds[v] else ("x", v % 4)) for v in nodes}
            d_dep = ("cat",) + tuple(tv[v] for v in nodes)
            d_in = ("sl", ("xw", 8), min(4, 8 - w), min(4, 8 - w) + w)
            o_in = ("sl", ("xw", 8), 2, 2 + len(cover))
            ct = ("x", 6)
            if r in ("d", "e", "p"):
                default, oval = d_dep, o_in
            elif r == "v":
                default, oval = d_in, ("cat",) + tuple(tv[v] for v in cover)
            else:
                default, oval = d_in, o_in
                up = sorted({u for v in cover for u in preds[v]})
                if up:
                    ct = pb_term(vop, up, cover[0])[1]
            conds = {"if": [("if", ct)], "sw": [("case", ct, 1)], "nest": [("if", ("x", 5)), ("if", ct)],
                     "else": [("else", ct)], "u": []}[cond_kind]
            whole = ("bits", list(nodes))
            group("comb", [], [(whole, default)])
            if r == "p":
                group("comb", [], [(whole, d_in)])          # replaces the default before anything conditional follows
            group("comb", conds, [(("bits", cover), oval)])
            if r == "e":
                group("comb", [], [(whole, d_in)])          # unconditional whole-signal assignment after the override
    else:
        raise ValueError(style)
    if var == "h":
        for i, gr in enumerate(groups):
            gr["mod"] = ("top", "child", "sib")[i % 3]
    return groups


def flat_stmts(groups):
    return [{"dom": g["dom"], "conds": [c[1] for c in g["conds"]], "lhs": lhs, "rhs": rhs}
            for g in groups for lhs, rhs in g["assigns"]]


def dep_truth(layout, groups):
    """-> (graphs dict of ref.c06_model.node_graphs, verdict, witness cycle)
    verdict 'CombinationalCycle': a bit reaches itself even when dead assignments are ignored;
            'ok': no bit reaches itself once the indisputably dead assignments are ignored;
            'either': a bit reaches itself only through an assignment that a later unconditional assignment makes
                      unobservable, but which is not part of a leading run of unconditional whole-signal assignments (the
                      statement does not say whether such a structural loop counts)"""
    node_sb = [(s, b) for s, w in enumerate(layout) for b in range(w)]
    node_of = {sb: v for v, sb in enumerate(node_sb)}
    gs = M.node_graphs(flat_stmts(groups), list(layout), node_of)
    cyc = M.find_cycle(gs["sem"])
    if cyc is not None:
        return gs, "CombinationalCycle", cyc
    if M.find_cycle(gs["claim"]) is None:
        return gs, "ok", None
    return gs, "either", None


# ---- "ps" family: run-time part selects of every shape, one window bit or the whole window fed back into the value
PS_SHAPES = (("b", 1), ("b", 2), ("b", 3), ("w", 1), ("w", 2))
PS_SRCS = ("all", "lo", "hi")            # value = a, a[:L-1], a[1:]
PS_OFFS = ("in", "a")                    # offset = free input, or the low bits of the looping signal itself
PS_VIAS = ("direct", "via")              # value taken from a, or from b with b.eq(a)


def ps_cases():
    for kind, w in PS_SHAPES:
        for L in (3, 4, 5, 6):
            for signed in (False, True):
                for ow in (1, 2, 3):
                    for src in PS_SRCS:
                        for offsrc in PS_OFFS:
                            for via in PS_VIAS:
                                for take in list(range(w)) + [-1]:
                                    tw = w if take < 0 else 1
                                    for t in range(0, L - tw + 1):
                                        yield {"part": "ps", "kind": kind, "w": w, "L": L, "signed": signed, "ow": ow, "src": src,
                                               "offsrc": offsrc, "via": via, "take": take, "t": t}


def ps_sig(c):
    return (f"ps:{c['kind']}sel{c['w']}:L{c['L']}{'s' if c['signed'] else 'u'}:ow{c['ow']}:val={c['src']}:off={c['offsrc']}:"
            f"{c['via']}:take{'W' if c['take'] < 0 else c['take']}:t{c['t']}")


def ps_groups(c):
    """-> (layout, groups): a[t(:t+w)].eq(value.bit_select/word_select(offset, w)[take])"""
    L, w = c["L"], c["w"]
    via = c["via"] == "via"
    layout = (L, L) if via else (L,)
    a = list(range(L))
    groups = []
    srcn = a
    if via:
        b = list(range(L, 2 * L))
        groups.append({"mod": "top", "dom": "comb", "conds": [], "assigns": [(("bits", b), ("cat",) + tuple(("n", v) for v in a))]})
        srcn = b
    srcn = {"all": srcn, "lo": srcn[:L - 1], "hi": srcn[1:]}[c["src"]]
    value = ("cat",) + tuple(("n", v) for v in srcn)
    offset = ("xw", c["ow"]) if c["offsrc"] == "in" else ("cat",) + tuple(("n", v) for v in a[:c["ow"]])
    P = ("psel", c["kind"], value, bool(c["signed"]), offset, w)
    if c["take"] < 0:
        lhs, rhs = ("bits", a[c["t"]:c["t"] + w]), P
    else:
        lhs, rhs = ("bits", [a[c["t"]]]), ("sl", P, c["take"], c["take"] + 1)
    groups.append({"mod": "top", "dom": "comb", "conds": [], "assigns": [(lhs, rhs)]})
    return layout, groups


def ps_truth(layout, groups):
    """-> (graphs, verdict).  'CombinationalCycle' iff a bit reaches itself in the per-bit (precise) graph; 'ok' iff no bit
    reaches itself even in the coarse word-level graph; 'either' in between (a loop that exists only under the coarse
    reading of the part select -- unmodified amaranth reports it, the statement does not demand it)."""
    node_sb = [(s, b) for s, w in enumerate(layout) for b in range(w)]
    node_of = {sb: v for v, sb in enumerate(node_sb)}
    st = flat_stmts(groups)
    gs = {m: M.node_graph(st, list(layout), node_of, m) for m in ("word", "precise", "stridew")}
    if M.find_cycle(gs["precise"]) is not None:
        return gs, "CombinationalCycle"
    if M.find_cycle(gs["word"]) is None:
        return gs, "ok"
    return gs, "either"


# ---- "iob" family: loops through a bidirectional I/O buffer (i[k] samples the pad that o[k] drives while oe is high)
IOB_OPS = ("wire", "not", "and")


def iob_cases():
    for W in (1, 2):
        srcs = ["x"] + list(range(W))                    # free input, or bit k of the buffer's own i
        for o_src in itertools.product(srcs, repeat=W):
            for oe_src in srcs:
                for op in IOB_OPS:
                    for via in ("direct", "via"):
                        yield {"part": "iob", "W": W, "o": list(o_src), "oe": oe_src, "op": op, "via": via, "dir": "io"}
        yield {"part": "iob", "W": W, "o": ["x"] * W, "oe": "x", "op": "wire", "via": "direct", "dir": "i"}


def iob_sig(c):
    return f"iob:{c['dir']}{c['W']}:o=[{','.join(map(str, c['o']))}]:oe={c['oe']}:{c['op']}:{c['via']}"


def iob_truth(c):
    """per-bit reference: i[k] <- o[k], oe (bidirectional buffer only); o[j] / oe <- the i bit they are computed from"""
    g = {}
    for k in range(c["W"]):
        d = set()
        if c["dir"] == "io":
            if c["o"][k] != "x":
                d.add(c["o"][k])
            if c["oe"] != "x":
                d.add(c["oe"])
        g[k] = frozenset(d)
    return g, ("CombinationalCycle" if M.find_cycle(g) is not None else "ok")


def build_iob(c):
    from amaranth.hdl import Module, Signal, IOPort, IOBufferInstance
    W = c["W"]
    m = Module()
    port = IOPort(W, name="pad")
    i = Signal(W, name="i")
    xin = Signal(4, name="xin")
    ports = [port, xin]
    if c["dir"] == "i":
        m.submodules.buf = IOBufferInstance(port, i=i)
        return m, ports + [i]
    src = i
    if c["via"] == "via":
        src = Signal(W, name="t")
        m.d.comb += src.eq(i)
    o = Signal(W, name="o")
    oe = Signal(1, name="oe")

    def f(s, j):
        v = xin[j] if s == "x" else src[s]
        return {"wire": v, "not": ~v, "and": v & xin[2 + j % 2]}[c["op"]]
    for j in range(W):
        m.d.comb += o[j].eq(f(c["o"][j], j))
    m.d.comb += oe.eq(f(c["oe"], W))
    m.submodules.buf = IOBufferInstance(port, i=i, o=o, oe=oe)
    return m, ports


def dep_sig(case):
    es = " ".join(f"{u}>{v}" for u, v in case["edges"])
    return f"dep:{case['style']}:L{''.join(map(str, case['layout']))}:[{es}]"


class WidthMismatch(Exception):
    pass


def build_dep(layout, groups):
    """-> (Module, ports).  Raises WidthMismatch if the model's width rules disagree with amaranth (harness error)."""
    from amaranth.hdl import Module, Signal, ClockDomain, Cat, Const, Mux, Array
    from amaranth.lib.memory import Memory
    node_sb = [(s, b) for s, w in enumerate(layout) for b in range(w)]
    sigs = [Signal(w, name=f"s{i}") for i, w in enumerate(layout)]
    xin = Signal(M.XIN_WIDTH, name="xin")
    memo = {}
    wmemo = {}
    extras = []          # (memory, read port, address value)
    dummies = []

    def val(t):
        if t in memo:
            return memo[t]
        k = t[0]
        if k == "n":
            s, b = node_sb[t[1]]
            r = sigs[s][b]
        elif k == "x":
            r = xin[t[1]]
        elif k == "xw":
            r = xin[:t[1]]
        elif k == "c":
            r = Const(t[1], t[2])
        elif k == "cat":
            r = Cat(*[val(p) for p in t[1:]])
        elif k == "sl":
            r = val(t[1])[t[2]:t[3]]
        elif k == "not":
            r = ~val(t[1])
        elif k == "and":
            r = val(t[1]) & val(t[2])
        elif k == "or":
            r = val(t[1]) | val(t[2])
        elif k == "xor":
            r = val(t[1]) ^ val(t[2])
        elif k == "mux":
            r = Mux(val(t[1]), val(t[2]), val(t[3]))
        elif k == "add":
            r = val(t[1]) + val(t[2])
        elif k == "sub":
            r = val(t[1]) - val(t[2])
        elif k == "mul":
            r = val(t[1]) * val(t[2])
        elif k == "div":
            r = val(t[1]) // val(t[2])
        elif k == "mod":
            r = val(t[1]) % val(t[2])
        elif k == "eq":
            r = val(t[1]) == val(t[2])
        elif k == "ne":
            r = val(t[1]) != val(t[2])
        elif k == "lt":
            r = val(t[1]) < val(t[2])
        elif k == "ge":
            r = val(t[1]) >= val(t[2])
        elif k == "shl":
            r = val(t[1]) << val(t[2])
        elif k == "shr":
            r = val(t[1]) >> val(t[2])
        elif k == "neg":
            r = -val(t[1])
        elif k == "bool":
            r = val(t[1]).bool()
        elif k == "any":
            r = val(t[1]).any()
        elif k == "all":
            r = val(t[1]).all()
        elif k == "rxor":
            r = val(t[1]).xor()
        elif k == "bsel":
            r = val(t[1]).bit_select(val(t[2]), t[3])
        elif k == "arr":
            r = Array([val(e) for e in t[2:]])[val(t[1])]
        elif k == "psel":
            v = val(t[2])
            if t[3]:
                v = v.as_signed()
            r = v.bit_select(val(t[4]), t[5]) if t[1] == "b" else v.word_select(val(t[4]), t[5])
        elif k == "amem":
            addr = val(t[1])
            mem = Memory(shape=t[2], depth=1 << len(addr), init=[])
            rp = mem.read_port(domain="comb")
            extras.append((mem, rp, addr))
            r = rp.data
        else:
            raise ValueError(t)
        if len(r) != M.width(t, wmemo):
            raise WidthMismatch(f"{t!r}: amaranth width {len(r)}, model width {M.width(t, wmemo)}")
        memo[t] = r
        return r

    def lhs_val(lhs):
        if lhs[0] == "bits":
            sb = [node_sb[v] for v in lhs[1]]
            s0, b0 = sb[0]
            if all(s == s0 and b == b0 + i for i, (s, b) in enumerate(sb)):
                return sigs[s0] if len(sb) == len(sigs[s0]) else sigs[s0][b0:b0 + len(sb)]
            return Cat(*[sigs[s][b] for s, b in sb])
        if lhs[0] == "bsel":
            return sigs[lhs[1]].bit_select(val(lhs[2]), 1)
        if lhs[0] == "arr":
            return Array([sigs[node_sb[v][0]][node_sb[v][1]] for v in lhs[1]])[val(lhs[2])]
        raise ValueError(lhs)

    mods = {"top": Module()}
    for g in groups:
        if g["mod"] not in mods:
            mods[g["mod"]] = Module()
    if any(g["dom"] == "sync" for g in groups):
        mods["top"].domains.sync = ClockDomain("sync")

    def dummy():
        d = Signal(1, name=f"dummy{len(dummies)}")
        dummies.append(d)
        return d

    def emit(m, dom, conds, assigns):
        if not conds:
            m.d[dom] += [lhs_val(l).eq(val(r)) for l, r in assigns]
            return
        c, rest = conds[0], conds[1:]
        if c[0] == "if":
            with m.If(val(c[1])):
                emit(m, dom, rest, assigns)
        elif c[0] == "else":
            with m.If(val(c[1])):
                m.d.comb += dummy().eq(xin[5])
            with m.Else():
                emit(m, dom, rest, assigns)
        elif c[0] == "case":
            with m.Switch(val(c[1])):
                with m.Case(c[2]):
                    emit(m, dom, rest, assigns)
        elif c[0] == "default":
            with m.Switch(val(c[1])):
                with m.Case(0):
                    m.d.comb += dummy().eq(xin[5])
                with m.Default():
                    emit(m, dom, rest, assigns)
        else:
            raise ValueError(c)

    for g in groups:
        emit(mods[g["mod"]], g["dom"], g["conds"], g["assigns"])
    top = mods["top"]
    for i, (mem, rp, addr) in enumerate(extras):
        setattr(top.submodules, f"mem{i}", mem)
        top.d.comb += rp.addr.eq(addr)
    for name, m in mods.items():
        if name != "top":
            setattr(top.submodules, name, m)
    return top, [xin] + sigs + dummies
