"""C15 bounded-exhaustive generator of layout terms (see vf/ref/c15_layout.py for the term language).

Every family below is a complete product inside its stated bounds; nothing is sampled. MAXSIZE bounds the
total size of a layout in bits so that *all* bit patterns of the underlying value can be enumerated."""
import itertools

from ..ref.c15_layout import width, is_leaf

MAXSIZE = 8

CORE = [("u", 1), ("u", 2), ("s", 2), ("E", "EU"), ("E", "ES")]
EXTRA = [("u", 0), ("s", 1), ("u", 3), ("s", 3), ("E", "EP"), ("E", "IE"), ("E", "IS"), ("E", "FL")]
ALL = CORE + EXTRA
FLEXLEAF = [("u", 1), ("u", 2), ("s", 2), ("E", "EU"), ("E", "ES")]


def _ok(t):
    return width(t) <= MAXSIZE


def depth1(leaves, maxfields, kinds=("struct", "union")):
    for n in range(0, maxfields + 1):
        for combo in itertools.product(leaves, repeat=n):
            for k in kinds:
                yield (k, combo)


def arrays(elems, maxlen):
    for e in elems:
        for n in range(0, maxlen + 1):
            yield ("array", e, n)


def flex1(leaves, maxoff, pads=(0, 1)):
    """flexible layouts with 1 or 2 leaf fields at every offset 0..maxoff (gaps and overlaps included);
    first key is a string, second key an integer; `pad` unused bits above the highest field"""
    for a in leaves:
        for oa in range(maxoff + 1):
            for pad in pads:
                yield ("flex", oa + width(a) + pad, (("a", a, oa),))
    for a in leaves:
        for b in leaves:
            for oa in range(maxoff + 1):
                for ob in range(maxoff + 1):
                    for pad in pads:
                        size = max(oa + width(a), ob + width(b)) + pad
                        yield ("flex", size, (("a", a, oa), (0, b, ob)))


def nested_set(quick):
    u1, u2, s2, eu, es = CORE
    base = [
        ("struct", (u1, s2)), ("struct", (es, u1)), ("union", (u1, s2)), ("union", (eu, ("s", 3))),
        ("array", u1, 2), ("array", s2, 2), ("array", eu, 2),
        ("flex", 4, (("a", u1, 0), (0, s2, 2))),          # gap at bit 1
        ("flex", 3, (("a", s2, 0), (0, u2, 1))),          # overlap at bit 1
        ("scls", (u1, s2)), ("ucls", (u2, ("s", 1))),
    ]
    if quick:
        return base
    more = [("struct", (a, b)) for a in CORE for b in CORE] + [("union", (a, b)) for a in CORE for b in CORE if a < b]
    more += [("array", e, n) for e in ALL for n in (1, 2, 3) if width(e) * n <= 6]
    more += [("scls", (a, b)) for a in (u1, s2, eu) for b in (u2, s2, es)] + [("ucls", (a, b)) for a in (u1, s2) for b in (u2, es)]
    more += [("struct", ()), ("union", ()), ("array", u2, 0), ("scls", (s2,)), ("struct", (u1, u1, s2))]
    out = list(base)
    for t in more:
        if t not in out:
            out.append(t)
    return out


def depth2(quick):
    N = nested_set(quick)
    pool = CORE + N
    for kind in ("struct", "union"):
        for a in pool:
            for b in pool:
                if is_leaf(a) and is_leaf(b):
                    continue
                yield (kind, (a, b))
    # three fields, exactly the quick nested set (both tiers) with one or more nested members
    small = CORE[:3] + nested_set(True)
    if not quick:
        for kind in ("struct", "union"):
            for combo in itertools.product(small, repeat=3):
                if all(is_leaf(x) for x in combo):
                    continue
                yield (kind, combo)
    for e in N:
        for n in range(1, 4 if quick else 5):
            yield ("array", e, n)
    for e in N:
        for off in (0, 1):
            for b in FLEXLEAF[:3]:
                for ob in (0, 2):
                    size = max(off + width(e), ob + width(b))
                    yield ("flex", size, (("n", e, off), (1, b, ob)))
    # annotated classes directly at the top, and holding nested members
    cpool = CORE + nested_set(True)
    for kind in ("scls", "ucls"):
        for a in cpool:
            for b in cpool:
                if quick and not (is_leaf(a) or is_leaf(b)):
                    continue
                yield (kind, (a, b))


def terms(quick):
    seen, out = set(), []

    def push(it):
        for t in it:
            if _ok(t) and t not in seen:
                seen.add(t)
                out.append(t)
    if quick:
        push(depth1(CORE, 3))
        push(depth1(ALL, 2))
        push(arrays(ALL, 4))
        push(flex1(FLEXLEAF[:4], 2, pads=(0, 1)))
        push(flex1([("E", "ES")], 1, pads=(0,)))
    else:
        push(depth1(CORE, 4))
        push(depth1(ALL, 3))
        push(arrays(ALL, 8))
        push(flex1(FLEXLEAF, 3, pads=(0, 1)))
        push(flex1(EXTRA, 1, pads=(0,)))
    push(depth1(CORE[:3], 2, kinds=("scls", "ucls")))
    push(depth2(quick))
    return out
