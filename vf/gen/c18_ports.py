"""C18 helper: build real amaranth.lib.io ports from reference terms, and observe which wires they denote."""


def make_bases(bases, default_kind="sim"):
    """bases: list of [width, mask, dir] or [width, mask, dir, kind] -> list of port objects"""
    from amaranth.hdl import IOPort
    from amaranth.lib import io
    objs = []
    for k, b in enumerate(bases):
        w, mask, d = b[:3]
        kind = b[3] if len(b) > 3 else default_kind
        inv = tuple(bool((mask >> j) & 1) for j in range(w))
        if kind == "sim":
            objs.append(io.SimulationPort(d, w, invert=inv, name=f"b{k}"))
        elif kind == "se":
            objs.append(io.SingleEndedPort(IOPort(w, name=f"b{k}"), invert=inv, direction=d))
        elif kind == "diff":
            objs.append(io.DifferentialPort(IOPort(w, name=f"b{k}p"), IOPort(w, name=f"b{k}n"), invert=inv, direction=d))
        else:
            raise ValueError(kind)
    return objs


def build(term, objs):
    op = term[0]
    if op == "b":
        return objs[term[1]]
    if op == "inv":
        return ~build(term[1], objs)
    if op == "idx":
        return build(term[1], objs)[term[2]]
    if op == "sl":
        return build(term[1], objs)[term[2]:term[3]:term[4]]
    if op == "add":
        return build(term[1], objs) + build(term[2], objs)
    raise ValueError(term)


def value_bits(v):
    """Value made of Signal / Slice / Cat -> list of (id(signal), bit)"""
    from amaranth.hdl import Signal
    from amaranth.hdl._ast import Slice, Concat
    if isinstance(v, Signal):
        return [(id(v), j) for j in range(len(v))]
    if isinstance(v, Slice):
        return value_bits(v.value)[v.start:v.stop]
    if isinstance(v, Concat):
        out = []
        for p in v.parts:
            out += value_bits(p)
        return out
    raise TypeError(f"unexpected node {v!r} in a simulation port member")


def io_bits(v):
    """IOValue made of IOPort / IOSlice / IOConcat -> list of (id(ioport), bit)"""
    from amaranth.hdl import IOPort
    from amaranth.hdl._ast import IOSlice, IOConcat
    if isinstance(v, IOPort):
        return [(id(v), j) for j in range(len(v))]
    if isinstance(v, IOSlice):
        return io_bits(v.value)[v.start:v.stop]
    if isinstance(v, IOConcat):
        out = []
        for p in v.parts:
            out += io_bits(p)
        return out
    raise TypeError(f"unexpected node {v!r} in a port")


def wire_index(objs):
    """id(wire object) -> (base index, member)"""
    from amaranth.lib import io
    idx = {}
    for k, o in enumerate(objs):
        if isinstance(o, io.SimulationPort):
            for mem in ("i", "o", "oe"):
                s = getattr(o, "_" + mem)
                if s is not None:
                    idx[id(s)] = (k, mem)
        elif isinstance(o, io.SingleEndedPort):
            idx[id(o.io)] = (k, "io")
        else:
            idx[id(o.p)] = (k, "p")
            idx[id(o.n)] = (k, "n")
    return idx


def observe(port, objs, widx=None):
    """-> dict describing a port object through its public attributes:
    kind, len, dir, invert (list of bool), members {name: [(base, bit)] or None when absent}"""
    from amaranth.lib import io
    widx = widx if widx is not None else wire_index(objs)
    out = {"len": len(port), "dir": port.direction.value, "invert": list(port.invert)}

    def named(bits, member):
        res = []
        for sid, j in bits:
            k, mem = widx[sid]
            if mem != member:
                raise AssertionError(f"member {member} is built from base member {mem}")
            res.append((k, j))
        return res
    if isinstance(port, io.SimulationPort):
        out["kind"] = "sim"
        mem = {}
        for name in ("i", "o", "oe"):
            try:
                v = getattr(port, name)
            except AttributeError:
                mem[name] = None
            else:
                mem[name] = named(value_bits(v), name)
        out["members"] = mem
    elif isinstance(port, io.SingleEndedPort):
        out["kind"] = "se"
        out["members"] = {"io": named(io_bits(port.io), "io")}
    elif isinstance(port, io.DifferentialPort):
        out["kind"] = "diff"
        out["members"] = {"p": named(io_bits(port.p), "p"), "n": named(io_bits(port.n), "n")}
    else:
        out["kind"] = type(port).__name__
        out["members"] = {}
    return out


def expected_observation(kind, pdir, bits):
    wires = [(b, j) for b, j, _inv in bits]
    out = {"kind": kind, "len": len(bits), "dir": pdir, "invert": [inv for _b, _j, inv in bits]}
    if kind == "sim":
        out["members"] = {"i": wires if pdir in ("i", "io") else None,
                          "o": wires if pdir in ("o", "io") else None,
                          "oe": wires if pdir in ("o", "io") else None}
    elif kind == "se":
        out["members"] = {"io": wires}
    else:
        out["members"] = {"p": wires, "n": wires}
    return out
