"""Expression-term enumeration and construction through the *public* operator API only."""
import itertools

from ..ref import expr as R


def build(t, sigs):
    """term -> amaranth Value. sigs: {i: Signal}"""
    from amaranth.hdl import Const, Cat, Mux, Array, Shape
    k = t[0]
    if k == "s":
        return sigs[t[1]]
    if k == "c":
        return Const(t[1], Shape(t[2], t[3]))
    if k == "u":
        x = build(t[2], sigs)
        op = t[1]
        if op == "neg":
            return -x
        if op == "pos":
            return +x
        if op == "inv":
            return ~x
        if op == "abs":
            return abs(x)
        return getattr(x, op)()
    if k == "b":
        x, y = build(t[2], sigs), build(t[3], sigs)
        op = t[1]
        if op == "+": return x + y
        if op == "-": return x - y
        if op == "*": return x * y
        if op == "//": return x // y
        if op == "%": return x % y
        if op == "&": return x & y
        if op == "|": return x | y
        if op == "^": return x ^ y
        if op == "==": return x == y
        if op == "!=": return x != y
        if op == "<": return x < y
        if op == "<=": return x <= y
        if op == ">": return x > y
        if op == ">=": return x >= y
        if op == "<<": return x << y
        if op == ">>": return x >> y
        raise ValueError(op)
    if k == "shl":
        return build(t[1], sigs).shift_left(t[2])
    if k == "shr":
        return build(t[1], sigs).shift_right(t[2])
    if k == "rol":
        return build(t[1], sigs).rotate_left(t[2])
    if k == "ror":
        return build(t[1], sigs).rotate_right(t[2])
    if k == "idx":
        return build(t[1], sigs)[t[2]]
    if k == "slice":
        return build(t[1], sigs)[t[2]:t[3]:t[4]]
    if k == "cat":
        return Cat(*[build(p, sigs) for p in t[1:]])
    if k == "rep":
        return build(t[1], sigs).replicate(t[2])
    if k in ("bsel", "wsel"):
        x = build(t[1], sigs)
        off = t[2][1] if t[2][0] == "k" else build(t[2], sigs)
        return x.bit_select(off, t[3]) if k == "bsel" else x.word_select(off, t[3])
    if k == "match":
        return build(t[1], sigs).matches(*t[2:])
    if k == "mux":
        return Mux(build(t[1], sigs), build(t[2], sigs), build(t[3], sigs))
    if k == "arr":
        # cast explicitly: operators applied to the proxy itself are forwarded to the *elements*
        from amaranth.hdl import Value
        return Value.cast(Array([build(e, sigs) for e in t[2:]])[build(t[1], sigs)])
    if k == "arrp":
        return Array([build(e, sigs) for e in t[2:]])[build(t[1], sigs)]
    raise ValueError(t)


def proxy_terms(shape_quad, W):
    """every single-operator form with an UNCAST array proxy as the main / second / selector operand (Python-level dispatch between
    Value operators and the proxy's reflected operators), plus element-wise indexing and slicing of the proxy"""
    a, b, c, d = (sig_leaf(i, sh) for i, sh in enumerate(shape_quad))
    zw, zsg = shape_quad[2]
    if zsg or zw not in (1, 2):
        return
    P = ("arrp", c, a, b) if zw == 1 else ("arrp", c, a, b, b, a)
    seen = set()
    for t in forms1(P, d, d, W, rich=False):
        if t not in seen and try_shape(t) is not None:
            seen.add(t)
            yield t
    for t in forms1(d, P, P, W, rich=False):
        if t not in seen and try_shape(t) is not None and "arrp" in repr(t):
            seen.add(t)
            yield t
    for op in BINARY:
        t = ("b", op, P, ("arrp", c, b, a) if zw == 1 else ("arrp", c, b, a, a, b))
        if try_shape(t) is not None:
            yield t
    for t in (("cat", P, d), ("cat", d, P), ("mux", d, P, a), ("mux", d, a, P), ("bsel", d, P, 1), ("wsel", d, P, 1)):
        if t not in seen and try_shape(t) is not None:
            yield t


def shapes(W):
    return [(w, False) for w in range(0, W + 1)] + [(w, True) for w in range(1, W + 1)]


def consts(W):
    out = []
    for w, sg in shapes(W):
        for v in R.values_of(w, sg):
            out.append(("c", v, w, sg))
    return out


UNARY = ["neg", "inv", "bool", "any", "all", "xor", "as_signed", "as_unsigned", "abs", "pos"]
BINARY = ["+", "-", "*", "//", "%", "&", "|", "^", "==", "!=", "<", "<=", ">", ">=", "<<", ">>"]


def width_of(t):
    """static width / signedness of a term (reference shape) -- uses a dummy env of zeros"""
    lv = R.leaves(t)
    env = {i: 0 for i in lv}
    v, w, sg = R.ev(t, env)
    return w, sg


def forms1(x, y, z, W, rich=True):
    """all single-operator terms over operand terms x (main), y (second), z (third, used as selector/offset).
    Yields terms; invalid ones (R.Invalid) are filtered by the caller through try_shape."""
    for op in UNARY:
        yield ("u", op, x)
    for op in BINARY:
        yield ("b", op, x, y)
    xw, xsg = width_of(x)
    ks = range(-xw - 1, xw + 2) if rich else (-1, 0, 1, xw)
    for k in ks:
        yield ("shl", x, k)
        yield ("shr", x, k)
        yield ("rol", x, k)
        yield ("ror", x, k)
    for i in range(-xw, xw):
        yield ("idx", x, i)
    bounds = [None] + list(range(-xw - 1, xw + 2))
    seen = set()
    for i in bounds:
        for j in bounds:
            for st in ((None, -1, 2, -2) if rich else (None, -1)):
                key = tuple(range(xw)[slice(i, j, st)])
                if (key, st is None) in seen and not (i is None or j is None):
                    continue          # same selected bits through equivalent in-range subscripts
                seen.add((key, st is None))
                yield ("slice", x, i, j, st)
    yield ("cat",)
    yield ("cat", x)
    yield ("cat", x, y)
    yield ("cat", y, x, z)
    for n in (0, 1, 2, 3) if rich else (0, 2):
        yield ("rep", x, n)
    for width in range(0, xw + 2):
        yield ("bsel", x, y, width)
        yield ("wsel", x, y, width)
        for off in range(0, xw + 2):
            yield ("bsel", x, ("k", off), width)
            if width:
                yield ("wsel", x, ("k", off), width)
    # patterns
    if xw <= 3:
        vals = list(R.values_of(xw, xsg)) if (xw or not xsg) else []
        for v in vals:
            yield ("match", x, v)
        if len(vals) >= 2:
            yield ("match", x, vals[0], vals[-1])
        for pat in itertools.product("01-", repeat=xw):
            yield ("match", x, "".join(pat))
        if xw >= 2:
            yield ("match", x, "1" + "-" * (xw - 1), "0" * xw)
        yield ("match", x)
    yield ("mux", z, x, y)
    yield ("mux", x, y, z)
    zw, zsg = width_of(z)
    if not zsg and zw == 1:
        yield ("arr", z, x, y)
        yield ("arr", z, y, x)
    if not zsg and zw == 2:
        yield ("arr", z, x, y, x, y)


def try_shape(t):
    try:
        return width_of(t)
    except R.Invalid:
        return None
    except Exception:
        return None


def sig_leaf(i, sh):
    return ("s", i, sh[0], sh[1])


def depth1_terms(shape_triple, W):
    a, b, c = (sig_leaf(i, sh) for i, sh in enumerate(shape_triple))
    for t in forms1(a, b, c, W):
        if try_shape(t) is not None:
            yield t


REINTERP = None


def depth2_terms(shape_triple, W, inner_rich=False, outer_rich=False):
    """op2(op1(a, b | c), c) and op2(c, op1(a, b)) for every operator pair."""
    a, b, c = (sig_leaf(i, sh) for i, sh in enumerate(shape_triple))
    seen = set()
    for inner in forms1(a, b, c, W, rich=inner_rich):
        sh = try_shape(inner)
        if sh is None or sh[0] > 6:
            continue
        for outer in forms1(inner, c, b, W, rich=outer_rich):
            if outer not in seen and try_shape(outer) is not None:
                seen.add(outer)
                yield outer
        for op in BINARY:
            outer = ("b", op, c, inner)
            if try_shape(outer) is not None:
                yield outer
        for width in (1, 2):
            for k in ("bsel", "wsel"):
                outer = (k, c, inner, width)
                if try_shape(outer) is not None:
                    yield outer


def const_leaf_terms(W):
    """depth-1 terms where one operand is a constant (every value) -- constants take different code paths"""
    for sh in shapes(W):
        a = sig_leaf(0, sh)
        for cst in consts(min(W, 2)):
            for op in BINARY:
                for t in (("b", op, a, cst), ("b", op, cst, a)):
                    if try_shape(t) is not None:
                        yield t
            for t in (("mux", a, cst, a), ("mux", cst, a, a), ("cat", cst, a), ("bsel", cst, a, 2), ("wsel", cst, a, 1),
                      ("bsel", a, cst, 1), ("wsel", a, cst, 2)):
                if try_shape(t) is not None:
                    yield t


def const_inner_terms(shape_pair, W, full=True):
    """two-operator terms whose INNER node mixes a signal with a constant (zero / one extension, constant masks, constant
    shift amounts...): back ends special-case constant nets (trimming, folding), so every consumer must see them"""
    a, b = (sig_leaf(i, sh) for i, sh in enumerate(shape_pair))
    inners = []
    csts = [("c", 0, 1, False), ("c", 0, 2, False), ("c", 1, 1, False), ("c", 3, 2, False), ("c", -1, 1, True), ("c", -2, 2, True), ("c", 0, 0, False)]
    if not full:
        csts = [("c", 0, 2, False), ("c", 1, 1, False), ("c", -1, 1, True)]
    for cst in csts:
        inners += [("cat", a, cst), ("cat", cst, a), ("b", "&", a, cst), ("b", "|", a, cst), ("b", "+", a, cst), ("b", "*", a, cst),
                   ("b", "<<", a, cst) if not cst[3] else ("b", "^", a, cst), ("b", ">>", cst, a) if not a[3] else ("b", "-", cst, a),
                   ("mux", a, cst, b), ("mux", cst, a, b), ("b", "==", a, cst), ("bsel", cst, a, 2) if not a[3] else ("b", "<", cst, a)]
    seen = set()
    for inner in inners:
        sh = try_shape(inner)
        if sh is None or sh[0] > 6:
            continue
        for outer in forms1(inner, b, a, W, rich=False):
            if outer not in seen and try_shape(outer) is not None:
                seen.add(outer)
                yield outer
        for op in BINARY:
            outer = ("b", op, b, inner)
            if outer not in seen and try_shape(outer) is not None:
                seen.add(outer)
                yield outer
