"""C19 generator: bounded-exhaustive families of platform tables (json-able specs) and of request actions,
plus the builder that turns a spec into amaranth.build objects (the only place that touches the DSL).

Pool: 4 physical pins. Connector chain used for connector-relative names (depth 1..3):
    ca_0 = "A2 - A0 A3 A1"                       (positional string form with a gap, pins numbered from 1)
    cb_1 = {p:3, q:1, r:5, s:4}  on ca_0         (dict form, chained)
    cc_2 = "q s p r"             on cb_1         (string form, chained twice)
"""
import itertools

PINS = ["A0", "A1", "A2", "A3"]
CONNECTORS = [
    {"name": "ca", "number": 0, "io": "A2 - A0 A3 A1", "conn": None},
    {"name": "cb", "number": 1, "io": {"p": "3", "q": "1", "r": "5", "s": "4"}, "conn": ["ca", 0]},
    {"name": "cc", "number": 2, "io": "q s p r", "conn": ["cb", 1]},
]
# written out by hand (not computed from CONNECTORS) so that the two can be cross-checked in the self test
VIA = {
    1: (["ca", 0], {"A2": "1", "A0": "3", "A3": "4", "A1": "5"}),
    2: (["cb", 1], {"A0": "p", "A2": "q", "A1": "r", "A3": "s"}),
    3: (["cc", 2], {"A2": "1", "A3": "2", "A0": "3", "A1": "4"}),
}
# declared clocks: whole, fractional and sub-MHz frequencies, and periods that are no whole number of MHz
CLOCKS = [25, 12.5, 33.333, 24, 0.032768, 100, 7.3728, 133.33, {"hz": 32768}, {"hz": 1e6 / 3}, {"khz": 455},
          {"ns": 41.667}, {"ns": 83.333}, {"ns": 30.3}, {"ps": 7519}, {"us": 3.9}, 1, 0.999999, 48.000001]
NPINS = {"P1": 1, "P2": 2, "D1": 2, "G11": 2, "G12": 3, "G1D": 3, "N": 3}
SHAPES = list(NPINS)


def pin_names(phys, levels):
    """names + conn argument for a Pins over physical pins `phys` referenced at connector depth levels[i]"""
    if len(set(levels)) == 1 and levels[0] > 0:
        conn, inv = VIA[levels[0]]
        return [inv[p] for p in phys], conn                    # Pins("1 3", conn=("ca", 0)) form
    names = []
    for p, lv in zip(phys, levels):
        if lv == 0:
            names.append(p)
        else:
            conn, inv = VIA[lv]
            names.append(f"{conn[0]}_{conn[1]}:{inv[p]}")         # raw "ca_0:3" form, may be mixed with plain names
    return names, None


def leaf_pins(phys, levels, d, inv=False, clock=None, attrs=None):
    names, conn = pin_names(phys, levels)
    return {"kind": "pins", "names": names, "conn": conn, "dir": d, "invert": inv, "clock_mhz": clock, "attrs": attrs}


def leaf_diff(p, n, levels, d, inv=False, clock=None, attrs=None):
    lv = [levels[0]] * len(p)              # one conn argument serves both halves of a DiffPairs
    pn, conn = pin_names(p, lv)
    nn, conn2 = pin_names(n, lv)
    return {"kind": "diff", "p": pn, "n": nn, "conn": conn, "dir": d, "invert": inv, "clock_mhz": clock, "attrs": attrs}


def group(subs, attrs=None):
    return {"kind": "group", "subs": [{"name": n, "node": x} for n, x in subs], "attrs": attrs}


def make_node(shape, phys, deco):
    """deco: dirs (per leaf), invs (per leaf), levels (per pin), clock (leaf index or None, MHz), attrs variant"""
    dirs, invs, lv = deco["dirs"], deco["invs"], deco["levels"]
    ck = deco.get("clock")                  # (leaf index, mhz) or None
    av = deco.get("attrs", "none")
    top_attrs = None
    sub_attrs = [None, None, None]
    if av == "res":
        top_attrs = {"IO_TYPE": "LVCMOS33"}
    elif av == "sub":
        top_attrs = {"IO_TYPE": "LVCMOS33"}
        sub_attrs = [{"IO_TYPE": "LVCMOS18"}, {"DRIVE": "4"}, None]
    elif av == "unset":           # None = "remove this attribute"; first key on plain resources, last key + subsignal level on groups
        top_attrs = {"PULLMODE": None, "IO_TYPE": "LVCMOS33"} if shape in ("P1", "P2", "D1") else {"IO_TYPE": "LVCMOS33", "PULLMODE": None}
        sub_attrs = [{"IO_TYPE": None}, None, None]
    elif av == "call":
        top_attrs = {"IO_TYPE": {"call": "LVCMOS25"}}

    def clock_of(i):
        return ck[1] if ck and ck[0] == i else None

    if shape == "P1":
        node = leaf_pins(phys[:1], lv[:1], dirs[0], invs[0], clock_of(0))
    elif shape == "P2":
        node = leaf_pins(phys[:2], lv[:2], dirs[0], invs[0], clock_of(0))
    elif shape == "D1":
        node = leaf_diff(phys[:1], phys[1:2], lv[:1], dirs[0], invs[0], clock_of(0))
    elif shape == "G11":
        node = group([("a", leaf_pins(phys[:1], lv[:1], dirs[0], invs[0], clock_of(0), sub_attrs[0])),
                      ("b", leaf_pins(phys[1:2], lv[1:2], dirs[1], invs[1], clock_of(1), sub_attrs[1]))])
    elif shape == "G12":
        node = group([("a", leaf_pins(phys[:1], lv[:1], dirs[0], invs[0], clock_of(0), sub_attrs[0])),
                      ("b", leaf_pins(phys[1:3], lv[1:3], dirs[1], invs[1], clock_of(1), sub_attrs[1]))])
    elif shape == "G1D":
        node = group([("a", leaf_pins(phys[:1], lv[:1], dirs[0], invs[0], clock_of(0), sub_attrs[0])),
                      ("b", leaf_diff(phys[1:2], phys[2:3], lv[1:2], dirs[1], invs[1], clock_of(1), sub_attrs[1]))])
    elif shape == "N":
        inner = group([("x", leaf_pins(phys[:1], lv[:1], dirs[0], invs[0], clock_of(0), sub_attrs[0])),
                       ("y", leaf_pins(phys[1:2], lv[1:2], dirs[1], invs[1], clock_of(1)))], sub_attrs[1])
        node = group([("a", inner), ("b", leaf_pins(phys[2:3], lv[2:3], dirs[2 % len(dirs)], invs[2 % len(invs)], clock_of(2)))])
    else:
        raise ValueError(shape)
    if top_attrs is not None:
        node["attrs"] = {**top_attrs, **(node.get("attrs") or {})} if node["kind"] != "group" else top_attrs
    return node


def n_leaves(shape):
    return {"P1": 1, "P2": 1, "D1": 1, "G11": 2, "G12": 2, "G1D": 2, "N": 3}[shape]


def leaf_names(shape):
    """dict paths of the leaves, declared order"""
    return {"P1": [()], "P2": [()], "D1": [()], "G11": [("a",), ("b",)], "G12": [("a",), ("b",)],
            "G1D": [("a",), ("b",)], "N": [("a", "x"), ("a", "y"), ("b",)]}[shape]


def table_of(resources, need_connectors):
    return {"connectors": CONNECTORS if need_connectors else [], "resources": resources}


def uses_conn(node):
    if node["kind"] == "group":
        return any(uses_conn(s["node"]) for s in node["subs"])
    names = node["names"] if node["kind"] == "pins" else node["p"] + node["n"]
    return bool(node.get("conn")) or any(":" in n for n in names)


# ------------------------------------------------------------------ family S: structure
def structures(k, shapes, npool=4):
    """all lists of k (shape, injective pin tuple) with shapes non-decreasing and pins named in order of first
    appearance (pin names and the order of the resource list are symmetries of the property)"""
    idx = {s: i for i, s in enumerate(SHAPES)}
    out = []
    for sh in itertools.combinations_with_replacement(sorted(shapes, key=idx.get), k):
        per = [list(itertools.permutations(range(npool), NPINS[s])) for s in sh]
        for asg in itertools.product(*per):
            seen = []
            for t in asg:
                for p in t:
                    if p not in seen:
                        seen.append(p)
            if seen == list(range(len(seen))):
                out.append(list(zip(sh, asg)))
    return out


def s_table(struct, i):
    """decoration of structure number i is a fixed function of i (the decoration space itself is family D)"""
    res = []
    rot = i % 4                           # which physical name plays the role of 'first pin'
    for j, (shape, asg) in enumerate(struct):
        nl = n_leaves(shape)
        phys = [PINS[(p + rot) % 4] for p in asg]
        deco = {"dirs": [DIR4[(i + j + l) % 4] for l in range(nl)],
                "invs": [bool((i >> 2) + j + l & 1) for l in range(nl)],
                "levels": [((i >> 1) + j) % 4 if (i & 1) else 0] * len(phys),
                "clock": (0, CLOCKS[(i // 3 + j) % len(CLOCKS)]) if (i + j) % 3 == 0 else None,
                "attrs": ["none", "res", "sub"][(i + j) % 3]}
        res.append({"name": "r", "number": j, "node": make_node(shape, phys, deco)})
    return table_of(res, any(uses_conn(r["node"]) for r in res))


DIR4 = ["io", "i", "o", "oe"]


def s_actions(table):
    """per resource: dir='-', defaults (deprecated Pin path), data rate 3 on the LAST leaf (platform specific:
    granted or refused *after* earlier leaves were looked at), a wrongly typed override; plus a missing resource"""
    acts = []
    for r in table["resources"]:
        base = {"name": r["name"], "number": r["number"]}
        acts.append({**base, "dir": "-", "xdr": None})
        acts.append({**base, "dir": None, "xdr": None})
        if r["node"]["kind"] == "group":
            last = _last_leaf_path(r["node"])
            acts.append({**base, "dir": None, "xdr": _nest(last, 3)})
            acts.append({**base, "dir": "i", "xdr": None})
        else:
            acts.append({**base, "dir": None, "xdr": 3})
            acts.append({**base, "dir": "x", "xdr": None})
    acts.append({"name": "zz", "number": 0, "dir": "-", "xdr": None})
    return acts


def _last_leaf_path(node):
    path = []
    while node["kind"] == "group":
        path.append(node["subs"][-1]["name"])
        node = node["subs"][-1]["node"]
    return path


def _nest(path, v):
    for name in reversed(path):
        v = {name: v}
    return v


# ------------------------------------------------------------------ family D: decoration of one resource + probes
def probes(phys):
    return [{"name": "q", "number": i, "node": leaf_pins([p], [0], "io")} for i, p in enumerate(phys)]


def d1_tables():
    """every (shape, pin order, direction, inversion pattern, attribute variant, clock position, connector depth)"""
    out = []
    for shape in SHAPES:
        n, nl = NPINS[shape], n_leaves(shape)
        for order in ("fwd", "rev") if n > 1 else ("fwd",):
            phys = PINS[1:1 + n] if order == "fwd" else PINS[1:1 + n][::-1]
            for d in DIR4:
                for invp in ("none", "all", "first"):
                    invs = {"none": [False] * nl, "all": [True] * nl, "first": [True] + [False] * (nl - 1)}[invp]
                    if invp == "first" and nl == 1:
                        continue
                    for av in ("none", "res", "sub", "unset", "call"):
                        if av == "sub" and nl == 1:
                            continue
                        for ck in (None, 0, nl - 1) if nl > 1 else (None, 0):
                            for lv in (0, 1, 2, 3, "mixed"):
                                levels = [lv] * n if lv != "mixed" else [(1 + t) % 4 for t in range(n)]
                                if lv == "mixed" and n == 1:
                                    continue
                                deco = {"dirs": [d] * nl, "invs": invs, "levels": levels,
                                        "clock": (ck, 12.5 if ck == 0 else {"hz": 32768}) if ck is not None else None, "attrs": av}
                                node = make_node(shape, phys, deco)
                                res = [{"name": "r", "number": 0, "node": node}] + probes(phys)
                                out.append(table_of(res, uses_conn(node)))
    return out


def d1_actions(table):
    acts = []
    for r in table["resources"]:
        base = {"name": r["name"], "number": r["number"]}
        acts.append({**base, "dir": "-", "xdr": None})
        if r["name"] == "r":
            acts.append({**base, "dir": None, "xdr": None})
    return acts


def d2_tables():
    """override algebra: every shape x every per-leaf declared direction tuple, no other decoration"""
    out = []
    for shape in SHAPES:
        n, nl = NPINS[shape], n_leaves(shape)
        phys = PINS[:n]
        for dirs in itertools.product(DIR4, repeat=min(nl, 2)):
            deco = {"dirs": list(dirs) + [dirs[0]] * (nl - len(dirs)), "invs": [False] * nl, "levels": [0] * n}
            node = make_node(shape, phys, deco)
            out.append(table_of([{"name": "r", "number": 0, "node": node}] + probes(phys), False))
    return out


def d2_actions(table, quick):
    """resource r: every dir override x every xdr override in the alphabet; probes with dir='-'"""
    r = table["resources"][0]
    base = {"name": "r", "number": 0}
    acts = []
    if r["node"]["kind"] != "group":
        dirs = [None, "-", "i", "o", "oe", "io", "x", {}]
        xdrs = [None, 0, 1, 2, 3, -1, "1"]
    else:
        paths = [p for p, _ in _leaf_paths(r["node"])]
        first, last = paths[0], paths[-1]
        per_leaf = [None, "-", "o"] if quick else [None, "-", "i", "o", "oe", "io"]
        dirs = [None, "-", "o"]
        for a in per_leaf:
            for b in per_leaf:
                dd = {}
                if a is not None:
                    _put(dd, first, a)
                if b is not None:
                    _put(dd, last, b)
                dirs.append(dd)
        xdrs = [None, 1, _nest(first, 1), _nest(last, 3), _nest(last, -1)] if quick else \
               [None, 1, _nest(first, 1), _nest(last, 2), _nest(first, 3), _nest(last, 3), _nest(last, -1)]
    for d in dirs:
        for x in xdrs:
            acts.append({**base, "dir": d, "xdr": x})
    for q in table["resources"][1:]:
        acts.append({"name": "q", "number": q["number"], "dir": "-", "xdr": None})
    return acts


def _leaf_paths(node, path=()):
    if node["kind"] == "group":
        out = []
        for s in node["subs"]:
            out += _leaf_paths(s["node"], path + (s["name"],))
        return out
    return [(list(path), node)]


def _put(d, path, v):
    for name in path[:-1]:
        d = d.setdefault(name, {})
    d[path[-1]] = v


# ------------------------------------------------------------------ family EC: every declared clock, end to end
def ec_tables():
    """one clocked resource per table: every clock of CLOCKS x (single pin, diff pair, 2nd subsignal of a group)"""
    out = []
    for c in CLOCKS:
        for shape, leaf in (("P1", 0), ("D1", 0), ("G11", 1)):
            deco = {"dirs": ["i"] * n_leaves(shape), "invs": [False] * n_leaves(shape), "levels": [0] * NPINS[shape],
                    "clock": (leaf, c), "attrs": "none"}
            out.append(table_of([{"name": "ck", "number": 0, "node": make_node(shape, PINS[:NPINS[shape]], deco)}], False))
    return out


# ------------------------------------------------------------------ family EN: different ports, same generated name
def en_tables():
    """two different resources whose I/O ports get the same generated name (<resource>_<number>__<subsignal>...):
    a differential pair (width 1 and 2), a multi-bit port behind nested subsignals, a single-bit clock input with
    attributes, and a table holding two such collisions at once"""
    def pins(names, d, **kw):
        return {"kind": "pins", "names": names, "conn": None, "dir": d, "invert": kw.get("inv", False),
                "clock_mhz": kw.get("clock"), "attrs": kw.get("attrs")}
    def diff(p, n, d):
        return {"kind": "diff", "p": p, "n": n, "conn": None, "dir": d, "invert": False, "clock_mhz": None, "attrs": None}
    def res(name, node):
        return {"name": name, "number": 0, "node": node}
    t1 = [res("bus", group([("d_0", diff(["B0"], ["B1"], "i"))])), res("bus_0__d", diff(["B2"], ["B3"], "i"))]
    t1w = [res("bus", group([("d_0", diff(["B0", "B4"], ["B1", "B5"], "o"))])), res("bus_0__d", diff(["B2", "B6"], ["B3", "B7"], "o"))]
    t2 = [res("p", group([("q", group([("r_0", pins(["C0", "C1"], "o", inv=True))]))])), res("p_0__q__r", pins(["C2", "C3"], "o"))]
    t3 = [res("a", group([("b_0", pins(["D0"], "i", clock=12.5, attrs={"IO_TYPE": "LVCMOS18"}))])),
          res("a_0__b", pins(["D1"], "i", clock=33.333, attrs={"IO_TYPE": "LVCMOS33", "DRIVE": "4"}))]
    t3n = [res("a", group([("b_0", pins(["D0"], "i", attrs={"IO_TYPE": "LVCMOS18"}))])),
           res("a_0__b", pins(["D1"], "i", attrs={"IO_TYPE": "LVCMOS33", "DRIVE": "4"}))]
    return [table_of(t, False) for t in (t1, t1w, t2, t3n, t3, t1 + t2)]


# ------------------------------------------------------------------ family X: dangling connector references
def x_tables():
    out = []
    bad = {"kind": "pins", "names": ["9"], "conn": ["ca", 0], "dir": "io", "invert": False, "clock_mhz": None, "attrs": None}
    bad2 = {"kind": "pins", "names": ["cb_1:zz"], "conn": None, "dir": "io", "invert": False, "clock_mhz": None, "attrs": None}
    for b in (bad, bad2):
        for first in (True, False):
            good = leaf_pins(["A1"], [0], "io", clock=(10))
            subs = [("a", b), ("b", good)] if first else [("a", good), ("b", b)]
            res = [{"name": "r", "number": 0, "node": group(subs)}] + probes(["A1"])
            out.append({"connectors": CONNECTORS, "resources": res})
    return out


# ------------------------------------------------------------------ family XC: connector chains with dead ends
def xc_connectors(forms):
    """parent pa_0 (A0, gap, A1), child ch_1 on pa_0, grandchild gc_2 on ch_1; forms[i] in "s" (string) | "d" (dict).
    Child and grandchild have live entries and entries that dead-end: in a gap of the parent (pa_0:2), past the parent's
    end (pa_0:4), in a pin the child does not define (ch_1:9), and in child pins that lead on to those dead ends."""
    pa = {"name": "pa", "number": 0, "conn": None,
          "io": "A0 - A1" if forms[0] == "s" else {"1": "A0", "3": "A1"}}
    ch = {"name": "ch", "number": 1, "conn": ["pa", 0],          # 1 -> pa:1 (A0), 2 -> pa:2 (gap), 3 -> pa:4 (past end), 4 -> pa:3 (A1)
          "io": "1 2 4 3" if forms[1] == "s" else {"1": "1", "2": "2", "3": "4", "4": "3"}}
    gc = {"name": "gc", "number": 2, "conn": ["ch", 1],          # 1 -> ch:4 (A1), 2 -> ch:2 (gap), 3 -> ch:3 (past end), 4 -> ch:1 (A0), 5 -> ch:9 (undefined)
          "io": "4 2 3 1 9" if forms[2] == "s" else {"1": "4", "2": "2", "3": "3", "4": "1", "5": "9"}}
    return [pa, ch, gc]


# (connector, pin) references: live ones with the physical pin they reach, dead ones with where the chain ends
XC_LIVE = [(("pa", 0), "1", "A0"), (("pa", 0), "3", "A1"), (("ch", 1), "1", "A0"), (("ch", 1), "4", "A1"),
           (("gc", 2), "1", "A1"), (("gc", 2), "4", "A0")]
XC_DEAD = [(("pa", 0), "2", "first hop: gap"), (("pa", 0), "4", "first hop: past the end"),
           (("ch", 1), "2", "parent gap"), (("ch", 1), "3", "past the parent's end"),
           (("gc", 2), "2", "grandparent gap"), (("gc", 2), "3", "past the grandparent's end"),
           (("gc", 2), "5", "pin the parent does not define")]


def xc_tables():
    """every connector form combination x every dead reference x Pins (width 1, 2) / DiffPairs (p or n side, width 1, 2)
    that contains it (other positions: a live reference to A1 through the same connector), written with conn= where the
    whole leaf is on one connector and as raw "conn_n:pin" names otherwise; + a probe on A1 and a live control resource"""
    out = []
    for forms in itertools.product("sd", repeat=3):
        conns = xc_connectors(forms)
        for conn, pin, _why in XC_DEAD:
            live_same = next(p for c, p, phys in XC_LIVE if c == conn and phys == "A1")
            live_other = next((c, p) for c, p, phys in XC_LIVE if c != conn and phys == "A0")
            variants = []

            def leaf(kind, names_sets, use_conn):
                base = {"dir": "io", "invert": False, "clock_mhz": None, "attrs": None}
                def fmt(ns):
                    return [n if use_conn else f"{conn[0]}_{conn[1]}:{n}" for n in ns]
                if kind == "pins":
                    return {"kind": "pins", "names": fmt(names_sets[0]), "conn": list(conn) if use_conn else None, **base}
                return {"kind": "diff", "p": fmt(names_sets[0]), "n": fmt(names_sets[1]), "conn": list(conn) if use_conn else None, **base}
            for use_conn in (True, False):
                variants.append(leaf("pins", [[pin]], use_conn))
                variants.append(leaf("pins", [[live_same, pin]], use_conn))
                variants.append(leaf("diff", [[pin], [live_same]], use_conn))
                variants.append(leaf("diff", [[live_same], [pin]], use_conn))
            # width 2 with the second live pin on another connector (raw names only)
            raw = f"{conn[0]}_{conn[1]}:{pin}"
            other = f"{live_other[0][0]}_{live_other[0][1]}:{live_other[1]}"
            same = f"{conn[0]}_{conn[1]}:{live_same}"
            base = {"dir": "io", "invert": False, "clock_mhz": None, "attrs": None, "conn": None}
            variants.append({"kind": "pins", "names": [raw, other], **base})
            variants.append({"kind": "diff", "p": [other, same], "n": ["A2", raw], **base})
            variants.append({"kind": "diff", "p": [raw, same], "n": ["A2", other], **base})
            for k, node in enumerate(variants):
                ctl_conn, ctl_pin, _ = XC_LIVE[(k + len(out)) % len(XC_LIVE)]
                control = {"kind": "pins", "names": [ctl_pin], "conn": list(ctl_conn), "dir": "io", "invert": False,
                           "clock_mhz": None, "attrs": None}
                res = [{"name": "r", "number": 0, "node": node if k % 2 else group([("a", leaf_pins(["A3"], [0], "io")), ("b", node)])},
                       {"name": "q", "number": 0, "node": leaf_pins(["A1"], [0], "io")},
                       {"name": "q", "number": 1, "node": control}]
                out.append({"connectors": conns, "resources": res})
    return out


# ------------------------------------------------------------------ compact tags (used in violation signatures)
def node_tag(node):
    if node["kind"] == "group":
        return "{" + ",".join(f"{s['name']}=" + node_tag(s["node"]) for s in node["subs"]) + "}" + _atag(node)
    cn = f"@{node['conn'][0]}_{node['conn'][1]}" if node.get("conn") else ""
    ck = node.get("clock_mhz")
    ck = "" if not ck else ("~%s%s" % (*[(v, u) for u, v in ck.items()][0],) if isinstance(ck, dict) else f"~{ck}M")
    inv = "N" if node["invert"] else ""
    if node["kind"] == "pins":
        return f"P{inv}({' '.join(node['names'])}{cn};{node['dir']}{ck})" + _atag(node)
    return f"D{inv}({' '.join(node['p'])}/{' '.join(node['n'])}{cn};{node['dir']}{ck})" + _atag(node)


def _atag(node):
    a = node.get("attrs")
    if not a:
        return ""
    def v(x):
        return "!" if x is None else ("call" if isinstance(x, dict) else str(x))
    return "[" + ",".join(f"{k}={v(x)}" for k, x in a.items()) + "]"


def table_tag(table):
    return ";".join(f"{r['name']}{r['number']}=" + node_tag(r["node"]) for r in table["resources"])


def action_tag(a):
    def v(x):
        if isinstance(x, dict):
            return "{" + ",".join(f"{k}:{v(y)}" for k, y in x.items()) + "}"
        return "None" if x is None else repr(x).replace("'", "")
    s = f"{a['name']}{a['number']}"
    if a.get("dir") is not None:
        s += f",dir={v(a['dir'])}"
    if a.get("xdr") is not None:
        s += f",xdr={v(a['xdr'])}"
    return s


# ------------------------------------------------------------------ spec -> amaranth.build objects
def period_of(spec):
    """clock spec (see vf/ref/c19_alloc.clock_hz) -> amaranth Period, built with the unit the spec is written in"""
    from amaranth.hdl import Period
    if isinstance(spec, dict):
        (unit, v), = spec.items()
        return Period(**{{"hz": "Hz", "khz": "kHz", "mhz": "MHz"}.get(unit, unit): v})
    return Period(MHz=spec)


def build_objects(table):
    from amaranth.build import Resource, Subsignal, Pins, DiffPairs, Attrs, Clock, Connector
    from amaranth.hdl import Period

    def attrs_of(a):
        kw = {}
        for k, val in a.items():
            if isinstance(val, dict):
                text = val["call"]
                kw[k] = (lambda t: (lambda platform: t))(text)
            else:
                kw[k] = val
        return Attrs(**kw)

    def args_of(node):
        args = []
        if node["kind"] == "group":
            for s in node["subs"]:
                args.append(Subsignal(s["name"], *args_of(s["node"])))
        else:
            conn = tuple(node["conn"]) if node.get("conn") else None
            if node["kind"] == "pins":
                args.append(Pins(" ".join(node["names"]), dir=node["dir"], invert=node["invert"], conn=conn))
            else:
                args.append(DiffPairs(" ".join(node["p"]), " ".join(node["n"]), dir=node["dir"], invert=node["invert"], conn=conn))
            if node.get("clock_mhz"):
                args.append(Clock(period_of(node["clock_mhz"])))
        if node.get("attrs"):
            args.append(attrs_of(node["attrs"]))
        return args

    resources = [Resource(r["name"], r["number"], *args_of(r["node"])) for r in table["resources"]]
    connectors = [Connector(c["name"], c["number"], c["io"], conn=tuple(c["conn"]) if c.get("conn") else None)
                  for c in table.get("connectors", [])]
    return resources, connectors
