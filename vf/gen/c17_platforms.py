"""C17: elaboration of the CDC primitives for the vendor platforms that override them (get_ff_sync /
get_async_ff_sync in amaranth/vendor/_xilinx.py and _altera.py).

The override may return vendor cells (`Instance("FDPE")`, `Instance("altera_std_synchronizer")`) which the Python
simulator cannot run. While the design is elaborated, `Instance` *as seen by the vendor module* is replaced by a
factory that builds a small behavioural model of the cell (written from the vendor library documentation), so the
lowered design is an ordinary simulable netlist and the same BFS + reference model as for the generic lowering
applies. An unknown cell type is a harness error (never silently skipped). Every cell built is logged so that the
check can also look at its parameters.
"""
import importlib

PLATFORMS = {
    # name: (vendor module, base class, class attributes, constructor kwargs)
    "xilinx-vivado":    ("amaranth.vendor._xilinx", "XilinxPlatform", {"device": "xc7a35t", "package": "csg324", "speed": "1"}, {"toolchain": "Vivado"}),
    "xilinx-ise":       ("amaranth.vendor._xilinx", "XilinxPlatform", {"device": "xc6slx9", "package": "tqg144", "speed": "2"}, {"toolchain": "ISE"}),
    "xilinx-symbiflow": ("amaranth.vendor._xilinx", "XilinxPlatform", {"device": "xc7a35t", "package": "csg324", "speed": "1"}, {"toolchain": "Symbiflow"}),
    "xilinx-xray":      ("amaranth.vendor._xilinx", "XilinxPlatform", {"device": "xc7a35t", "package": "csg324", "speed": "1"}, {"toolchain": "Xray"}),
    "altera-quartus":   ("amaranth.vendor._altera", "AlteraPlatform", {"device": "5CSEMA4", "package": "U23", "speed": "C6"}, {"toolchain": "Quartus"}),
    "altera-mistral":   ("amaranth.vendor._altera", "AlteraPlatform", {"device": "5CSEMA4", "package": "U23", "speed": "C6"}, {"toolchain": "Mistral"}),
}
HOOKS = ("get_ff_sync", "get_async_ff_sync")


class UnknownCell(Exception):
    pass


def make_platform(name):
    modname, base, attrs, kwargs = PLATFORMS[name]
    mod = importlib.import_module(modname)
    cls = type("C17_" + name.replace("-", "_"), (getattr(mod, base),), {**attrs, "resources": [], "connectors": []})
    return mod, cls(**kwargs)


def _const(v, default=None):
    from amaranth.hdl import Const
    if v is None:
        return default
    if isinstance(v, int):
        return v
    return Const.cast(v).value


def cell_factory(log, domains):
    from amaranth.hdl import Elaboratable, Module, ClockDomain, ClockSignal, Signal

    def clock_into(m, cd, clk):
        # a cell clocked straight by a design domain shares that domain's clock signal (no extra delta cycle through
        # a comb assignment, so simultaneous edges of two design clocks sample exactly like plain registers do)
        if isinstance(clk, ClockSignal) and clk.domain in domains:
            cd.clk = domains[clk.domain].clk
        else:
            m.d.comb += cd.clk.eq(clk)

    class Cell(Elaboratable):
        """behavioural stand-in for a vendor cell; `attrs` mimics Instance.attrs (the platforms add attributes)"""
        def __init__(self, type, **kw):
            self.type, self.kw, self.attrs = type, kw, {}
            log.append(self)

        def params(self):
            return {k[2:]: _const(v) if not isinstance(v, str) else v for k, v in self.kw.items() if k.startswith("p_")}

        def elaborate(self, platform):
            kw = self.kw
            m = Module()
            cd = ClockDomain("cell", async_reset=True, local=True)
            if self.type == "FDPE":
                # Xilinx libraries guide: D flip-flop with clock enable and asynchronous preset; Q powers up as INIT,
                # PRE=1 forces Q=1 at once, otherwise Q <= D at the rising edge of C when CE=1
                init = _const(kw.get("p_INIT"), 1)
                if init != 1:
                    raise UnknownCell("FDPE with INIT=0 (power-up value differs from the preset value) is not modelled")
                q = Signal(init=1, name="q")
                clock_into(m, cd, kw["i_C"])
                m.d.comb += [cd.rst.eq(kw["i_PRE"]), kw["o_Q"].eq(q)]
                with m.If(kw["i_CE"]):
                    m.d.cell += q.eq(kw["i_D"])
            elif self.type in ("altera_std_synchronizer", "altera_std_synchronizer_bundle"):
                # Intel: chain of `depth` (>= 2) flip-flops per bit clocked by the rising edge of clk, cleared to 0
                # asynchronously while reset_n=0, powering up as 0; dout is the last flip-flop
                depth = _const(kw["p_depth"])
                width = _const(kw.get("p_width"), 1) if self.type.endswith("bundle") else 1
                if depth < 2 or len(kw["i_din"]) != width or len(kw["o_dout"]) != width:
                    raise UnknownCell(f"{self.type} depth={depth} width={width} din/dout widths {len(kw['i_din'])}/{len(kw['o_dout'])}")
                regs = [Signal(width, name=f"dreg{k}") for k in range(depth)]
                clock_into(m, cd, kw["i_clk"])
                m.d.comb += [cd.rst.eq(~kw["i_reset_n"]), kw["o_dout"].eq(regs[-1])]
                for src, dst in zip((kw["i_din"], *regs), regs):
                    m.d.cell += dst.eq(src)
            else:
                raise UnknownCell(f"no behavioural model for vendor cell {self.type!r}")
            m.domains.cell = cd
            return m
    return Cell


def elaborate_for(design, platform_name, domains=()):
    """-> (Fragment, [cells]); platform_name None = generic lowering; domains: the design's ClockDomain objects"""
    import warnings
    from amaranth.hdl import Fragment
    with warnings.catch_warnings():
        warnings.simplefilter("ignore")
        if platform_name is None:
            return Fragment.get(design, None), []
        mod, plat = make_platform(platform_name)
        log = []
        saved = mod.Instance
        mod.Instance = cell_factory(log, {d.name: d for d in domains})
        try:
            frag = Fragment.get(design, plat)
        finally:
            mod.Instance = saved
        return frag, log


def overriding_platforms():
    """which of PLATFORMS override which hook, looked up on the real classes"""
    out = {}
    for name in PLATFORMS:
        _mod, plat = make_platform(name)
        out[name] = [h for h in HOOKS if hasattr(plat, h)]
    return out
