"""C20 generators: the format-specification alphabet and the control-flow programs of the timing part."""
import itertools

# ------------------------------------------------------------------------------------------ specifications
FILLS_FULL = [None, "*", "0", " ", "x"]             # full product
FILLS_EXTRA = ["{", "}", "<", "+", "#", "s", "c", "é", "_"]   # reduced product (see specs())
ALIGNS = [None, "<", ">", "=", "^"]
SIGNS = [None, "+", "-", " "]
WIDTHS = [None, "1", "4", "9", "12"]
GROUPS = [None, "_", ","]
TYPES = [None, "b", "o", "d", "x", "X", "c", "s", "n", "e", "f", "%"]

# strings that are not format specifications by any reading (Python rejects them for int and for str)
MALFORMED = [".3", "5.3d", "z", "zd", "dd", "xd", "5 ", "5+", "_5", "#+", "0+", "d5", "+-", "++d", "<<<", "##", "__d",
             "5__d", "x5", "!r", "d ", " d ", "5x<", "08_,d", "_,", ",_"]


def _join(fill, align, sign, alt, zero, width, group, typ):
    return "".join(p or "" for p in ((fill if align else None), align, sign, "#" if alt else None,
                                      "0" if zero else None, width, group, typ))


def specs(tier):
    """-> sorted list of distinct specification strings (the main alphabet, valid and invalid)"""
    out = set()
    widths = WIDTHS if tier == "thorough" else [None, "1", "4", "9"]
    for align in ALIGNS:
        for fill in (FILLS_FULL if align else [None]):
            for sign, alt, zero, width, group, typ in itertools.product(SIGNS, (0, 1), (0, 1), widths, GROUPS, TYPES):
                out.add(_join(fill, align, sign, alt, zero, width, group, typ))
    # unusual fill characters (characters that are also align / sign / flag / type characters, non-ASCII)
    for fill in FILLS_EXTRA:
        if fill in "{}":
            continue
        for align in ALIGNS[1:]:
            for sign, zero, width, group, typ in itertools.product((None, "+"), (0, 1), (None, "4"), (None, "_"), TYPES):
                out.add(_join(fill, align, sign, 0, zero, width, group, typ))
    out.update(MALFORMED)
    return sorted(out)


def brace_specs():
    """fill characters `{` and `}` (writable only through a nested replacement field, as with str.format)"""
    out = set()
    for fill in "{}":
        for align in ALIGNS[1:]:
            for zero, width, typ in itertools.product((0, 1), (None, "4"), (None, "d", "x", "c", "s", "n")):
                out.add(_join(fill, align, None, 0, zero, width, None, typ))
    return sorted(out)


def reduced_specs():
    """sub-alphabet used for the secondary operand forms in the quick tier (no fill character)"""
    out = set()
    for align, sign, alt, zero, width, group, typ in itertools.product((None, "<", "="), (None, "+", " "), (0, 1), (0, 1), (None, "4"),
                                                                       (None, "_"), TYPES):
        out.add(_join(None, align, sign, alt, zero, width, group, typ))
    return sorted(out)


SHAPES_QUICK = [(0, False), (1, False), (4, False), (8, False), (1, True), (4, True), (8, True), (16, False), (21, False),
                (24, False)]


def values_for(w, sg, tier):
    """all values for width <= 4 (quick) / <= 8 (thorough); corner values above"""
    lo, hi = (-(1 << (w - 1)), (1 << (w - 1)) - 1) if sg else (0, (1 << w) - 1)
    if w == 0:
        return [0]
    if w <= (8 if tier == "thorough" else 4):
        return list(range(lo, hi + 1))
    vals = {lo, lo + 1, hi, hi - 1, 0, 1, 2, 9, 10, 11, 99, 100, 1000, 1234, 0x41, 0x7e, 0x7f}
    if sg:
        vals |= {-1, -2, -9, -10, -100}
    else:
        vals |= {0x80, 0xff}
    if w == 16:
        vals |= {0x4241, 0xa9c3, 0x0a41, 0x7a61, 1000, 9999, 10000, 0x8000, 0x1234}       # "AB", "e-acute", "A\n", "az"
    if w == 21:
        vals |= {0x10FFFF, 0x110000, 0xD7FF, 0xE000, 0x20AC, 0x1F600, 999999, 1000000, 0x100000}
    if w == 24:
        vals |= {0xAC82E2, 0x434241, 0x004241, 0x000041, 999999, 1000000, 0x800000}        # euro sign, "ABC", "AB", "A"
    return sorted(v for v in vals if lo <= v <= hi)


# ------------------------------------------------------------------------------------------ timing programs
# names are interpreted by vf/ref/c20_ref.py (plain ints) and by build_timing in the check (amaranth expressions).
# Multi-bit ones (MULTIBIT) are true / pass iff the value is NON-ZERO, whatever bit 0 is, whatever the sign:
#   x (u2 input)  cnt (u2 register)  sg (s3 register)  xs = x.as_signed() (s2)  xpc = x + cnt (u3)  xmc = x - cnt (s3)
#   xl1 = x << 1 (u3, bit 0 always clear)  xk12 = Cat(x, k)[1:3] (u2 slice)  sgs = sg[1:] (u2 slice of the signed register)
MULTIBIT = ["x", "cnt", "sg", "xs", "xpc", "xmc", "xl1", "xk12", "sgs"]
SIGNED_TESTS = ["sg", "xs", "xmc"]
CONDS = ["x0", "c0", "nx0", "x1", "w", "k", "x", "xe2", "c1", "cnt", "xl1", "sg", "xmc"]
# 16 entries: not a multiple of the 3 tests a hole consumes, so every kind of statement meets every test
TESTS = ["xn3", "x", "cn3", "xl1", "kx", "sg", "x1", "xs", "nx0", "xpc", "cnt", "xmc", "xn3", "xk12", "kx", "sgs"]


class _Ctr:
    def __init__(self, rot, trot=0):
        self.leaf = 0
        self.c = rot + trot
        self.t = rot + trot

    def cond(self):
        self.c += 1
        return CONDS[(self.c - 1) % len(CONDS)]

    def test(self):
        self.t += 1
        return TESTS[(self.t - 1) % len(TESTS)]

    def lid(self):
        self.leaf += 1
        return self.leaf


def hole(ctr, reg):
    """a dense leaf body: every statement kind, prints before and after the properties"""
    body = [("P", ctr.lid()), ("A", ctr.lid(), ctr.test()), ("C", ctr.lid(), ctr.test()), ("U", ctr.lid(), ctr.test()),
            ("P", ctr.lid())]
    if reg:
        body.append(("R",))
    return body


FORMS = ["bare", "if", "ifelse", "ifelif", "ifelifelse", "if3else", "sw_default", "sw_mask", "sw_overlap", "sw_cat", "ifif",
         "sw_wide"]
HOLES = {"bare": 1, "if": 1, "ifelse": 2, "ifelif": 2, "ifelifelse": 3, "if3else": 4, "sw_default": 3, "sw_mask": 2,
         "sw_overlap": 3, "sw_cat": 2, "ifif": 2, "sw_wide": 3}


def form(name, bodies, ctr):
    b = bodies
    if name == "bare":
        return list(b[0])
    if name == "if":
        return [("if", [(ctr.cond(), b[0])])]
    if name == "ifelse":
        return [("if", [(ctr.cond(), b[0]), (None, b[1])])]
    if name == "ifelif":
        return [("if", [(ctr.cond(), b[0]), (ctr.cond(), b[1])])]
    if name == "ifelifelse":
        return [("if", [(ctr.cond(), b[0]), (ctr.cond(), b[1]), (None, b[2])])]
    if name == "if3else":
        return [("if", [(ctr.cond(), b[0]), (ctr.cond(), b[1]), (ctr.cond(), b[2]), (None, b[3])])]
    if name == "sw_default":
        return [("sw", "x", [((0,), b[0]), ((1, 2), b[1]), (None, b[2])])]
    if name == "sw_mask":
        return [("sw", "x", [(("1-",), b[0]), ((1,), b[1])])]
    if name == "sw_overlap":
        return [("sw", "x", [(("-1",), b[0]), (("1-",), b[1]), (None, b[2])])]
    if name == "sw_cat":
        return [("sw", "xc", [((2,), b[0]), ((0, 3), b[1])])]
    if name == "ifif":
        return [("if", [(ctr.cond(), b[0])]), ("if", [(ctr.cond(), b[1])])]
    if name == "sw_wide":
        return [("sw", "xk", [(("1-0", 3), b[0]), (("0--",), b[1]), ((5, "11-"), b[2])])]
    raise ValueError(name)


def program(outer, nest_at, inner, rot, reg_hole=0, with_reg=True):
    """outer form; hole `nest_at` (or None) additionally contains the form `inner` between its prints"""
    ctr = _Ctr(rot, trot=reg_hole)      # the design index also rotates the conditions and the Assert / Cover / Assume tests
    bodies = []
    for h in range(HOLES[outer]):
        body = hole(ctr, reg=(with_reg and h == reg_hole % HOLES[outer]))
        if nest_at == h:
            inner_bodies = [hole(ctr, reg=False) for _ in range(HOLES[inner])]
            body = body[:2] + form(inner, inner_bodies, ctr) + body[2:]
        bodies.append(body)
    return form(outer, bodies, ctr)


QUICK_INNER = ["ifelse", "ifelifelse", "sw_default", "sw_overlap"]


def program_descs(tier):
    """the enumerated program space: (outer, nest_at, inner, rot)"""
    inner_forms = FORMS[1:] if tier == "thorough" else QUICK_INNER
    rots = range(len(CONDS)) if tier == "thorough" else (0,)
    out = []
    for rot in rots:
        for outer in FORMS:
            out.append((outer, None, None, rot))
            if rot > 1:
                continue          # condition rotations beyond 1: depth-1 programs only
            for h in range(HOLES[outer]):
                for inner in inner_forms:
                    out.append((outer, h, inner, rot))
    return out


# asynchronous-reset designs whose Print / Assert / Assume / Cover statements sit in a fragment WITHOUT any
# resettable register: (name, statements in a separate submodule?, reset_less register k driven by the statements'
# fragment?, resettable registers cnt / sg driven in the top module?)
MONITOR_VARIANTS = [("sub", True, False, True), ("sub_rl", True, True, True), ("flat_noreg", False, False, False),
                    ("flat_rl", False, True, False)]
MONITOR_FORMS = ["bare", "ifelse", "sw_default"]


# ------------------------------------------------------------------------------------------ Print arguments
# argument kinds of the Print-argument family: ("v", name) an Amaranth value, ("f", name) a Format object,
# ("s", text) a plain str, ("i", n) a plain int
PRINT_ARGS = [("v", "a"), ("v", "b"), ("v", "c"), ("v", "amb"), ("f", "hex"), ("f", "brace"),
              ("s", "txt"), ("s", "{"), ("s", "}}"), ("s", "{0}"), ("s", "a{b}c"), ("i", 42), ("i", -7)]
PRINT_ARGS_SMALL = [("v", "a"), ("v", "b"), ("f", "brace"), ("s", "{"), ("s", "txt"), ("i", 42)]
# None = keyword not passed (Python's defaults " " and "\n")
PRINT_SEPS = [None, "", ", ", "\n", "{", "}", "{{", "}}", "{}", "{0}", "a{b"]
PRINT_ENDS = [None, "", ", ", "\n", "{", "}", "{{", "}}", "{}", "{0}", "}\n", "{x}!"]
PRINT_VALUES = [(0, 0, 0), (15, -8, 1), (10, -1, 0), (9, 7, 1)]          # (a: unsigned(4), b: signed(4), c: unsigned(1))


def print_cases(tier):
    """-> list of (args tuple, sep, end): all argument tuples of length 1-2 (quick: length 3 over a reduced
    kind list, thorough: over all kinds) x all sep x all end"""
    tuples = [(a,) for a in PRINT_ARGS] + [(a, b) for a in PRINT_ARGS for b in PRINT_ARGS]
    three = PRINT_ARGS if tier == "thorough" else PRINT_ARGS_SMALL
    tuples += [(a, b, c) for a in three for b in three for c in three]
    return [(t, sep, end) for t in tuples for sep in PRINT_SEPS for end in PRINT_ENDS]


# ------------------------------------------------------------------------------------------ inserted enables
EN_EDGES = ["pos", "neg"]
EN_RESETS = ["sync", "async"]                       # kind of the domain's own reset (never asserted here)
EN_CONTENTS = ["P", "A", "PA", "PR"]                # Print only / Assert+Assume only / both / Print + a register (control group)
# where the checker statements and the driver of the watched register w live:
#   sub       checker = wrapped submodule of the top module; w driven in the top module (outside the wrapper)
#   subsub    wrapped submodule `mid` holds nothing but the checker as ITS submodule; w driven in the top module
#   subsub_w  as subsub, but w is driven in `mid` (inside the wrapper, in another fragment than the checker)
#   same      checker statements and the driver of w in one wrapped submodule (same fragment)
EN_PLACES = ["sub", "subsub", "subsub_w", "same"]
# none | rst = ResetInserter(srst) | en = EnableInserter(en1) | en_dict = EnableInserter({"sync": en1})
# | en_en = EnableInserter(en1)(EnableInserter(en2)(..)) | en_rst = EnableInserter(en1)(ResetInserter(srst)(..))
EN_WRAPPERS = ["none", "rst", "en", "en_dict", "en_en", "en_rst"]


def enable_descs(tier):
    return [{"edge": e, "reset": r, "content": c, "place": p, "wrapper": w}
            for e in EN_EDGES for r in EN_RESETS for c in EN_CONTENTS for p in EN_PLACES for w in EN_WRAPPERS]


def enable_inputs(desc):
    """names of the input signals an action sets (in packing order, LSB first); d is 2 bits, the others 1 bit"""
    names = ["d"]
    if desc["wrapper"] in ("en", "en_dict", "en_en", "en_rst"):
        names.append("en1")
    if desc["wrapper"] == "en_en":
        names.append("en2")
    if desc["wrapper"] in ("rst", "en_rst"):
        names.append("srst")
    return names
