"""Structural validator for RTLIL documents: implements the C07 statement literally.

validate(text, instances=None) -> list of problem strings (empty = well-formed).
`instances`: optional {cell_name: {"type": str, "params": {name: value}, "attrs": {name: value}, "ports": {name: (dir, width)}}}
describing the foreign instances the design contains; their cells must appear with exactly these values.
"""
from .parse import parse, ParseError, Const, Ref, Cat

UNARY = {"$not", "$neg", "$pos", "$reduce_and", "$reduce_or", "$reduce_xor", "$reduce_xnor", "$reduce_bool", "$logic_not"}
BINARY = {"$and", "$or", "$xor", "$xnor", "$add", "$sub", "$mul", "$div", "$mod", "$divfloor", "$modfloor", "$eq", "$ne", "$lt", "$le",
          "$gt", "$ge", "$shl", "$shr", "$sshl", "$sshr", "$shift", "$shiftx", "$logic_and", "$logic_or"}


def _pv(cell, name):
    v = cell.params.get(name)
    if v is None:
        return None
    v = v[0]
    return v.value() if isinstance(v, Const) else v


def cell_ports(cell):
    """{port: (direction, expected width or None)} for library cells; None for unknown types"""
    t = cell.type
    if t in UNARY:
        return {"\\A": ("in", _pv(cell, "\\A_WIDTH")), "\\Y": ("out", _pv(cell, "\\Y_WIDTH"))}
    if t in BINARY:
        return {"\\A": ("in", _pv(cell, "\\A_WIDTH")), "\\B": ("in", _pv(cell, "\\B_WIDTH")), "\\Y": ("out", _pv(cell, "\\Y_WIDTH"))}
    if t == "$mux":
        w = _pv(cell, "\\WIDTH")
        return {"\\A": ("in", w), "\\B": ("in", w), "\\S": ("in", 1), "\\Y": ("out", w)}
    if t == "$dff":
        w = _pv(cell, "\\WIDTH")
        return {"\\D": ("in", w), "\\CLK": ("in", 1), "\\Q": ("out", w)}
    if t == "$adff":
        w = _pv(cell, "\\WIDTH")
        return {"\\D": ("in", w), "\\CLK": ("in", 1), "\\ARST": ("in", 1), "\\Q": ("out", w)}
    if t == "$tribuf":
        w = _pv(cell, "\\WIDTH")
        return {"\\A": ("in", w), "\\EN": ("in", 1), "\\Y": ("out", w)}
    if t == "$memrd_v2":
        return {"\\ADDR": ("in", _pv(cell, "\\ABITS")), "\\DATA": ("out", _pv(cell, "\\WIDTH")), "\\EN": ("in", 1), "\\CLK": ("in", 1),
                "\\ARST": ("in", 1), "\\SRST": ("in", 1)}
    if t == "$memwr_v2":
        w = _pv(cell, "\\WIDTH")
        return {"\\ADDR": ("in", _pv(cell, "\\ABITS")), "\\DATA": ("in", w), "\\EN": ("in", w), "\\CLK": ("in", 1)}
    if t == "$meminit_v2":
        w, words = _pv(cell, "\\WIDTH"), _pv(cell, "\\WORDS")
        return {"\\ADDR": ("in", _pv(cell, "\\ABITS")), "\\DATA": ("in", None if w is None or words is None else w * words), "\\EN": ("in", w)}
    if t in ("$print", "$check"):
        p = {"\\EN": ("in", 1), "\\ARGS": ("in", _pv(cell, "\\ARGS_WIDTH")), "\\TRG": ("in", _pv(cell, "\\TRG_WIDTH"))}
        if t == "$check":
            p["\\A"] = ("in", 1)
        return p
    if t in ("$anyconst", "$anyseq", "$allconst", "$allseq"):
        return {"\\Y": ("out", _pv(cell, "\\WIDTH"))}
    if t == "$initstate":
        return {"\\Y": ("out", 1)}
    return None


class _ModCheck:
    def __init__(self, mod, modules, problems, instances):
        self.mod, self.modules, self.p, self.instances = mod, modules, problems, instances
        self.drivers = {name: [[] for _ in range(w.width)] for name, w in mod.wires.items()}

    def err(self, msg):
        self.p.append(f"module {self.mod.name}: {msg}")

    def width(self, sig, where):
        if isinstance(sig, Const):
            return sig.width
        if isinstance(sig, Ref):
            w = self.mod.wires.get(sig.name)
            if w is None:
                self.err(f"{where}: reference to undeclared wire {sig.name}")
                return None
            if sig.lo is None:
                return w.width
            if not (0 <= sig.lo <= sig.hi < w.width):
                self.err(f"{where}: slice [{sig.hi}:{sig.lo}] outside wire {sig.name} of width {w.width}")
                return None
            return sig.hi - sig.lo + 1
        total = 0
        for part in sig.parts:
            pw = self.width(part, where)
            if pw is None:
                return None
            total += pw
        return total

    def drive(self, sig, who, where):
        """record `who` as driver of every bit of sig"""
        if isinstance(sig, Const):
            if sig.width:
                self.err(f"{where}: a constant is driven")
            return
        if isinstance(sig, Ref):
            w = self.mod.wires.get(sig.name)
            if w is None:
                return
            lo, hi = (0, w.width - 1) if sig.lo is None else (sig.lo, sig.hi)
            if not (0 <= lo and hi < w.width):
                return
            for b in range(lo, hi + 1):
                self.drivers[sig.name][b].append(who)
            return
        for part in sig.parts:
            self.drive(part, who, where)

    def run(self):
        mod = self.mod
        # ports
        ids = sorted(w.port_id for w in mod.wires.values() if w.direction)
        if ids:
            base = ids[0]
            if base not in (0, 1) or ids != list(range(base, base + len(ids))):
                self.err(f"port indices are not unique and dense: {ids}")
        for name, w in mod.wires.items():
            if w.direction == "input":
                for b in range(w.width):
                    self.drivers[name][b].append("module-input")
        for lhs, rhs in mod.connects:
            lw, rw = self.width(lhs, "connect"), self.width(rhs, "connect")
            if lw is not None and rw is not None and lw != rw:
                self.err(f"connect: width {lw} != {rw}")
            self.drive(lhs, "connect", "connect")
        for proc in mod.processes:
            touched = []
            self._proc(proc.body, proc, touched)
            # one process is one driver of each bit it assigns, however many assignments it contains
            seen = set()
            for sig in touched:
                for name, b in self._bits(sig):
                    if (name, b) not in seen:
                        seen.add((name, b))
                        self.drivers[name][b].append(f"process {proc.name}")
        for cell in mod.cells:
            self._cell(cell)
        for name, w in mod.wires.items():
            for b, ds in enumerate(self.drivers[name]):
                if w.direction == "inout":
                    continue
                if w.direction == "input" and len(ds) > 1:
                    self.err(f"input {name}[{b}] is driven from inside by {ds[1:]}")
                elif len(ds) > 1:
                    self.err(f"wire {name}[{b}] has {len(ds)} drivers: {ds}")
                elif len(ds) == 0:
                    self.err(f"wire {name}[{b}] has no driver")

    def _bits(self, sig):
        if isinstance(sig, Ref):
            w = self.mod.wires.get(sig.name)
            if w is None:
                return
            lo, hi = (0, w.width - 1) if sig.lo is None else (sig.lo, sig.hi)
            for b in range(max(lo, 0), min(hi, w.width - 1) + 1):
                yield sig.name, b
        elif isinstance(sig, Cat):
            for part in sig.parts:
                yield from self._bits(part)

    def _proc(self, body, proc, touched):
        for st in body:
            if st[0] == "assign":
                lw, rw = self.width(st[1], f"process {proc.name}"), self.width(st[2], f"process {proc.name}")
                if lw is not None and rw is not None and lw != rw:
                    self.err(f"process {proc.name}: assignment width {lw} != {rw}")
                if isinstance(st[1], Const) and st[1].width:
                    self.err(f"process {proc.name}: assignment to a constant")
                touched.append(st[1])
            else:
                sw = self.width(st[1], f"process {proc.name} switch")
                for pats, b in st[2]:
                    for pat in pats:
                        if sw is not None and len(pat) != sw:
                            self.err(f"process {proc.name}: case pattern width {len(pat)} != switch width {sw}")
                    self._proc(b, proc, touched)

    def _cell(self, cell):
        mod = self.mod
        where = f"cell {cell.name} ({cell.type})"
        if cell.type in self.modules:
            child = self.modules[cell.type]
            declared = {n: w for n, w in child.wires.items() if w.direction}
            for port, sig in cell.conns.items():
                w = declared.get(port)
                sw = self.width(sig, where)
                if w is None:
                    self.err(f"{where}: connects port {port} which module {cell.type} does not declare")
                    continue
                if sw is not None and sw != w.width:
                    self.err(f"{where}: port {port} width {w.width} connected to {sw} bits")
                if w.direction == "output":
                    self.drive(sig, where + port, where)
            for port in declared:
                if port not in cell.conns:
                    self.err(f"{where}: declared port {port} of {cell.type} is not connected")
            return
        ports = cell_ports(cell)
        if ports is None:
            if cell.type.startswith("$"):
                self.err(f"{where}: unknown library cell type")
                return
            # foreign instance
            exp = (self.instances or {}).get(cell.name.lstrip("\\"))
            if exp is None:
                if self.instances is not None:
                    self.err(f"{where}: references a module that does not exist")
                for port, sig in cell.conns.items():
                    self.width(sig, where)
                return
            if cell.type != "\\" + exp["type"]:
                self.err(f"{where}: instance type {cell.type} != {exp['type']}")
            for k, v in exp.get("params", {}).items():
                got = cell.params.get("\\" + k)
                if got is None:
                    self.err(f"{where}: parameter {k} missing")
                elif not _param_equal(got, v):
                    self.err(f"{where}: parameter {k} = {got!r}, expected {v!r}")
            for k in cell.params:
                if k.lstrip("\\") not in exp.get("params", {}):
                    self.err(f"{where}: unexpected parameter {k}")
            for k, v in exp.get("attrs", {}).items():
                got = cell.attrs.get("\\" + k)
                if got is None or not _param_equal((got, None), v):
                    self.err(f"{where}: attribute {k} = {got!r}, expected {v!r}")
            for port, (direction, width) in exp.get("ports", {}).items():
                sig = cell.conns.get("\\" + port)
                if sig is None:
                    self.err(f"{where}: port {port} not connected")
                    continue
                sw = self.width(sig, where)
                if sw is not None and sw != width:
                    self.err(f"{where}: port {port} connected to {sw} bits, expected {width}")
                if direction == "o":
                    self.drive(sig, where + port, where)
            for port in cell.conns:
                if port.lstrip("\\") not in exp.get("ports", {}):
                    self.err(f"{where}: unexpected port {port}")
            return
        for port, (direction, width) in ports.items():
            sig = cell.conns.get(port)
            if sig is None:
                self.err(f"{where}: port {port} not connected")
                continue
            sw = self.width(sig, where)
            if width is None:
                self.err(f"{where}: width parameter for {port} missing")
            elif sw is not None and sw != width:
                self.err(f"{where}: port {port} connected to {sw} bits, parameter says {width}")
            if direction == "out":
                self.drive(sig, where + port, where)
        for port in cell.conns:
            if port not in ports:
                self.err(f"{where}: unexpected port {port}")
        if cell.type in ("$memrd_v2", "$memwr_v2", "$meminit_v2"):
            memid = cell.params.get("\\MEMID")
            name = memid[0] if memid else None
            if not isinstance(name, str) or name not in mod.memories:
                self.err(f"{where}: MEMID {name!r} is not a memory of this module")
            else:
                mem = mod.memories[name]
                if _pv(cell, "\\WIDTH") != mem.width:
                    self.err(f"{where}: WIDTH {_pv(cell, chr(92) + 'WIDTH')} != memory width {mem.width}")


def _param_equal(got, expected):
    val, flag = got
    if isinstance(expected, str):
        return val == expected
    if isinstance(expected, float):
        return flag == "real" and float(val) == expected
    if isinstance(expected, tuple):          # (value, width, signed) for Const parameters
        v, w, sg = expected
        if isinstance(val, Const):
            return val.width == w and val.value() == (v & ((1 << w) - 1))
        return False
    if isinstance(expected, int):
        if isinstance(val, Const):
            got_v = val.value()
            if val.width and (flag == "signed" or expected < 0) and val.bits[0] == "1":
                got_v -= 1 << val.width
            return got_v == expected
        return val == expected
    return False


def validate(text, instances=None, top_must_exist=True):
    problems = []
    try:
        modules, probs = parse(text)
    except ParseError as e:
        return [f"grammar: {e}"], {}
    except Exception as e:     # a crash of the parser on emitted text is a grammar problem too
        return [f"grammar: parser failure {type(e).__name__}: {e}"], {}
    problems += probs
    for mod in modules.values():
        _ModCheck(mod, modules, problems, instances).run()
    return problems, modules
