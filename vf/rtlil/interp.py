"""RTLIL interpreter written from the Yosys manual's cell library semantics (DESIGN.md Appendix A).

Usage:
    it = Interp(parse(text)[0], top_name)
    it.set({"a": 3, "clk": 1})     # top-level input ports by Amaranth name (without the backslash)
    it.get("o")                      # any top-level wire (unsigned bit pattern)
Every `set` is one instant: the new input values are applied, clock edges are detected by comparing every
sequential cell's CLK net before and after, sequential cells sample their inputs from the settled state *before*
the instant (two-phase), asynchronous resets and reads then re-settle.
"""
from .parse import Const, Ref, Cat, ParseError


class InterpError(Exception):
    pass


def _mask(w):
    return (1 << w) - 1


def _sext(v, w, signed):
    v &= _mask(w)
    if signed and w and v >> (w - 1):
        v -= 1 << w
    return v


class Inst:
    """one instance of a module in the flattened hierarchy"""
    def __init__(self, mod, path):
        self.mod, self.path = mod, path
        self.val = {name: 0 for name in mod.wires}
        self.children = {}
        self.mems = {}


COMB_BIN = {"$and", "$or", "$xor", "$xnor", "$add", "$sub", "$mul", "$divfloor", "$modfloor", "$div", "$mod", "$eq", "$ne", "$lt", "$le",
            "$gt", "$ge", "$shl", "$shr", "$sshl", "$sshr", "$shift", "$shiftx", "$logic_and", "$logic_or"}
COMB_UN = {"$not", "$neg", "$pos", "$reduce_and", "$reduce_or", "$reduce_xor", "$reduce_bool", "$logic_not", "$reduce_xnor"}
SEQ = {"$dff", "$adff", "$memwr_v2", "$memrd_v2", "$print", "$check"}


class Interp:
    def __init__(self, modules, top=None, signed_shift_fill=False):
        # signed_shift_fill=True is NOT RTLIL semantics: it makes $shift with A_SIGNED behave arithmetically (sign fill).
        # It exists only to attribute a disagreement to the recorded finding "signed part select lowered to $shift".
        self.signed_shift_fill = signed_shift_fill
        self.modules = modules
        if top is None:
            tops = [m for m in modules.values() if "\\top" in m.attrs]
            top = tops[0].name if tops else next(iter(modules))
        self.top = self._instantiate(modules[top], ())
        self.nodes = []          # comb nodes: (reads:set of (inst,wire), writes:set, fn)
        self.seq = []            # sequential cells: dict
        self.events = []         # print / check events of the last instant
        self.undef = set()       # (inst id, wire) read-port data not yet captured (INIT_VALUE x)
        self._build(self.top)
        self._order()
        self._init_state()
        self.settle()
        self._snap_clocks()

    # ------------------------------------------------------------ construction
    def _instantiate(self, mod, path):
        inst = Inst(mod, path)
        for name, mem in mod.memories.items():
            inst.mems[name] = [0] * mem.size
        for cell in mod.cells:
            if cell.type in self.modules:
                inst.children[cell.name] = self._instantiate(self.modules[cell.type], path + (cell.name,))
        return inst

    def width(self, inst, sig):
        if isinstance(sig, Const):
            return sig.width
        if isinstance(sig, Ref):
            if sig.lo is None:
                return inst.mod.wires[sig.name].width
            return sig.hi - sig.lo + 1
        return sum(self.width(inst, p) for p in sig.parts)

    def ev(self, inst, sig):
        if isinstance(sig, Const):
            return sig.value()
        if isinstance(sig, Ref):
            v = inst.val[sig.name]
            if sig.lo is None:
                return v
            return (v >> sig.lo) & _mask(sig.hi - sig.lo + 1)
        v, off = 0, 0
        for p in sig.parts:
            v |= self.ev(inst, p) << off
            off += self.width(inst, p)
        return v

    def assign(self, inst, sig, value):
        """returns True if something changed"""
        if isinstance(sig, Ref):
            w = inst.mod.wires[sig.name].width
            old = inst.val[sig.name]
            if sig.lo is None:
                new = value & _mask(w)
            else:
                n = sig.hi - sig.lo + 1
                new = (old & ~(_mask(n) << sig.lo)) | ((value & _mask(n)) << sig.lo)
            inst.val[sig.name] = new
            return new != old
        if isinstance(sig, Cat):
            ch, off = False, 0
            for p in sig.parts:
                w = self.width(inst, p)
                ch |= self.assign(inst, p, (value >> off) & _mask(w))
                off += w
            return ch
        if isinstance(sig, Const):
            if sig.width == 0:
                return False
            raise InterpError("assignment to a constant")
        raise InterpError(f"bad lhs {sig!r}")

    def refs(self, inst, sig, acc):
        if isinstance(sig, Ref):
            acc.add((id(inst), sig.name))
        elif isinstance(sig, Cat):
            for p in sig.parts:
                self.refs(inst, p, acc)
        return acc

    def _build(self, inst):
        mod = inst.mod
        for lhs, rhs in mod.connects:
            self._node(inst, self.refs(inst, rhs, set()), self.refs(inst, lhs, set()),
                       (lambda i=inst, l=lhs, r=rhs: self.assign(i, l, self.ev(i, r))))
        for proc in mod.processes:
            rd, wr = set(), set()
            self._proc_refs(inst, proc.body, rd, wr)
            self._node(inst, rd, wr, (lambda i=inst, p=proc: self._run_proc(i, p)))
        for cell in mod.cells:
            t = cell.type
            if t in self.modules:
                child = inst.children[cell.name]
                for port, sig in cell.conns.items():
                    w = child.mod.wires.get(port)
                    if w is None:
                        raise InterpError(f"submodule cell {cell.name}: no port {port} in {t}")
                    pref = Ref(port)
                    if w.direction == "input":
                        self._node(inst, self.refs(inst, sig, set()), {(id(child), port)},
                                   (lambda i=inst, c=child, s=sig, pr=pref: self.assign(c, pr, self.ev(i, s))))
                    elif w.direction == "output":
                        self._node(inst, {(id(child), port)}, self.refs(inst, sig, set()),
                                   (lambda i=inst, c=child, s=sig, pr=pref: self.assign(i, s, self.ev(c, pr))))
                    else:
                        raise InterpError(f"inout submodule ports are not interpreted ({cell.name}.{port})")
                self._build(child)
            elif t in COMB_BIN or t in COMB_UN or t == "$mux":
                rd = set()
                for port in ("\\A", "\\B", "\\S"):
                    if port in cell.conns:
                        self.refs(inst, cell.conns[port], rd)
                self._node(inst, rd, self.refs(inst, cell.conns["\\Y"], set()), (lambda i=inst, c=cell: self._comb_cell(i, c)))
            elif t in ("$dff", "$adff"):
                self.seq.append({"kind": t, "inst": inst, "cell": cell, "clk": 0})
                if t == "$adff":
                    # asynchronous reset is level sensitive: modelled as a comb override node on Q
                    pass
            elif t == "$memwr_v2":
                self.seq.append({"kind": t, "inst": inst, "cell": cell, "clk": 0})
            elif t == "$memrd_v2":
                if self._p(cell, "\\CLK_ENABLE"):
                    self.seq.append({"kind": t, "inst": inst, "cell": cell, "clk": 0})
                    if isinstance(cell.conns["\\DATA"], Ref):
                        self.undef.add((id(inst), cell.conns["\\DATA"].name))
                else:
                    rd = self.refs(inst, cell.conns["\\ADDR"], set())
                    rd.add((id(inst), "mem:" + self._memid(cell)))
                    self._node(inst, rd, self.refs(inst, cell.conns["\\DATA"], set()), (lambda i=inst, c=cell: self._async_read(i, c)))
            elif t == "$meminit_v2":
                pass
            elif t in ("$print", "$check"):
                self.seq.append({"kind": t, "inst": inst, "cell": cell, "clk": 0, "last": None})
            elif t == "$tribuf":
                rd = self.refs(inst, cell.conns["\\A"], set()) | self.refs(inst, cell.conns["\\EN"], set())
                self._node(inst, rd, self.refs(inst, cell.conns["\\Y"], set()), (lambda i=inst, c=cell: self._tribuf(i, c)))
            elif t in ("$anyconst", "$anyseq", "$allconst", "$allseq", "$initstate"):
                pass      # free inputs, left at 0 ($initstate: 1 before the first edge is not modelled)
            elif t.startswith("$"):
                raise InterpError(f"cell type {t} is not in the interpreted subset")
            else:
                pass      # foreign instance: black box, outputs stay 0

    def _node(self, inst, rd, wr, fn):
        self.nodes.append((rd, wr, fn))

    def _proc_refs(self, inst, body, rd, wr):
        for st in body:
            if st[0] == "assign":
                self.refs(inst, st[1], wr)
                self.refs(inst, st[2], rd)
            else:
                self.refs(inst, st[1], rd)
                for _p, b in st[2]:
                    self._proc_refs(inst, b, rd, wr)

    def _order(self):
        """topological order at wire granularity (best effort); settle() iterates to a fixed point anyway"""
        n = len(self.nodes)
        writers = {}
        for k, (rd, wr, fn) in enumerate(self.nodes):
            for w in wr:
                writers.setdefault(w, []).append(k)
        deps = [set() for _ in range(n)]
        for k, (rd, wr, fn) in enumerate(self.nodes):
            for r in rd:
                for j in writers.get(r, ()):
                    if j != k:
                        deps[k].add(j)
        order, done, temp = [], set(), set()

        def visit(k):
            stack = [(k, iter(deps[k]))]
            temp.add(k)
            while stack:
                node, it = stack[-1]
                for j in it:
                    if j in done or j in temp:
                        continue
                    temp.add(j)
                    stack.append((j, iter(deps[j])))
                    break
                else:
                    stack.pop()
                    temp.discard(node)
                    done.add(node)
                    order.append(node)
        for k in range(n):
            if k not in done:
                visit(k)
        self.nodes = [self.nodes[k] for k in order]

    def _p(self, cell, name, default=None):
        if name not in cell.params:
            if default is not None:
                return default
            raise InterpError(f"cell {cell.name} ({cell.type}) lacks parameter {name}")
        v = cell.params[name][0]
        if isinstance(v, Const):
            return v.value()
        return v

    def _memid(self, cell):
        v = cell.params["\\MEMID"][0]
        return v if isinstance(v, str) else str(v)

    def _init_state(self):
        def walk(inst):
            for name, w in inst.mod.wires.items():
                init = w.attrs.get("\\init")
                if isinstance(init, Const):
                    inst.val[name] = init.value() & _mask(w.width)
            for cell in inst.mod.cells:
                if cell.type == "$meminit_v2":
                    memid = self._memid(cell)
                    mem = inst.mems[memid]
                    width = self._p(cell, "\\WIDTH")
                    words = self._p(cell, "\\WORDS")
                    addr = self.ev(inst, cell.conns["\\ADDR"])
                    data = cell.conns["\\DATA"]
                    en = self.ev(inst, cell.conns["\\EN"])
                    dv = self.ev(inst, data)
                    for k in range(words):
                        if addr + k < len(mem):
                            word = (dv >> (k * width)) & _mask(width)
                            mem[addr + k] = (mem[addr + k] & ~en) | (word & en)
            for ch in inst.children.values():
                walk(ch)
        walk(self.top)

    # ------------------------------------------------------------ combinational evaluation
    def settle(self):
        for _ in range(len(self.nodes) + 3):
            changed = False
            for rd, wr, fn in self.nodes:
                if fn():
                    changed = True
            # asynchronous resets are level sensitive
            for s in self.seq:
                if s["kind"] == "$adff":
                    inst, cell = s["inst"], s["cell"]
                    if self.ev(inst, cell.conns["\\ARST"]) == self._p(cell, "\\ARST_POLARITY"):
                        if self.assign(inst, cell.conns["\\Q"], self._p(cell, "\\ARST_VALUE")):
                            changed = True
            if not changed:
                return
        raise InterpError("combinational logic does not settle (loop)")

    def _run_proc(self, inst, proc):
        # evaluate into a shadow copy so that a process never observes its own partial assignments
        pending = []

        def run(body):
            # RTLIL keeps the actions and the switches of a case body in two separate lists: all `assign` actions of a body take effect
            # before any of its switches, whatever their order in the text (kernel/rtlil.h CaseRule; proc passes rely on it)
            for st in body:
                if st[0] == "assign":
                    pending.append((st[1], self.ev(inst, st[2])))
            for st in body:
                if st[0] != "assign":
                    sel = self.ev(inst, st[1])
                    w = self.width(inst, st[1])
                    for pats, b in st[2]:
                        if not pats or any(self._pat(sel, w, p) for p in pats):
                            run(b)
                            break
        run(proc.body)
        # later assignment wins: apply in order on a scratch of the touched wires
        scratch = {}
        for lhs, v in pending:
            self._shadow_assign(inst, lhs, v, scratch)
        ch = False
        for name, v in scratch.items():
            if inst.val[name] != v:
                inst.val[name] = v
                ch = True
        return ch

    def _shadow_assign(self, inst, sig, value, scratch):
        if isinstance(sig, Ref):
            w = inst.mod.wires[sig.name].width
            old = scratch.get(sig.name, inst.val[sig.name])
            if sig.lo is None:
                new = value & _mask(w)
            else:
                n = sig.hi - sig.lo + 1
                new = (old & ~(_mask(n) << sig.lo)) | ((value & _mask(n)) << sig.lo)
            scratch[sig.name] = new
        elif isinstance(sig, Cat):
            off = 0
            for p in sig.parts:
                w = self.width(inst, p)
                self._shadow_assign(inst, p, (value >> off) & _mask(w), scratch)
                off += w
        elif isinstance(sig, Const) and sig.width == 0:
            pass
        else:
            raise InterpError("process assigns to a constant")

    @staticmethod
    def _pat(sel, w, pat):
        if len(pat) != w:
            raise InterpError(f"case pattern width {len(pat)} != switch width {w}")
        for n, ch in enumerate(reversed(pat)):
            if ch in "01" and ((sel >> n) & 1) != int(ch):
                return False
        return True

    def _comb_cell(self, inst, cell):
        t = cell.type
        yw = self._p(cell, "\\Y_WIDTH") if t != "$mux" else self._p(cell, "\\WIDTH")
        if t == "$mux":
            a, b, s = (self.ev(inst, cell.conns[p]) for p in ("\\A", "\\B", "\\S"))
            return self.assign(inst, cell.conns["\\Y"], b if s & 1 else a)
        aw = self._p(cell, "\\A_WIDTH")
        asg = bool(self._p(cell, "\\A_SIGNED"))
        a_raw = self.ev(inst, cell.conns["\\A"]) & _mask(aw)
        if t in COMB_UN:
            if t in ("$not", "$neg", "$pos"):
                a = _sext(a_raw, aw, asg)
                y = ~a if t == "$not" else -a if t == "$neg" else a
            elif t == "$reduce_and":
                y = int(a_raw == _mask(aw))
            elif t in ("$reduce_or", "$reduce_bool"):
                y = int(a_raw != 0)
            elif t == "$reduce_xor":
                y = bin(a_raw).count("1") & 1
            elif t == "$reduce_xnor":
                y = 1 - (bin(a_raw).count("1") & 1)
            elif t == "$logic_not":
                y = int(a_raw == 0)
            return self.assign(inst, cell.conns["\\Y"], y & _mask(yw))
        bw = self._p(cell, "\\B_WIDTH")
        bsg = bool(self._p(cell, "\\B_SIGNED"))
        b_raw = self.ev(inst, cell.conns["\\B"]) & _mask(bw)
        both = asg and bsg
        if t in ("$and", "$or", "$xor", "$xnor", "$add", "$sub", "$mul"):
            a, b = _sext(a_raw, aw, both), _sext(b_raw, bw, both)
            y = {"$and": a & b, "$or": a | b, "$xor": a ^ b, "$xnor": ~(a ^ b), "$add": a + b, "$sub": a - b, "$mul": a * b}[t]
        elif t in ("$divfloor", "$modfloor", "$div", "$mod"):
            a, b = _sext(a_raw, aw, both), _sext(b_raw, bw, both)
            if b == 0:
                y = 0         # undefined in RTLIL; the caller masks such points (Amaranth guards division by zero with a $mux)
            elif t == "$divfloor":
                y = a // b
            elif t == "$modfloor":
                y = a % b
            elif t == "$div":
                y = abs(a) // abs(b) * (1 if (a < 0) == (b < 0) else -1)
            else:
                y = a - b * (abs(a) // abs(b) * (1 if (a < 0) == (b < 0) else -1))
        elif t in ("$eq", "$ne", "$lt", "$le", "$gt", "$ge"):
            a, b = _sext(a_raw, aw, both), _sext(b_raw, bw, both)
            y = int({"$eq": a == b, "$ne": a != b, "$lt": a < b, "$le": a <= b, "$gt": a > b, "$ge": a >= b}[t])
        elif t in ("$logic_and", "$logic_or"):
            y = int((a_raw != 0 and b_raw != 0) if t == "$logic_and" else (a_raw != 0 or b_raw != 0))
        elif t in ("$shl", "$sshl"):
            y = _sext(a_raw, aw, asg) << b_raw
        elif t == "$shr":
            w = max(aw, yw)
            y = (_sext(a_raw, aw, asg) & _mask(w)) >> b_raw
        elif t == "$sshr":
            y = _sext(a_raw, aw, asg) >> b_raw
        elif t in ("$shift", "$shiftx"):
            w = max(aw, yw)
            a = _sext(a_raw, aw, asg) & _mask(w)
            if self.signed_shift_fill:
                a = _sext(a_raw, aw, asg)
            b = _sext(b_raw, bw, bsg)
            y = (a >> b) if b >= 0 else (a << -b)
        else:
            raise InterpError(t)
        return self.assign(inst, cell.conns["\\Y"], y & _mask(yw))

    def _async_read(self, inst, cell):
        mem = inst.mems[self._memid(cell)]
        addr = self.ev(inst, cell.conns["\\ADDR"])
        v = mem[addr] if addr < len(mem) else 0
        return self.assign(inst, cell.conns["\\DATA"], v)

    def _tribuf(self, inst, cell):
        if self.ev(inst, cell.conns["\\EN"]) & 1:
            return self.assign(inst, cell.conns["\\Y"], self.ev(inst, cell.conns["\\A"]))
        return False

    # ------------------------------------------------------------ time
    def _snap_clocks(self):
        for s in self.seq:
            cell = s["cell"]
            port = "\\TRG" if s["kind"] in ("$print", "$check") else "\\CLK"
            s["clk"] = self.ev(s["inst"], cell.conns[port]) if port in cell.conns else 0

    def set(self, inputs):
        """one instant: apply top-level input values {name: int}"""
        self.events = []
        top = self.top
        # phase 0: sample everything sequential cells need from the settled pre-instant state
        pre = []
        for s in self.seq:
            inst, cell, k = s["inst"], s["cell"], s["kind"]
            if k in ("$dff", "$adff"):
                pre.append(self.ev(inst, cell.conns["\\D"]))
            elif k == "$memwr_v2":
                pre.append((self.ev(inst, cell.conns["\\ADDR"]), self.ev(inst, cell.conns["\\DATA"]), self.ev(inst, cell.conns["\\EN"])))
            elif k == "$memrd_v2":
                pre.append((self.ev(inst, cell.conns["\\ADDR"]), self.ev(inst, cell.conns["\\EN"]),
                            self.ev(inst, cell.conns["\\SRST"]) if "\\SRST" in cell.conns else 0))
            else:
                pre.append((self.ev(inst, cell.conns["\\EN"]), self.ev(inst, cell.conns["\\ARGS"]),
                            self.ev(inst, cell.conns["\\A"]) if "\\A" in cell.conns else 1))
        for name, v in inputs.items():
            wname = "\\" + name
            w = top.mod.wires.get(wname)
            if w is None:
                raise InterpError(f"no top-level wire {name}")
            top.val[wname] = v & _mask(w.width)
        self.settle()
        # phase 1: which cells see an active edge
        fired = []
        for s, p in zip(self.seq, pre):
            inst, cell, k = s["inst"], s["cell"], s["kind"]
            if k in ("$print", "$check"):
                if self._p(cell, "\\TRG_ENABLE"):
                    new = self.ev(inst, cell.conns["\\TRG"])
                    pol = self._p(cell, "\\TRG_POLARITY")
                    w = self._p(cell, "\\TRG_WIDTH")
                    hit = False
                    for bit in range(w):
                        o, n_ = (s["clk"] >> bit) & 1, (new >> bit) & 1
                        want = (pol >> bit) & 1 if isinstance(pol, int) else 1
                        if o != n_ and n_ == want:
                            hit = True
                    if hit:
                        fired.append((s, p))
                continue
            new = self.ev(inst, cell.conns["\\CLK"])
            pol = self._p(cell, "\\CLK_POLARITY")
            if s["clk"] != new and new == pol:
                fired.append((s, p))
        # phase 2: memory writes are collected, reads see pre-edge contents patched by transparent writers
        writes = []
        for s, p in fired:
            if s["kind"] == "$memwr_v2":
                inst, cell = s["inst"], s["cell"]
                addr, data, en = p
                writes.append((inst, self._memid(cell), self._p(cell, "\\PORTID"), addr, data, en))
        for s, p in fired:
            inst, cell, k = s["inst"], s["cell"], s["kind"]
            if k in ("$dff", "$adff"):
                self.assign(inst, cell.conns["\\Q"], p)
            elif k == "$memrd_v2":
                addr, en, srst = p
                if en & 1:
                    memid = self._memid(cell)
                    mem = inst.mems[memid]
                    v = mem[addr] if addr < len(mem) else 0
                    tmask = cell.params["\\TRANSPARENCY_MASK"][0]
                    tm = tmask.value() if isinstance(tmask, Const) else int(tmask)
                    for (winst, wmem, portid, waddr, wdata, wen) in writes:
                        if winst is inst and wmem == memid and waddr == addr and (tm >> portid) & 1:
                            v = (v & ~wen) | (wdata & wen)
                    self.assign(inst, cell.conns["\\DATA"], v)
                    if isinstance(cell.conns["\\DATA"], Ref):
                        self.undef.discard((id(inst), cell.conns["\\DATA"].name))
            elif k in ("$print", "$check"):
                en, args, a = p
                if en & 1:
                    self.events.append((k, cell.name, args, a, cell.params.get("\\FLAVOR", (None,))[0]))
        for (inst, memid, portid, addr, data, en) in writes:
            mem = inst.mems[memid]
            if addr < len(mem):
                mem[addr] = (mem[addr] & ~en) | (data & en)
        self.settle()
        self._snap_clocks()

    def get(self, name):
        return self.top.val["\\" + name]

    def poke(self, values):
        """force top-level wires (registers) to values without any edge; used to load a state"""
        for name, v in values.items():
            w = self.top.mod.wires["\\" + name]
            self.top.val["\\" + name] = v & _mask(w.width)
        self.settle()
        self._snap_clocks()

    def poke_all(self, values):
        """force every wire with the given name anywhere in the hierarchy (the register itself may live in a submodule and
        reach the top through port connections); names must be unique per design"""
        def walk(inst):
            for name, v in values.items():
                w = inst.mod.wires.get("\\" + name)
                if w is not None:
                    inst.val["\\" + name] = v & _mask(w.width)
            for ch in inst.children.values():
                walk(ch)
        walk(self.top)
        self.settle()
        self._snap_clocks()

    def find_mem(self, name):
        """memory contents list by (unique) memory name anywhere in the hierarchy"""
        found = []

        def walk(inst):
            for n, rows in inst.mems.items():
                if n == "\\" + name:
                    found.append(rows)
            for ch in inst.children.values():
                walk(ch)
        walk(self.top)
        return found

    def snapshot(self):
        snap = []

        def walk(inst):
            snap.append((dict(inst.val), {k: list(v) for k, v in inst.mems.items()}))
            for name in sorted(inst.children):
                walk(inst.children[name])
        walk(self.top)
        return (snap, [s["clk"] for s in self.seq], set(self.undef))

    def restore(self, snapshot):
        snap, clks, undef = snapshot
        it = iter(snap)

        def walk(inst):
            val, mems = next(it)
            inst.val = dict(val)
            inst.mems = {k: list(v) for k, v in mems.items()}
            for name in sorted(inst.children):
                walk(inst.children[name])
        walk(self.top)
        for s, c in zip(self.seq, clks):
            s["clk"] = c
        self.undef = set(undef)

    def is_undef(self, name):
        return (id(self.top), "\\" + name) in self.undef

    def state(self):
        """hashable snapshot of every register, memory row and clock sample (for joint-state deduplication)"""
        out = []

        def walk(inst):
            out.append(tuple(inst.val[n] for n in sorted(inst.val)))
            for name in sorted(inst.mems):
                out.append(tuple(inst.mems[name]))
            for name in sorted(inst.children):
                walk(inst.children[name])
        walk(self.top)
        return tuple(out)
