"""RTLIL text -> plain data structures. Accepts the subset described in DESIGN.md Appendix A; anything else
raises ParseError (which C07 reports as a structural violation)."""
import re


class ParseError(Exception):
    pass


class Const:
    __slots__ = ("bits", "kind")   # bits: str MSB first over 01x-  ;  kind: 'bits' | 'int' | 'str'

    def __init__(self, bits, kind="bits", raw=None):
        self.bits, self.kind = bits, kind

    def __repr__(self):
        return f"Const({self.bits!r},{self.kind})"

    @property
    def width(self):
        return len(self.bits)

    def value(self):
        return int(self.bits.replace("x", "0").replace("-", "0") or "0", 2)


class Ref:
    __slots__ = ("name", "lo", "hi")   # wire reference, bits [lo, hi] inclusive; None = whole wire

    def __init__(self, name, lo=None, hi=None):
        self.name, self.lo, self.hi = name, lo, hi

    def __repr__(self):
        return f"Ref({self.name},{self.lo},{self.hi})"


class Cat:
    __slots__ = ("parts",)           # LSB first (the text is MSB first; reversed while parsing)

    def __init__(self, parts):
        self.parts = parts

    def __repr__(self):
        return f"Cat({self.parts})"


class Wire:
    def __init__(self, name, width, direction, port_id, signed, attrs):
        self.name, self.width, self.direction, self.port_id, self.signed, self.attrs = name, width, direction, port_id, signed, attrs


class Memory:
    def __init__(self, name, width, size, attrs):
        self.name, self.width, self.size, self.attrs = name, width, size, attrs


class Cell:
    def __init__(self, type_, name, attrs):
        self.type, self.name, self.attrs = type_, name, attrs
        self.params = {}       # name -> (value, flag) value: int | str | Const ; flag: None|'signed'|'real'
        self.conns = {}        # port -> sigspec
        self.conn_order = []


class Process:
    def __init__(self, name, attrs):
        self.name, self.attrs = name, attrs
        self.body = []         # ("assign", lhs, rhs) | ("switch", sig, [(patterns, body), ...])


class Module:
    def __init__(self, name, attrs):
        self.name, self.attrs = name, attrs
        self.wires, self.memories, self.cells, self.processes, self.connects = {}, {}, [], [], []
        self.order = []        # declaration order of names (for duplicate detection)


TOKEN = re.compile(r'''\s*(?:(?P<str>"(?:[^"\\]|\\.)*")|(?P<const>\d+'[01xzm-]*)|(?P<int>-?\d+)|(?P<id>[\\$][^\s]+)|(?P<p>[\[\]{}:,])|(?P<word>[A-Za-z_][A-Za-z_0-9]*))''')


def tokenize(line):
    out, pos = [], 0
    line = line.rstrip()
    while pos < len(line):
        if line[pos:].strip() == "" or line[pos:].lstrip().startswith("#"):
            break
        m = TOKEN.match(line, pos)
        if not m:
            raise ParseError(f"cannot tokenize {line[pos:]!r}")
        pos = m.end()
        kind = m.lastgroup
        out.append((kind, m.group(kind)))
    return out


def unescape(s):
    body = s[1:-1]
    out, i = [], 0
    while i < len(body):
        ch = body[i]
        if ch == "\\":
            i += 1
            nx = body[i]
            if nx == "n":
                out.append("\n")
            elif nx == "t":
                out.append("\t")
            elif nx in "01234567":
                j = i
                while j < len(body) and j < i + 3 and body[j] in "01234567":
                    j += 1
                out.append(chr(int(body[i:j], 8)))
                i = j - 1
            else:
                out.append(nx)
        else:
            out.append(ch)
        i += 1
    return "".join(out)


class _TS:
    def __init__(self, toks, line):
        self.t, self.i, self.line = toks, 0, line

    def peek(self):
        return self.t[self.i] if self.i < len(self.t) else (None, None)

    def next(self):
        tok = self.peek()
        if tok[0] is None:
            raise ParseError(f"unexpected end of line: {self.line!r}")
        self.i += 1
        return tok

    def done(self):
        return self.i >= len(self.t)


def parse_const_tok(kind, text):
    if kind == "const":
        w, bits = text.split("'")
        w = int(w)
        # the RTLIL reader pads (with the last given digit, 0 for 1) or drops leading digits to reach the stated width
        if len(bits) > w:
            bits = bits[len(bits) - w:] if w else ""
        elif len(bits) < w:
            pad = bits[0] if bits and bits[0] in "xz-" else "0"
            bits = pad * (w - len(bits)) + bits
        return Const(bits)
    if kind == "int":
        v = int(text)
        return Const(format(v & 0xffffffff, "032b"), "int")
    if kind == "str":
        s = unescape(text)
        bits = "".join(format(b, "08b") for b in s.encode("latin-1", "replace"))
        c = Const(bits, "str")
        return c
    raise ParseError(f"expected a constant, got {text!r}")


def parse_sigspec(ts):
    kind, text = ts.next()
    if kind in ("const", "int", "str"):
        return parse_const_tok(kind, text)
    if kind == "id":
        ref = Ref(text)
        if ts.peek() == ("p", "["):
            ts.next()
            k1, a = ts.next()
            if k1 != "int":
                raise ParseError(f"bad index in {ts.line!r}")
            if ts.peek() == ("p", ":"):
                ts.next()
                k2, b = ts.next()
                if k2 != "int":
                    raise ParseError(f"bad index in {ts.line!r}")
                ref.hi, ref.lo = int(a), int(b)
            else:
                ref.hi = ref.lo = int(a)
            if ts.next() != ("p", "]"):
                raise ParseError(f"missing ] in {ts.line!r}")
        return ref
    if (kind, text) == ("p", "{"):
        parts = []
        while ts.peek() != ("p", "}"):
            parts.append(parse_sigspec(ts))
        ts.next()
        parts.reverse()
        return Cat(parts)
    raise ParseError(f"bad sigspec token {text!r} in {ts.line!r}")


def parse(text):
    """-> (dict name -> Module in document order, list of document-level problems)"""
    modules = {}
    lines = text.split("\n")
    i = 0
    attrs = {}
    mod = None
    stack = []      # nesting inside a module: ("cell", Cell) | ("process", Process, body-stack)
    problems = []

    def take_attrs():
        nonlocal attrs
        a, attrs = attrs, {}
        return a

    for lineno, line in enumerate(lines, 1):
        toks = tokenize(line)
        if not toks:
            continue
        ts = _TS(toks, line)
        kind, word = ts.next()
        if kind != "word":
            raise ParseError(f"line {lineno}: expected a keyword: {line!r}")
        ctx = stack[-1][0] if stack else ("module" if mod else "top")
        if word == "attribute":
            k, name = ts.next()
            if k != "id":
                raise ParseError(f"line {lineno}: bad attribute name")
            k, v = ts.next()
            attrs[name] = parse_const_tok(k, v) if k != "str" else unescape(v)
            continue
        if ctx == "top":
            if word == "module":
                k, name = ts.next()
                if name in modules:
                    problems.append(f"duplicate module {name}")
                mod = Module(name, take_attrs())
                modules[name] = mod
            elif word == "autoidx":
                pass
            else:
                raise ParseError(f"line {lineno}: unexpected {word!r} at top level")
            continue
        if ctx == "module":
            if word == "end":
                mod = None
                take_attrs()
            elif word == "wire":
                width, direction, pid, signed = 1, None, None, False
                name = None
                while not ts.done():
                    k, t = ts.next()
                    if k == "word" and t == "width":
                        width = int(ts.next()[1])
                    elif k == "word" and t in ("input", "output", "inout"):
                        direction = t
                        pid = int(ts.next()[1])
                    elif k == "word" and t == "signed":
                        signed = True
                    elif k == "word" and t in ("upto", "offset"):
                        raise ParseError(f"line {lineno}: unsupported wire option {t}")
                    elif k == "id":
                        name = t
                    else:
                        raise ParseError(f"line {lineno}: bad wire declaration {line!r}")
                if name is None:
                    raise ParseError(f"line {lineno}: wire without a name")
                if name in mod.wires or name in mod.memories or any(c.name == name for c in mod.cells):
                    problems.append(f"module {mod.name}: duplicate name {name}")
                mod.wires[name] = Wire(name, width, direction, pid, signed, take_attrs())
            elif word == "memory":
                width, size, name = 1, 0, None
                while not ts.done():
                    k, t = ts.next()
                    if k == "word" and t == "width":
                        width = int(ts.next()[1])
                    elif k == "word" and t == "size":
                        size = int(ts.next()[1])
                    elif k == "id":
                        name = t
                    else:
                        raise ParseError(f"line {lineno}: bad memory declaration {line!r}")
                if name in mod.wires or name in mod.memories:
                    problems.append(f"module {mod.name}: duplicate name {name}")
                mod.memories[name] = Memory(name, width, size, take_attrs())
            elif word == "cell":
                k, typ = ts.next()
                k2, name = ts.next()
                if k != "id" or k2 != "id":
                    raise ParseError(f"line {lineno}: bad cell header")
                if name in mod.wires or name in mod.memories or any(c.name == name for c in mod.cells) \
                        or any(p.name == name for p in mod.processes):
                    problems.append(f"module {mod.name}: duplicate name {name}")
                cell = Cell(typ, name, take_attrs())
                mod.cells.append(cell)
                stack.append(("cell", cell))
            elif word == "process":
                k, name = ts.next()
                if any(p.name == name for p in mod.processes) or name in mod.wires or any(c.name == name for c in mod.cells):
                    problems.append(f"module {mod.name}: duplicate name {name}")
                proc = Process(name, take_attrs())
                mod.processes.append(proc)
                stack.append(("process", proc, [("proc", proc.body)]))
            elif word == "connect":
                lhs = parse_sigspec(ts)
                rhs = parse_sigspec(ts)
                mod.connects.append((lhs, rhs))
            else:
                raise ParseError(f"line {lineno}: unexpected {word!r} in module")
            if not ts.done() and word in ("connect",):
                raise ParseError(f"line {lineno}: trailing tokens")
            continue
        if ctx == "cell":
            cell = stack[-1][1]
            if word == "end":
                stack.pop()
            elif word == "parameter":
                flag = None
                k, t = ts.next()
                if k == "word" and t in ("signed", "real"):
                    flag = t
                    k, t = ts.next()
                if k != "id":
                    raise ParseError(f"line {lineno}: bad parameter")
                k2, v = ts.next()
                if k2 == "str":
                    val = unescape(v)
                elif k2 == "int":
                    val = int(v)
                elif k2 == "const":
                    val = parse_const_tok(k2, v)
                else:
                    raise ParseError(f"line {lineno}: bad parameter value")
                if t in cell.params:
                    problems.append(f"cell {cell.name}: duplicate parameter {t}")
                cell.params[t] = (val, flag)
            elif word == "connect":
                k, port = ts.next()
                if k != "id":
                    raise ParseError(f"line {lineno}: bad port name")
                if port in cell.conns:
                    problems.append(f"cell {cell.name}: port {port} connected twice")
                cell.conns[port] = parse_sigspec(ts)
                cell.conn_order.append(port)
            else:
                raise ParseError(f"line {lineno}: unexpected {word!r} in cell")
            continue
        if ctx == "process":
            frames = stack[-1][2]          # list of ("proc"|"case", list) | ("switch", switch tuple)
            top = frames[-1]
            if word == "assign":
                if top[0] == "switch":
                    raise ParseError(f"line {lineno}: assign directly inside switch")
                lhs = parse_sigspec(ts)
                rhs = parse_sigspec(ts)
                top[1].append(("assign", lhs, rhs))
            elif word == "switch":
                if top[0] == "switch":
                    raise ParseError(f"line {lineno}: switch directly inside switch")
                sw = ("switch", parse_sigspec(ts), [])
                top[1].append(sw)
                frames.append(("switch", sw))
            elif word == "case":
                if top[0] == "case":
                    frames.pop()
                    top = frames[-1]
                if top[0] != "switch":
                    raise ParseError(f"line {lineno}: case outside switch")
                pats = []
                while not ts.done():
                    k, t = ts.next()
                    if k == "const":
                        pats.append(t.split("'")[1])
                    elif (k, t) == ("p", ","):
                        pass
                    else:
                        raise ParseError(f"line {lineno}: bad case pattern {t!r}")
                body = []
                top[1][2].append((pats, body))
                frames.append(("case", body))
            elif word == "end":
                if top[0] == "case":
                    frames.pop()
                    frames.pop()
                elif top[0] == "switch":
                    frames.pop()
                else:
                    stack.pop()
            else:
                raise ParseError(f"line {lineno}: unexpected {word!r} in process")
            continue
    if mod is not None or stack:
        raise ParseError("unterminated module / cell / process")
    return modules, problems
