"""C20 Print / Assert / Format match Python formatting at the right instants.

Part A (bounded-exhaustive enumeration): every specification string of a product alphabet x shapes x operand
forms: acceptance by `Format` must equal membership in the documented grammar; for accepted specifications the
text printed by a synchronous `Print` and the text carried by a failing `Assert` must equal Python's `format()`
of the value interpreted in its own shape, for all values (small widths) / corner values (larger widths).
Part B (all action sequences up to a stated length, every one a separate Simulator.run()): Print / Assert / Assume / Cover under If / Elif / Else
/ Switch nesting in a rising-edge and a falling-edge domain: output appears exactly at active edges for exactly
the statements whose enclosing conditions held just before the edge; `Simulator.run()` raises AssertionError at
exactly the first active edge with an active property whose test is zero, carrying that property's message.
"""
import contextlib
import io
import json
import itertools
import warnings

from ..core.pool import pmap, rotate, chunks
from ..gen import c20_gen as G
from ..ref import c20_ref as R

ID = "C20"
LEVEL = "exploration"

SEP = "\x1e\n"
BATCH = 160
MAX_VIOL_PER_TASK = 120
MAX_CONFIRM = 40          # fresh-simulator confirmations per timing task
MAX_CONFIRM_A = 100       # single-case confirmations per format task


def _new():
    return {"cov": {}, "samples": [], "violations": [], "_sigs": set()}


def _add(out, key, n=1):
    out["cov"][key] = out["cov"].get(key, 0) + n


def _viol(out, sig, what, payload):
    if sig in out["_sigs"]:
        return
    if len(out["violations"]) >= MAX_VIOL_PER_TASK:
        _add(out, "violations_suppressed")
        return
    out["_sigs"].add(sig)
    out["violations"].append({"sig": sig, "what": what, "payload": payload})


def _shape_name(w, sg):
    return ("s" if sg else "u") + str(w)


# ================================================================================================ part A
def make_operand(form, w, sg):
    from amaranth.hdl import Signal, Shape
    sig = Signal(Shape(w, sg), name="s")
    if form == "sig":
        return sig, sig
    if form == "inv":
        return sig, ~sig
    if form == "reinterp":
        return sig, (sig.as_unsigned() if sg else sig.as_signed())
    if form == "add1":
        return sig, sig + 1
    raise ValueError(form)


def make_format(spec, operand, prefix=""):
    """the specification reaches Format the way a user writes it; brace fill characters can only be written
    through a nested replacement field (exactly as with str.format)"""
    from amaranth.hdl import Format
    if "{" in spec or "}" in spec:
        return Format(prefix + "{:{}}", operand, spec)
    return Format(prefix + "{:" + spec + "}", operand)


def _sim_body(design, body):
    """run body(ctx) in one testbench of a fresh simulator; returns (stdout text, exception or None)"""
    from amaranth.sim import Simulator
    from ..sim.driver import elaborate
    frag = elaborate(design)
    sim = Simulator(frag)

    async def tb(ctx):
        body(ctx)
    sim.add_testbench(tb)
    buf = io.StringIO()
    exc = None
    with warnings.catch_warnings():
        warnings.simplefilter("ignore")
        with contextlib.redirect_stdout(buf):
            try:
                sim.run()
            except Exception as e:      # the caller decides what an exception means
                exc = e
    return buf.getvalue(), exc


def print_batch(form, w, sg, batch, values):
    """One design, one synchronous Print per specification; one clock pulse per value.
    -> (list of output texts per value, exception)"""
    from amaranth.hdl import Module, ClockDomain, Print
    sig, operand = make_operand(form, w, sg)
    m = Module()
    m.domains.sync = cd = ClockDomain("sync")
    for spec in batch:
        m.d.sync += Print(make_format(spec, operand), end=SEP)
    outs = []

    def body(ctx):
        import sys
        for v in values:
            ctx.set(sig, v)
            start = sys.stdout.tell()
            ctx.set(cd.clk, 1)
            mid = sys.stdout.tell()
            ctx.set(cd.clk, 0)
            sys.stdout.seek(start)
            text = sys.stdout.read()
            outs.append((text, sys.stdout.tell() - mid))
    _text, exc = _sim_body(m, body)
    return outs, exc


def assert_batch(form, w, sg, batch, values):
    """One design, one Assert per specification, each in its own arm of a Switch on `sel`; for every value and
    every arm one rising edge; the AssertionError is caught at the ctx.set that made the edge.
    -> (dict (spec index, value) -> message or None, exception)"""
    from amaranth.hdl import Module, ClockDomain, Assert, Signal
    sig, operand = make_operand(form, w, sg)
    m = Module()
    m.domains.sync = cd = ClockDomain("sync")
    sel = Signal(range(len(batch) + 2), name="sel")
    never = Signal(name="never")
    with m.Switch(sel):
        for i, spec in enumerate(batch):
            with m.Case(i + 1):
                m.d.sync += Assert(never, make_format(spec, operand))
    msgs = {}
    spurious = []

    def body(ctx):
        for v in values:
            ctx.set(sig, v)
            for i in range(len(batch)):
                ctx.set(sel, i + 1)
                try:
                    ctx.set(cd.clk, 1)
                    msgs[(i, v)] = None
                except AssertionError as e:
                    msgs[(i, v)] = str(e)
                try:
                    ctx.set(cd.clk, 0)
                except AssertionError as e:
                    msgs[(i, v)] = None        # raised (again) on the inactive edge
                    spurious.append((i, v))
            ctx.set(sel, 0)
    text, exc = _sim_body(m, body)
    if text and exc is None:
        exc = RuntimeError("unexpected stdout from an Assert-only design: %r" % text[:60])
    return msgs, exc


def single_case(form, w, sg, spec, v):
    """The replayable unit: one specification, one value, fresh simulators; Print text, then the message of
    the AssertionError raised by Simulator.run().  -> list of problems (strings)"""
    from amaranth.hdl import Module, ClockDomain, Print, Assert, Signal
    ow, osg = R.form_shape(form, w, sg)
    val = R.form_value(form, v, w, sg)
    want = R.expected_text(spec, val, ow)
    if want is None:
        return []
    problems = []
    try:
        sig, operand = make_operand(form, w, sg)
        fmt = make_format(spec, operand)
        fmt2 = make_format(spec, operand, prefix="|")
    except Exception as e:
        return [f"Format rejects the specification: {type(e).__name__}"]
    m = Module()
    m.domains.sync = cd = ClockDomain("sync")
    m.d.sync += Print(fmt, end=SEP)

    def body(ctx):
        ctx.set(sig, v)
        ctx.set(cd.clk, 1)
        ctx.set(cd.clk, 0)
    text, exc = _sim_body(m, body)
    if exc is not None:
        problems.append(f"Print: simulation raises {type(exc).__name__} ({exc}); Python's format gives {want!r}")
    elif text != want + SEP:
        problems.append(f"Print: simulation printed {text[:-len(SEP)]!r}, Python's format gives {want!r}")
    m = Module()
    m.domains.sync = cd = ClockDomain("sync")
    never = Signal(name="never")
    m.d.sync += Assert(never, fmt2)
    text, exc = _sim_body(m, body)
    if not isinstance(exc, AssertionError):
        problems.append(f"Assert: run() raised {type(exc).__name__ if exc else 'nothing'} ({exc}) instead of AssertionError "
                        f"carrying {want!r}")
    elif not str(exc).endswith("|" + want):
        problems.append(f"Assert: message {str(exc)!r} does not end with {want!r}")
    return problems


def _split_batch(text, expected):
    """indices of the specifications whose chunk of `text` differs from the expectation (resynchronising on SEP)"""
    bad, pos = [], 0
    for i, e in enumerate(expected):
        e2 = e + SEP
        if text.startswith(e2, pos):
            pos += len(e2)
            continue
        bad.append(i)
        nxt = text.find(SEP, pos)
        if nxt < 0:
            bad.extend(range(i + 1, len(expected)))
            return bad
        pos = nxt + len(SEP)
    if pos != len(text) and not bad:
        bad.append(len(expected) - 1)
    return bad


def w_format(task):
    """all specifications of one chunk for one (shape, operand form)"""
    w, sg, form, specs, values, avalues, tier = task
    out = _new()
    warnings.simplefilter("ignore")
    ow, osg = R.form_shape(form, w, sg)
    shp = _shape_name(w, sg)
    try:
        sig, operand = make_operand(form, w, sg)
    except Exception as e:
        raise RuntimeError(f"cannot build operand form {form} for {shp}: {e!r}")
    groups = {"i": [], "c": [], "s": []}
    for spec in specs:
        want = R.grammar_accepts(spec, ow, osg)
        try:
            make_format(spec, operand)
            got, cls = True, None
        except Exception as e:
            got, cls = False, type(e).__name__
        _add(out, "evaluations")
        _add(out, "spec_decisions")
        _add(out, "accepted" if got else "rejected")
        _add(out, "grammar_valid" if want else "grammar_invalid")
        if not got:
            out["cov"].setdefault("reject_classes", {})
            out["cov"]["reject_classes"][cls] = out["cov"]["reject_classes"].get(cls, 0) + 1
        if got != want:
            _viol(out, f"accept:{form}:{shp}:{spec!r}:amaranth={'accepts' if got else 'rejects'}",
                  f"Format({'{:' + spec + '}'!r}, <{form} of {shp}>) is {'accepted' if got else 'rejected (' + str(cls) + ')'} but the "
                  f"documented grammar says {'valid' if want else 'invalid'}",
                  {"kind": "accept", "form": form, "w": w, "sg": sg, "spec": spec})
            continue
        if got:
            if not R.python_accepts(spec):
                _viol(out, f"accept:{form}:{shp}:{spec!r}:python-rejects",
                      f"specification {spec!r} is accepted by Format and by the documented grammar but Python's format() rejects it",
                      {"kind": "accept", "form": form, "w": w, "sg": sg, "spec": spec})
                continue
            groups[R.spec_class(spec)].append(spec)
    for cls, glist in groups.items():
        for batch in chunks(glist, BATCH):
            _format_batch(out, form, w, sg, batch, values, avalues)
    del out["_sigs"]
    return out


def _probe_values(runner, form, w, sg, batch, vals):
    """a whole batch raised: find the values (at most 24 tried) with which it raises, suspect every specification"""
    bad = []
    for v in vals[:24]:
        _r, exc = runner(form, w, sg, batch, [v])
        if exc is not None:
            bad.append(v)
    if not bad:
        bad = vals[:1]
    return [(spec, v) for v in bad[:3] for spec in batch]


def _format_batch(out, form, w, sg, batch, values, avalues):
    ow, osg = R.form_shape(form, w, sg)
    shp = _shape_name(w, sg)
    # values for which every specification of the batch has an expectation (batches are homogeneous in type class)
    def usable(vs):
        return [v for v in vs if R.expected_text(batch[0], R.form_value(form, v, w, sg), ow) is not None]
    skipped = len(values) - len(usable(values))
    if skipped:
        _add(out, "values_without_expectation", skipped * len(batch))
    vals = usable(values)
    avals = usable(avalues)
    if not vals:
        return
    suspects = []          # (spec, v)
    outs, exc = print_batch(form, w, sg, batch, vals)
    if exc is not None:
        _add(out, "batches_with_exception")
        suspects = _probe_values(print_batch, form, w, sg, batch, vals)
    else:
        for v, (text, tail) in zip(vals, outs):
            val = R.form_value(form, v, w, sg)
            expected = [R.expected_text(spec, val, ow) for spec in batch]
            _add(out, "evaluations", len(batch))
            _add(out, "print_texts_compared", len(batch))
            for spec, e in zip(batch, expected):
                if e != str(val):
                    _add(out, "distinct_nontrivial")
            if tail:
                suspects.append((batch[0], v))
                _add(out, "output_on_inactive_edge")
            if text != "".join(e + SEP for e in expected):
                for i in _split_batch(text, expected):
                    suspects.append((batch[i], v))
        if len(out["samples"]) < 2:
            v = vals[-1]
            out["samples"].append({"part": "format", "operand": f"{form} of {shp}", "spec": batch[len(batch) // 2], "value": v,
                                   "text": R.expected_text(batch[len(batch) // 2], R.form_value(form, v, w, sg), ow)})
    if avals:
        msgs, exc = assert_batch(form, w, sg, batch, avals)
        if exc is not None:
            _add(out, "batches_with_exception")
            suspects += _probe_values(assert_batch, form, w, sg, batch, avals)
        else:
            prefixes = set()
            for (i, v), msg in msgs.items():
                e = R.expected_text(batch[i], R.form_value(form, v, w, sg), ow)
                _add(out, "evaluations")
                _add(out, "assert_texts_compared")
                if msg is None or not msg.endswith(e):
                    suspects.append((batch[i], v))
                else:
                    prefixes.add(msg[:len(msg) - len(e)] if e else msg)
            if len(prefixes) > 1 and not any(spec.endswith("s") for spec in batch):
                # the part of the message in front of the text must not depend on the specification / value
                short = min(prefixes, key=len)
                for (i, v), msg in msgs.items():
                    e = R.expected_text(batch[i], R.form_value(form, v, w, sg), ow)
                    if msg is not None and msg != short + e:
                        suspects.append((batch[i], v))
    # every suspect is confirmed by the replayable single-case run before it is reported
    seen = set()
    for spec, v in suspects:
        if spec in seen or len(out["violations"]) >= MAX_VIOL_PER_TASK or out["cov"].get("single_case_confirmations", 0) >= MAX_CONFIRM_A:
            if spec not in seen:
                _add(out, "violations_suppressed")
            continue
        problems = single_case(form, w, sg, spec, v)
        _add(out, "single_case_confirmations")
        if problems:
            seen.add(spec)
            _viol(out, f"text:{form}:{shp}:{spec!r}:v={v}", f"{{:{spec}}} applied to <{form} of {shp}> = {v}: " + "; ".join(problems),
                  {"kind": "text", "form": form, "w": w, "sg": sg, "spec": spec, "v": v})
        else:
            _add(out, "batch_suspects_not_confirmed")
            _viol(out, f"batch:{form}:{shp}:{spec!r}:v={v}",
                  f"{{:{spec}}} on <{form} of {shp}> = {v} is rendered correctly alone but wrongly inside a batch of "
                  f"{len(batch)} statements", {"kind": "batch", "form": form, "w": w, "sg": sg, "batch": batch, "spec": spec, "v": v})


# ================================================================================================ part A2
def _print_signals():
    from amaranth.hdl import Signal, signed
    return Signal(4, name="a"), Signal(signed(4), name="b"), Signal(1, name="c")


def _print_arg(arg, sigs):
    from amaranth.hdl import Format
    a, b, c = sigs
    kind, what = arg
    if kind == "v":
        return {"a": a, "b": b, "c": c, "amb": a - b}[what]
    if kind == "f":
        return Format("{:02x}", a) if what == "hex" else Format("b={}|{{}}", b)
    return what


def make_print(case, sigs):
    from amaranth.hdl import Print
    args, sep, end = case
    kw = {}
    if sep is not None:
        kw["sep"] = sep
    if end is not None:
        kw["end"] = end
    return Print(*[_print_arg(x, sigs) for x in args], **kw)


def _case_name(case):
    args, sep, end = case
    return "(" + ",".join(f"{k}:{w}" for k, w in args) + f"):sep={sep!r}:end={end!r}"


def print_args_batch(cases, values):
    """One design; every Print sits in its own arm of a Switch on `sel`; one rising edge per (case, value).
    -> (constructed flags / exception class per case, {(index, value index): text}, exception of the run)"""
    from amaranth.hdl import Module, ClockDomain, Signal
    sigs = _print_signals()
    m = Module()
    m.domains.sync = cd = ClockDomain("sync")
    sel = Signal(range(len(cases) + 2), name="sel")
    built = []
    with m.Switch(sel):
        for i, case in enumerate(cases):
            try:
                stmt = make_print(case, sigs)
            except Exception as e:
                built.append(type(e).__name__)
                continue
            built.append(None)
            with m.Case(i + 1):
                m.d.sync += stmt
    texts = {}

    def body(ctx):
        import sys
        a, b, c = sigs
        for vi, (va, vb, vc) in enumerate(values):
            ctx.set(a, va)
            ctx.set(b, vb)
            ctx.set(c, vc)
            for i in range(len(cases)):
                if built[i] is not None:
                    continue
                ctx.set(sel, i + 1)
                start = sys.stdout.tell()
                ctx.set(cd.clk, 1)
                ctx.set(cd.clk, 0)
                texts[(i, vi)] = sys.stdout.getvalue()[start:]
            ctx.set(sel, 0)
    _text, exc = _sim_body(m, body)
    return built, texts, exc


def single_print_case(case, values):
    """replayable unit: one Print statement alone in a design -> list of problems"""
    case = (tuple(tuple(x) for x in case[0]), case[1], case[2])
    built, texts, exc = print_args_batch([case], values)
    if built[0] is not None:
        return [f"constructing Print{_case_name(case)} raises {built[0]}"]
    if exc is not None:
        return [f"simulation of Print{_case_name(case)} raises {type(exc).__name__}: {exc}"]
    out = []
    for vi, vals in enumerate(values):
        want = R.expected_print(case[0], case[1], case[2], vals)
        if texts.get((0, vi)) != want:
            out.append(f"Print{_case_name(case)} with (a, b, c) = {vals}: simulation printed {texts.get((0, vi))!r}, Python's print() "
                       f"writes {want!r}")
    return out


def w_printargs(task):
    cases, values = task
    out = _new()
    warnings.simplefilter("ignore")
    built, texts, exc = print_args_batch(cases, values)
    suspects = []
    for i, case in enumerate(cases):
        _add(out, "evaluations")
        _add(out, "print_statements_built")
        _add(out, f"print_args_{len(case[0])}")
        if any("{" in (x or "") or "}" in (x or "") for x in case[1:]):
            _add(out, "print_sep_or_end_with_brace")
        if built[i] is not None:
            suspects.append(i)
            continue
        if exc is not None:
            suspects.append(i)
            continue
        for vi, vals in enumerate(values):
            _add(out, "evaluations")
            _add(out, "print_arg_texts_compared")
            want = R.expected_print(case[0], case[1], case[2], vals)
            if len(case[0]) > 1 or case[1:] != (None, None):
                _add(out, "distinct_nontrivial")
            if texts.get((i, vi)) != want:
                suspects.append(i)
                break
    for i in suspects:
        if len(out["violations"]) >= MAX_CONFIRM:
            _add(out, "violations_suppressed")
            continue
        problems = single_print_case(cases[i], values)
        if problems:
            _viol(out, "printargs:" + _case_name(cases[i]), "; ".join(problems[:2]),
                  {"kind": "printargs", "case": [list(map(list, cases[i][0])), cases[i][1], cases[i][2]], "values": [list(v) for v in values]})
        else:
            _viol(out, "printargs-batch:" + _case_name(cases[i]), f"Print{_case_name(cases[i])} is right alone but wrong (or the run raised "
                  f"{type(exc).__name__ if exc else 'nothing'}) inside a design with {len(cases)} Print statements",
                  {"kind": "printargs-batch", "cases": [[list(map(list, c[0])), c[1], c[2]] for c in cases], "values": [list(v) for v in values]})
    if cases and not out["samples"]:
        mid = cases[len(cases) // 2]
        out["samples"].append({"part": "print-arguments", "print": _case_name(mid), "values(a,b,c)": list(values[1]),
                               "text": R.expected_print(mid[0], mid[1], mid[2], values[1])})
    del out["_sigs"]
    return out


# ================================================================================================ part B
def build_timing(desc):
    """desc: dict(p=program desc | None, n=program desc | None, cnt0, k0, arst) -> (module, signals)"""
    from amaranth.hdl import Module, ClockDomain, Signal, Print, Format, Assert, Assume, Cover, Cat, signed
    m = Module()
    cd_p = ClockDomain("p", clk_edge=desc.get("p_edge", "pos"), async_reset=bool(desc.get("arst")))
    cd_n = ClockDomain("n", clk_edge="neg")
    m.domains.p = cd_p
    m.domains.n = cd_n
    x = Signal(2, name="x")
    cnt = Signal(2, name="cnt", init=desc["cnt0"])
    mon = desc.get("monitor")          # None or (name, submodule?, reset_less k?, top registers?)
    k = Signal(1, name="k", init=desc["k0"], reset_less=bool(mon and mon[2]))
    sg = Signal(signed(3), name="sg", init=R.sg_of(desc["cnt0"], desc["k0"]))     # registered signed value
    if not mon or mon[3]:
        m.d.p += sg.eq(Cat(x, k))
    if mon and mon[3]:
        with m.If(x[1]):
            m.d.p += cnt.eq(cnt + 1)
    top = m
    if mon and mon[1]:
        m = Module()                    # the statements go to a separate submodule (a pure monitor)
        top.submodules.mon = m
    wire = Signal(name="w")
    top.d.comb += wire.eq(x[0] & x[1])

    def expr(name):
        return {"x0": x[0], "x1": x[1], "nx0": ~x[0], "c0": cnt[0], "c1": cnt[1], "k": k, "w": wire, "x": x, "cnt": cnt,
                "xe2": x == 2, "xn3": x != 3, "cn3": cnt != 3, "kx": k | x[0], "xc": Cat(x[0], cnt[0]), "xk": Cat(x, k),
                # multi-bit values used directly as tests / conditions (see c20_gen.MULTIBIT)
                "sg": sg, "xs": x.as_signed(), "xpc": x + cnt, "xmc": x - cnt, "xl1": x << 1, "xk12": Cat(x, k)[1:3],
                "sgs": sg[1:]}[name]

    def emit(dom, prog):
        for st in prog:
            kind = st[0]
            if kind == "P":
                m.d[dom] += Print(Format("P{}:{}:{}:{}", st[1], x, cnt, k))
            elif kind in "AUC":
                ctor = {"A": Assert, "U": Assume, "C": Cover}[kind]
                if kind == "C":
                    m.d[dom] += ctor(expr(st[2]))
                else:
                    m.d[dom] += ctor(expr(st[2]), Format("{}{}:{}:{}:{}", kind, st[1], x, cnt, k))
            elif kind == "R":
                if dom == "p" and not mon:
                    m.d.p += cnt.eq(cnt + 1)
                else:
                    m.d[dom] += k.eq(~k)
            elif kind == "if":
                for i, (cond, body) in enumerate(st[1]):
                    cm = m.If(expr(cond)) if i == 0 else (m.Else() if cond is None else m.Elif(expr(cond)))
                    with cm:
                        emit(dom, body)
            elif kind == "sw":
                with m.Switch(expr(st[1])):
                    for pats, body in st[2]:
                        with (m.Default() if pats is None else m.Case(*pats)):
                            emit(dom, body)
            else:
                raise ValueError(kind)
    progs = {}
    for dom in ("p", "n"):
        progs[dom] = G.program(*desc[dom], reg_hole=desc.get("reg_hole", 0), with_reg=not mon or bool(mon[2])) \
            if desc.get(dom) else []
        emit(dom, progs[dom])
    m = top
    clocks = [cd_p.clk, cd_n.clk] + ([cd_p.rst] if desc.get("arst") else [])
    return m, {"x": x, "clkcat": Cat(*clocks)}, progs


class SeqRunner:
    """Runs action sequences on one design.  `fresh=True`: a new Simulator per sequence.  Otherwise one
    Simulator is reused through the public `Simulator.reset()`; everything reported is confirmed on a fresh one."""
    def __init__(self, frag, sigs, fresh=False):
        self.frag, self.sigs, self.fresh = frag, sigs, fresh
        self.sim = None
        self.seq = ()
        self.seen = set()        # (statement kind | "if", test name, value class) met in conforming steps

    def _make(self):
        from amaranth.sim import Simulator
        sim = Simulator(self.frag)
        sim.add_testbench(self._tb)
        return sim

    async def _tb(self, ctx):
        buf, st, rec, sigs = self.buf, self.st, self.rec, self.sigs
        st["initial"] = buf.getvalue()
        levels = 0
        for i, (iv, tm) in enumerate(self.seq):
            st["step"], st["phase"] = i, "input"
            a = buf.tell()
            ctx.set(sigs["x"], iv)
            b = buf.tell()
            st["phase"] = "clock"
            if tm:
                levels ^= tm
                ctx.set(sigs["clkcat"], levels)
            full = buf.getvalue()[a:]
            rec.append((full[:b - a], full[b - a:]))
        st["step"], st["phase"] = len(self.seq), "done"

    def run(self, seq):
        """-> (per-step [(output after the input change, output after the clock toggles)], status dict, exception
        raised by Simulator.run() or None)"""
        self.seq = seq
        self.buf = io.StringIO()
        self.rec = []
        self.st = {"step": -1, "phase": "start", "initial": None}
        if self.fresh or self.sim is None:
            self.sim = self._make()
        else:
            self.sim.reset()
        exc = None
        with contextlib.redirect_stdout(self.buf):
            try:
                self.sim.run()
            except AssertionError as e:
                exc = e
        if exc is not None:
            consumed = len(self.st["initial"] or "") + sum(len(a) + len(b) for a, b in self.rec)
            self.st["partial"] = self.buf.getvalue()[consumed:]
        return self.rec, self.st, exc

    def observation(self, seq):
        """normalised: the order of the lines of two domains on a simultaneous edge (and which of two failing
        statements raises) depends on the iteration order of a set of processes, which the property does not fix"""
        rec, st, exc = self.run(seq)
        return (tuple((a, tuple(sorted(b.splitlines()))) for a, b in rec), st["initial"], st["step"], st["phase"], exc is None)


def model_opts(desc):
    mon = desc.get("monitor")
    if not mon:
        return {"p_edge": desc.get("p_edge", "pos")}
    return {"p_edge": desc.get("p_edge", "pos"), "p_reg": "k", "top_regs": bool(mon[3]), "top_cnt": bool(mon[3])}


STAT_KEYS = ("steps", "active_edges", "inactive_edges", "prints", "stops", "no_edge", "unconstrained",
             "active_edges_nothing_enabled", "rst_events", "both_domains_edge",
             "mon_rst_rise_would_fail", "mon_rst_rise_would_pass", "mon_rst_rise_would_print", "mon_rst_fall_would_fail",
             "mon_rst_fall_would_pass", "mon_rst_fall_would_print")


def check_sequence(desc, progs, runner, seq):
    """Run `seq` from reset and compare every step with the reference model.
    -> (verdict | None, stopped, stats of the LAST step): verdict = (kind, detail, step index, explanation);
    stopped = the run ended with a legitimate AssertionError (or in an unconstrained step)"""
    model = R.TimingModel(progs["p"], progs["n"], desc["cnt0"], desc["k0"], arst=bool(desc.get("arst")), **model_opts(desc))
    rec, st, exc = runner.run(seq)
    stats = dict.fromkeys(STAT_KEYS, 0)
    if st["initial"]:
        return ("output-before-any-edge", "", -1, f"simulation printed {st['initial']!r} before the first action"), False, stats
    for i, (iv, tm) in enumerate(seq):
        exp = model.step(iv, tm)
        raised_here = exc is not None and st["step"] == i
        stats = dict.fromkeys(STAT_KEYS, 0)
        if i >= len(rec) and not raised_here:
            return ("testbench-stopped", "", i, "the testbench did not reach this step and no AssertionError was raised"), False, stats
        stats["steps"] += 1
        if exp["rst_event"]:
            stats["rst_events"] += 1
        if exp["hypo"] and desc.get("monitor"):
            # a reset edge that is not an active clock edge, in a design whose statements live in a fragment without
            # resettable registers: classify what running the statements (wrongly) would do
            which, would_print, would_fail = exp["hypo"]
            stats[f"mon_rst_{which}_would_{'fail' if would_fail else 'pass'}"] += 1
            if would_print:
                stats[f"mon_rst_{which}_would_print"] += 1
        if exp["unconstrained"]:
            stats["unconstrained"] += 1
            if raised_here:
                return None, True, stats
            continue
        if exp["edges"]:
            stats["active_edges"] += 1
            if len(exp["edges"]) == 2:
                stats["both_domains_edge"] += 1
            if not exp["prints"] and not exp["fails"]:
                stats["active_edges_nothing_enabled"] += 1
        elif tm:
            stats["inactive_edges"] += 1
        else:
            stats["no_edge"] += 1
        where = f"step {i} (x={iv}, toggle mask {tm}, values before the edge {exp['pre']}, active edges {exp['edges']})"
        cause = "rst-rise" if exp["rst_rise"] and not exp["edges"] else "rst-fall" if exp["rst_event"] and not exp["edges"] else \
                "inactive-edge" if tm and not exp["edges"] else "input-change" if not exp["edges"] else "active-edge"
        if raised_here:
            if st["phase"] == "input":
                return ("stop-without-edge", "input-change:" + _leaf_of(str(exc)), i,
                        f"{where}: AssertionError {exc} raised by the input change alone"), False, stats
            if not exp["fails"]:
                return ("spurious-stop", cause + ":" + _leaf_of(str(exc)), i,
                        f"{where}: run() raised AssertionError({exc}) but no active Assert/Assume has a zero test"), False, stats
            if not any(str(exc).endswith(t) for t in exp["fails"]):
                return ("wrong-message", _leaf_of(str(exc)), i,
                        f"{where}: AssertionError({exc}) does not carry the message of a failing statement {exp['fails']}"), False, stats
            got = st["partial"].splitlines()
            extra = _multiset_minus(got, exp["prints"])
            if extra:
                return ("print-mismatch", cause + ":extra=" + ",".join(_leaf_of(t) for t in extra), i,
                        f"{where}: printed {got} before stopping, enabled prints are {exp['prints']}"), False, stats
            stats["stops"] += 1
            runner.seen |= exp["seen"]
            return None, True, stats
        if exp["fails"]:
            return ("missing-stop", ",".join(_leaf_of(t) for t in exp["fails"]), i,
                    f"{where}: statements {exp['fails']} are active with a zero test but run() did not raise"), False, stats
        out_in, out_clk = rec[i]
        if out_in:
            return ("print-mismatch", "input-change:extra=" + ",".join(_leaf_of(t) for t in out_in.splitlines()), i,
                    f"{where}: output {out_in!r} on a change of the input without any clock edge"), False, stats
        got = out_clk.splitlines()
        if sorted(got) != sorted(exp["prints"]):
            extra = _multiset_minus(got, exp["prints"])
            missing = _multiset_minus(exp["prints"], got)
            return ("print-mismatch", cause + ":extra=" + ",".join(_leaf_of(t) for t in extra) + ":missing=" +
                    ",".join(_leaf_of(t) for t in missing), i, f"{where}: printed {got}, expected {exp['prints']}"), False, stats
        stats["prints"] += len(got)
        if i == len(seq) - 1:
            runner.seen |= exp["seen"]
    if exc is not None:
        return ("spurious-stop", "after-last-step", len(seq), f"AssertionError {exc} after the last step"), False, stats
    return None, False, stats


def _leaf_of(text):
    """'P3:1:0:0' or 'Assertion violated: A4:..' -> 'P3' / 'A4' (the statement; values are in the explanation)"""
    t = text.rsplit(" ", 1)[-1]
    return t.split(":", 1)[0] if ":" in t else t[:12]


def _multiset_minus(a, b):
    b = list(b)
    out = []
    for t in a:
        if t in b:
            b.remove(t)
        else:
            out.append(t)
    return out


def timing_tag(desc):
    def one(d):
        if not d:
            return "-"
        outer, h, inner, rot = d
        return outer + (f"[{h}:{inner}]" if h is not None else "") + (f"~{rot}" if rot else "")
    return f"p={one(desc.get('p'))},n={one(desc.get('n'))}" + (",arst" if desc.get("arst") else "") + \
        (f",mon={desc['monitor'][0]},{desc.get('p_edge', 'pos')}" if desc.get("monitor") else "")


def w_timing(task):
    from ..sim.driver import elaborate
    desc, plan, n_fresh = task          # plan: list of (cnt0, k0, L)
    out = _new()
    warnings.simplefilter("ignore")
    masks = (0, 1, 4, 5) if desc.get("arst") else (0, 1, 2, 3)
    actions = [(iv, tm) for iv in range(4) for tm in masks]
    tag = timing_tag(desc)
    tot = dict.fromkeys(STAT_KEYS, 0)
    confirmations = 0
    seen_all = set()
    for cnt0, k0, L in plan:
        d = dict(desc, cnt0=cnt0, k0=k0)
        m, sigs, progs = build_timing(d)
        frag = elaborate(m)
        reuse = SeqRunner(frag, sigs)
        fresh = SeqRunner(frag, sigs, fresh=True)
        _add(out, "timing_designs_built")
        alive = [()]
        last_level = []
        for _l in range(L):
            nxt = []
            for pre in alive:
                for a in actions:
                    seq = pre + (a,)
                    res, stopped, stats = check_sequence(d, progs, reuse, seq)
                    _add(out, "evaluations")
                    _add(out, "timing_sequences")
                    for kk, vv in stats.items():
                        tot[kk] += vv
                    if res is not None:
                        _add(out, "timing_violating_sequences")
                        pre_sig = f"timing:{tag}:{res[0]}:{res[1]}"
                        if pre_sig in out["_sigs"] or confirmations >= MAX_CONFIRM:
                            continue        # same statement / same kind already reported for this design
                        confirmations += 1
                        # confirm on a fresh Simulator before reporting
                        res2, _s, _t = check_sequence(d, progs, fresh, seq)
                        if res2 is None:
                            _add(out, "timing_reused_simulator_not_confirmed")
                            res2 = ("reused-simulator-differs", res[0], res[2], f"after Simulator.reset(): {res[3]}; fresh simulator: "
                                    f"{res2[3] if res2 else 'conforms'}")
                        kind, detail, step, why = res2
                        _viol(out, f"timing:{tag}:{kind}:{detail}", f"design {tag} (cnt init {cnt0}, k init {k0}), actions (x, toggle "
                              f"mask) {list(seq[:step + 1])}: {why}", {"kind": "timing", "desc": d, "seq": [list(a) for a in seq[:step + 1]]})
                    elif not stopped:
                        nxt.append(seq)
            alive = nxt
            last_level = nxt or last_level
        seen_all |= reuse.seen
        _add(out, "timing_sequences_alive_at_full_length", len(alive))
        # conformance of the reused simulator with fresh ones on a deterministic spread of the longest sequences
        pick = last_level[:: max(1, len(last_level) // n_fresh)][:n_fresh] if last_level else []
        for seq in pick:
            if reuse.observation(seq) != fresh.observation(seq):
                _viol(out, f"timing:{tag}:reused-simulator-differs:observation", f"design {tag}: sequence {list(seq)} observed differently "
                      "after Simulator.reset() and on a fresh Simulator", {"kind": "timing", "desc": d, "seq": [list(a) for a in seq]})
            _add(out, "timing_sequences_validated_on_fresh_simulator")
        if len(out["samples"]) < 1 and alive:
            seq = alive[len(alive) // 2]
            out["samples"].append({"part": "timing", "design": tag, "p_domain_program": repr(progs["p"])[:300], "register_init": [cnt0, k0],
                                   "actions(x,toggle_mask)": [list(a) for a in seq],
                                   "observed_output_per_step": [b for _a, b in reuse.run(seq)[0]]})
    for kk, vv in tot.items():
        _add(out, "timing_" + kk, vv)
    _add(out, "distinct_nontrivial", 1 if tot["active_edges"] else 0)
    _add(out, "timing_designs")
    out["cov"]["test_classes"] = sorted(":".join(t) for t in seen_all)
    del out["_sigs"]
    return out


# ================================================================================================ part C
def enable_tag(desc):
    return ",".join(desc[k] for k in ("edge", "reset", "content", "place", "wrapper"))


def build_enable(desc):
    """-> (top module, dict of signals)"""
    from amaranth.hdl import Module, ClockDomain, Signal, Print, Format, Assert, Assume, Cat, EnableInserter, ResetInserter
    m = Module()
    cd = ClockDomain("sync", clk_edge=desc["edge"], async_reset=desc["reset"] == "async")
    m.domains.sync = cd
    d = Signal(2, name="d")
    en1, en2, srst = Signal(name="en1"), Signal(name="en2"), Signal(name="srst")
    w = Signal(2, name="w")
    r = Signal(2, name="r")

    def add_w(mod):
        mod.d.sync += w.eq(w + 1)

    def add_checker(mod):
        if "P" in desc["content"]:
            mod.d.sync += Print(Format("Q:{}:{}:{}", w, d, r))
            with mod.If(d[0]):
                mod.d.sync += Print(Format("R:{}", w))
        if "A" in desc["content"]:
            mod.d.sync += Assert((w != 2) | d[1], Format("A:{}:{}", w, d))
            with mod.If(d[0]):
                mod.d.sync += Assume(w != 1, Format("U:{}", w))
        if "R" in desc["content"]:
            mod.d.sync += r.eq(r + 1)

    def wrap(x):
        wr = desc["wrapper"]
        if wr == "none":
            return x
        if wr == "rst":
            return ResetInserter(srst)(x)
        if wr == "en":
            return EnableInserter(en1)(x)
        if wr == "en_dict":
            return EnableInserter({"sync": en1})(x)
        if wr == "en_en":
            return EnableInserter(en1)(EnableInserter(en2)(x))
        if wr == "en_rst":
            return EnableInserter(en1)(ResetInserter(srst)(x))
        raise ValueError(wr)

    place = desc["place"]
    if place == "sub":
        chk = Module()
        add_checker(chk)
        add_w(m)
        m.submodules.chk = wrap(chk)
    elif place in ("subsub", "subsub_w"):
        mid, chk = Module(), Module()
        add_checker(chk)
        mid.submodules.chk = chk
        add_w(mid if place == "subsub_w" else m)
        m.submodules.mid = wrap(mid)
    elif place == "same":
        x = Module()
        add_w(x)
        add_checker(x)
        m.submodules.x = wrap(x)
    else:
        raise ValueError(place)
    sigs = {"d": d, "en1": en1, "en2": en2, "srst": srst}
    names = G.enable_inputs(desc)
    return m, {"inputs": Cat(*[sigs[n] for n in names]), "clk": cd.clk, "names": names}


def unpack_enable_inputs(names, packed):
    out, off = {}, 0
    for n in names:
        wdt = 2 if n == "d" else 1
        out[n] = (packed >> off) & ((1 << wdt) - 1)
        off += wdt
    return out


class EnRunner:
    """action sequences [(packed inputs, toggle clock?)] on one design; one Simulator reused through reset() unless fresh"""
    def __init__(self, frag, sigs, fresh=False):
        self.frag, self.sigs, self.fresh = frag, sigs, fresh
        self.sim = None
        self.seq = ()

    async def _tb(self, ctx):
        buf, rec = self.buf, self.rec
        self.initial = buf.getvalue()
        level = 0
        for i, (iv, tg) in enumerate(self.seq):
            self.step, self.phase = i, "input"
            a = buf.tell()
            ctx.set(self.sigs["inputs"], iv)
            b = buf.tell()
            self.phase = "clock"
            if tg:
                level ^= 1
                ctx.set(self.sigs["clk"], level)
            full = buf.getvalue()[a:]
            rec.append((full[:b - a], full[b - a:]))
        self.step, self.phase = len(self.seq), "done"

    def run(self, seq):
        from amaranth.sim import Simulator
        self.seq, self.buf, self.rec = seq, io.StringIO(), []
        self.step, self.phase, self.initial = -1, "start", None
        if self.fresh or self.sim is None:
            self.sim = Simulator(self.frag)
            self.sim.add_testbench(self._tb)
        else:
            self.sim.reset()
        exc = None
        with contextlib.redirect_stdout(self.buf):
            try:
                self.sim.run()
            except AssertionError as e:
                exc = e
        partial = None
        if exc is not None:
            consumed = len(self.initial or "") + sum(len(a) + len(b) for a, b in self.rec)
            partial = self.buf.getvalue()[consumed:]
        return self.rec, exc, partial


def check_enable_sequence(desc, runner, seq):
    """-> (verdict | None, stopped, model state after the sequence, info of the last step)"""
    model = R.EnableModel(desc)
    names = G.enable_inputs(desc)
    rec, exc, partial = runner.run(seq)
    exp = None
    if runner.initial:
        return ("output-before-any-edge", "", -1, f"printed {runner.initial!r} before the first action"), False, None, None
    for i, (iv, tg) in enumerate(seq):
        inp = unpack_enable_inputs(names, iv)
        exp = model.step(inp, tg)
        raised = exc is not None and runner.step == i
        if i >= len(rec) and not raised:
            return ("testbench-stopped", "", i, "the testbench did not reach this step"), False, None, exp
        cause = ("enabled-edge" if exp["enabled"] else "disabled-edge") if exp["edge"] else ("inactive-edge" if tg else "no-edge")
        where = f"step {i} (inputs {inp}, clock toggled: {bool(tg)}, before the edge {exp['pre']}, active edge: {exp['edge']}, " \
                f"all inserted enables high: {exp['enabled']})"
        if raised:
            if runner.phase == "input" or not exp["fails"]:
                return ("spurious-stop", cause + ":" + _leaf_of(str(exc)), i,
                        f"{where}: run() raised AssertionError({exc}) but no ACTIVE Assert/Assume has a zero test"), False, None, exp
            if not any(str(exc).endswith(t) for t in exp["fails"]):
                return ("wrong-message", _leaf_of(str(exc)), i, f"{where}: AssertionError({exc}), failing statements {exp['fails']}"), False, None, exp
            extra = _multiset_minus(partial.splitlines(), exp["prints"])
            if extra:
                return ("print-mismatch", cause + ":extra=" + ",".join(_leaf_of(t) for t in extra), i,
                        f"{where}: printed {partial.splitlines()} before stopping, enabled prints {exp['prints']}"), False, None, exp
            return None, True, None, exp
        if exp["fails"]:
            return ("missing-stop", cause + ":" + ",".join(_leaf_of(t) for t in exp["fails"]), i,
                    f"{where}: {exp['fails']} active with a zero test but run() did not raise"), False, None, exp
        out_in, out_clk = rec[i]
        got = (out_in + out_clk).splitlines()
        if out_in or sorted(got) != sorted(exp["prints"]):
            extra, missing = _multiset_minus(got, exp["prints"]), _multiset_minus(exp["prints"], got)
            return ("print-mismatch", cause + ":extra=" + ",".join(_leaf_of(t) for t in extra) + ":missing=" +
                    ",".join(_leaf_of(t) for t in missing), i, f"{where}: printed {got}, expected {exp['prints']}"), False, None, exp
    if exc is not None:
        return ("spurious-stop", "after-last-step", len(seq), f"AssertionError {exc} after the last step"), False, None, exp
    return None, False, model.state(), exp


def w_enable(task):
    """BFS over the reference states (w, r, clock level): every (state, action) pair is executed on the real simulator by
    replaying the state's shortest action path from reset followed by the action (each one a separate Simulator.run())"""
    from ..sim.driver import elaborate
    descs = task
    out = _new()
    warnings.simplefilter("ignore")
    for desc in descs:
        tag = enable_tag(desc)
        m, sigs = build_enable(desc)
        frag = elaborate(m)
        reuse, fresh = EnRunner(frag, sigs), EnRunner(frag, sigs, fresh=True)
        nbits = sum(2 if n == "d" else 1 for n in sigs["names"])
        actions = [(iv, tg) for iv in range(1 << nbits) for tg in (0, 1)]
        root = R.EnableModel(desc).state()
        path = {root: ()}
        frontier = [root]
        confirmations = 0
        while frontier:
            nxt = []
            for st in frontier:
                for a in actions:
                    seq = path[st] + (a,)
                    res, stopped, st2, exp = check_enable_sequence(desc, reuse, seq)
                    _add(out, "evaluations")
                    _add(out, "enable_transitions")
                    if exp is not None:
                        if exp["edge"] and exp["enabled"]:
                            _add(out, "enable_enabled_edges")
                            if exp["reset"]:
                                _add(out, "enable_edges_with_inserted_reset")
                        elif exp["edge"]:
                            _add(out, "enable_disabled_edges")
                            if exp["would_print"]:
                                _add(out, "enable_disabled_edges_would_print")
                            if exp["would_fail"]:
                                _add(out, "enable_disabled_edges_would_fail")
                        if stopped:
                            _add(out, "enable_stops")
                    if res is not None:
                        _add(out, "enable_violating_transitions")
                        pre_sig = f"enable:{tag}:{res[0]}:{res[1]}"
                        if pre_sig in out["_sigs"] or confirmations >= MAX_CONFIRM:
                            continue
                        confirmations += 1
                        res2, _s, _m, _e = check_enable_sequence(desc, fresh, seq)
                        if res2 is None:
                            res2 = ("reused-simulator-differs", res[0], res[2], f"after Simulator.reset(): {res[3]}; fresh simulator conforms")
                        kind, detail, step, why = res2
                        _viol(out, f"enable:{tag}:{kind}:{detail}", f"design [{tag}], actions (packed inputs {sigs['names']}, toggle) "
                              f"{list(seq[:step + 1])}: {why}", {"kind": "enable", "desc": desc, "seq": [list(x) for x in seq[:step + 1]]})
                    elif not stopped and st2 not in path:
                        path[st2] = seq
                        nxt.append(st2)
            frontier = nxt
        _add(out, "enable_designs")
        _add(out, "enable_states", len(path))
        _add(out, "distinct_nontrivial", 1 if len(path) > 1 else 0)
        # the reused simulator against a fresh one on the longest paths
        for st in sorted(path, key=lambda k: -len(path[k]))[:2]:
            a, b = reuse.run(path[st]), fresh.run(path[st])
            if [(x, sorted(y.splitlines())) for x, y in a[0]] != [(x, sorted(y.splitlines())) for x, y in b[0]] or (a[1] is None) != (b[1] is None):
                _viol(out, f"enable:{tag}:reused-simulator-differs:observation", f"design [{tag}]: path {list(path[st])} observed differently "
                      "after Simulator.reset() and on a fresh Simulator", {"kind": "enable", "desc": desc, "seq": [list(x) for x in path[st]]})
            _add(out, "enable_paths_validated_on_fresh_simulator")
        if not out["samples"]:
            deepest = max(path, key=lambda k: len(path[k]))
            out["samples"].append({"part": "inserted-enable", "design": tag, "inputs": sigs["names"], "reference_states": len(path),
                                   "actions(packed_inputs,toggle)": [list(x) for x in path[deepest]],
                                   "observed_output_per_step": [b for _a, b in reuse.run(path[deepest])[0]]})
    del out["_sigs"]
    return out


# ================================================================================================ driver
def _dispatch(t):
    return {"format": w_format, "timing": w_timing, "printargs": w_printargs, "enable": w_enable}[t[0]](t[1])


def format_tasks(rep):
    specs = G.specs(rep.tier)
    reduced = G.reduced_specs()
    braces = G.brace_specs()
    tasks = []
    nspecs = len(set(specs) | set(braces))
    for (w, sg) in G.SHAPES_QUICK:
        vals = G.values_for(w, sg, rep.tier)
        corner = sorted(set(vals[:2] + vals[-2:] + [v for v in vals if v in (0, -1, 10, 0x41, 0x4241, 0xAC82E2)]))
        for form in ("sig", "inv", "reinterp"):
            if form == "reinterp" and w == 0:
                continue
            # Assert messages: quick tier corner values; thorough tier all values (8-bit secondary forms: corner values)
            avals = corner if (rep.quick or (w == 8 and form != "sig")) else vals
            # quick tier: the secondary operand forms get the reduced alphabet
            alphabet = specs if (form == "sig" or not rep.quick) else reduced
            for ch in chunks(alphabet, 3500):
                tasks.append(("format", (w, sg, form, ch, vals, avals, rep.tier), rep.tier))
        tasks.append(("format", (w, sg, "sig", braces, vals[:3] + vals[-1:], corner[:1], rep.tier), rep.tier))
    return tasks, nspecs


def timing_tasks(rep):
    descs = G.program_descs(rep.tier)
    n = len(descs)
    tasks = []
    L = rep.pick(3, 4)
    for i, d in enumerate(descs):
        # every program is elaborated once in the rising-edge domain and once in the falling-edge domain; the
        # other domain of the design holds the program half-way across the list
        other = descs[(i + n // 2) % n]
        desc = {"p": d, "n": other, "reg_hole": i}
        # thorough tier: the nested programs of the second condition rotation keep the quick-tier length
        Ld = L - 1 if (not rep.quick and d[1] is not None and (d[3] >= 1 or d[2] not in G.QUICK_INNER)) else L
        plan = [(0, 0, Ld)] + [(c, k, Ld - 1) for c in range(4) for k in range(2) if (c, k) != (0, 0)]
        tasks.append(("timing", (desc, plan, rep.pick(1, 3)), rep.tier))
    # asynchronous reset of the rising-edge domain (no falling-edge program; mask bit 2 toggles the reset)
    for outer in ("bare", "ifelse", "sw_default"):
        desc = {"p": (outer, None, None, 0), "n": None, "arst": True, "reg_hole": 0}
        tasks.append(("timing", (desc, [(0, 0, L), (2, 0, L - 1)], rep.pick(2, 4)), rep.tier))
    # asynchronous reset, statements in a fragment without any resettable register (pure monitor submodule / flat design
    # without registers / with a reset_less register only), rising- and falling-edge domain
    for variant in G.MONITOR_VARIANTS:
        for edge in ("pos", "neg"):
            for j, outer in enumerate(G.MONITOR_FORMS):
                desc = {"p": (outer, None, None, 0), "n": None, "arst": True, "reg_hole": j, "monitor": list(variant), "p_edge": edge}
                tasks.append(("timing", (desc, [(0, 0, L), (2, 1, L - 1), (3, 0, L - 1)], rep.pick(2, 4)), rep.tier))
    return tasks


def run(rep):
    import amaranth.hdl, amaranth.sim, amaranth.sim.pysim      # imported once, before the workers are forked
    ftasks, nspecs = format_tasks(rep)
    ttasks = timing_tasks(rep)
    for s in G.MALFORMED:
        rep.require(not R.python_accepts(s) and not R.grammar_accepts(s, 8, False), f"malformed specification {s!r} is not invalid")
    pcases = G.print_cases(rep.tier)
    ptasks = [("printargs", (ch, G.PRINT_VALUES), rep.tier) for ch in chunks(pcases, 240)]
    edescs = G.enable_descs(rep.tier)
    etasks = [("enable", ch, rep.tier) for ch in chunks(edescs, 8)]
    tasks = rotate(ttasks + ftasks + ptasks + etasks, rep.seed)
    walls = {}
    test_classes = set()
    by_part = {}
    for part in pmap(_dispatch_timed, tasks, rep.procs):
        kind, out, wall = part
        walls[kind] = walls.get(kind, 0) + wall
        test_classes.update(out["cov"].pop("test_classes", []))
        rc = out["cov"].pop("reject_classes", None)
        if rc:
            cur = rep.cov.setdefault("reject_classes", {})
            for k, v in rc.items():
                cur[k] = cur.get(k, 0) + v
        for smp in out.pop("samples", []):
            by_part.setdefault(smp.get("part"), []).append(smp)
        rep.merge(out)
    for part_samples in by_part.values():
        for smp in sorted(part_samples, key=lambda x: json.dumps(x, sort_keys=True, default=str))[:5]:
            rep.sample(smp)
    _interleave(rep)
    rep.setcov("specifications", nspecs)
    rep.setcov("cpu_seconds_by_part", {k: round(v, 1) for k, v in walls.items()})
    rep.setcov("exhaustive", rep.cov.get("violations_suppressed", 0) == 0)
    rep.setcov("rule", "Part A: every string of the product fill{none,*,0,space,x} x align{none,<,>,=,^} x sign x # x 0 x width x "
               "grouping{none,_,comma} x type{none,b,o,d,x,X,c,s,n,e,f,%} (plus 7 unusual fill characters and the brace fills on reduced "
               "products, and a list of malformed strings) x 10 shapes (u0 u1 u4 u8 s1 s4 s8 u16 u21 u24) x operand forms {signal, ~signal, "
               "as_signed/as_unsigned; quick tier: the two secondary forms on the no-fill sub-product}: Format acceptance == documented "
               "grammar; for accepted ones, all values (width<=4 quick, <=8 thorough) or corner values: text printed by a sync Print and "
               "message of the failing Assert == Python format(). Print arguments: every tuple of 1-2 arguments over 13 kinds (Amaranth "
               "values u4 / s4 / u1 / a-b, two Format objects, plain str incl. braces, plain int; 3 arguments over 6 kinds quick / all "
               "thorough) x 11 sep x 12 end (defaults, '', ', ', newline, strings with { } {{ }} {} {0}): construction must not raise "
               "and the text == Python print(*rendered, sep, end) for 4 value triples. Part C: 384 designs = {rising, falling edge} x {sync, async domain reset} x checker {Print / Assert+Assume / both / Print + "
               "register} x placement {submodule, sub-submodule, sub-submodule with the watched register inside the wrapper, same "
               "fragment} x wrapper {none, ResetInserter, EnableInserter(en), EnableInserter({sync: en}), two nested EnableInserters, "
               "EnableInserter around ResetInserter}: BFS over the reference states, every (state, action = data input x enables x "
               "inserted reset x clock toggle) pair executed on the real simulator: statements act exactly at active edges with every "
               "inserted enable high; an inserted reset never changes their activity. Part B: control-flow programs (12 forms, nesting depth <= 2, every hole "
               "holds Print/Assert/Cover/Assume/Print; tests and If conditions include 2-3 bit unsigned / signed values taken directly from "
               "an input, registers, slices and expressions: pass iff NON-ZERO) in a rising- and a falling-edge domain (+3 designs with "
               "an asynchronous reset, +24 asynchronous-reset designs (rising / falling edge) whose statements sit in a fragment without "
               "any resettable register: separate monitor submodule or flat, no register or a reset_less one); ALL "
               "sequences of (input valuation, clock toggle mask) actions up to the stated length from every register initial state "
               "(extensions of a sequence that ended in an AssertionError are not run), each one a separate Simulator.run(). "
               "distinct_nontrivial = accepted (spec, operand, value) triples whose expected text differs from str(value), plus timing "
               "designs with at least one active edge")
    rep.setcov("timing_sequence_length", {"register_init_0": rep.pick(3, 4), "other_register_inits": rep.pick(2, 3),
                                          "note": "thorough: nested programs use 4 / 3 only for condition rotation 0 with the quick-tier inner forms, else 3 / 2"})
    # crashed / timed-out tasks are reported as violations; the coverage guards are meaningless then
    guards = not (rep.cov.get("tasks_crashed", 0) or rep.cov.get("tasks_timed_out", 0))
    rep.require(not guards or rep.cov.get("accepted", 0) > 0 and rep.cov.get("rejected", 0) > 0, "both accepted and rejected specifications")
    rep.require(not guards or rep.cov.get("grammar_valid", 0) > 0 and rep.cov.get("grammar_invalid", 0) > 0, "grammar oracle says valid and invalid")
    rep.require(not guards or rep.cov.get("print_texts_compared", 0) > 0, "Print texts compared")
    rep.require(not guards or rep.cov.get("assert_texts_compared", 0) > 0, "Assert messages compared")
    # multi-bit tests: every statement kind met every multi-bit test with a zero value, with a non-zero value whose bit 0
    # is clear and (signed tests) with a negative value; If / Elif conditions likewise
    multibit = {}
    for kind in ("A", "U", "C", "if"):
        for t in (G.MULTIBIT if kind != "if" else [c for c in G.CONDS if c in G.MULTIBIT]):
            need = ["zero", "even_nonzero" if t not in ("xs",) else "negative_even"]
            if t in G.SIGNED_TESTS:
                need.append("negative_even")
            for cls in need:
                ok = f"{kind}:{t}:{cls}" in test_classes
                multibit[f"{kind}:{t}:{cls}"] = ok
    missing = sorted(k for k, ok in multibit.items() if not ok)
    rep.require(not guards or not missing, f"multi-bit tests never met in a conforming step: {missing}")
    rep.setcov("multibit_test_classes_seen", sorted(c for c in test_classes if c.split(":")[1] in G.MULTIBIT))
    for key in ("enable_enabled_edges", "enable_disabled_edges", "enable_disabled_edges_would_print", "enable_disabled_edges_would_fail",
                "enable_edges_with_inserted_reset", "enable_stops"):
        rep.require(not guards or rep.cov.get(key, 0) > 0, f"{key} never exercised")
    rep.require(not guards or rep.cov.get("enable_designs", 0) == len(edescs), "every inserted-enable design was explored")
    for key in ("print_arg_texts_compared", "print_args_1", "print_args_2", "print_args_3", "print_sep_or_end_with_brace"):
        rep.require(not guards or rep.cov.get(key, 0) > 0, f"{key} never exercised")
    rep.require(not guards or rep.cov.get("print_statements_built", 0) == len(pcases), "every Print-argument case was processed")
    for key in ("timing_active_edges", "timing_inactive_edges", "timing_no_edge", "timing_prints", "timing_stops",
                "timing_active_edges_nothing_enabled", "timing_both_domains_edge", "timing_rst_events",
                "timing_mon_rst_rise_would_fail", "timing_mon_rst_rise_would_pass", "timing_mon_rst_rise_would_print",
                "timing_mon_rst_fall_would_fail", "timing_mon_rst_fall_would_pass", "timing_mon_rst_fall_would_print"):
        rep.require(not guards or rep.cov.get(key, 0) > 0, f"{key} never exercised")
    rep.assume("Python's built-in format() is the reference for the text (as the property statement says)")
    rep.assume("Part A catches the AssertionError at the ctx.set that produced the edge (same exception object that run() propagates); "
               "Part B and every reported case observe the exception raised by Simulator.run() itself")
    rep.assume("`s`: values with a NUL byte below a non-NUL byte or with non-UTF-8 bytes, and `c` values above 0x10FFFF, carry no expectation")
    rep.assume("Part B reuses one Simulator per design through the public Simulator.reset(); every reported sequence is re-run on a fresh "
               "Simulator first, and a spread of the longest sequences is compared between both")
    rep.assume("prints of one edge are compared as a multiset (the statement does not order them); edges while an asynchronous reset is "
               "asserted are not constrained")


def _family(sig):
    """coarse defect family of a signature (only used to order the report)"""
    p = sig.split(":")
    if p[0] == "timing":
        return ("timing", "arst" in p[1], p[2], p[3] if len(p) > 3 and not p[3][:1].isupper() else "")
    spec = sig.split("'")[1] if "'" in sig else ""
    return (p[0], p[1], spec[:1] in "{}" and spec[1:2] in "<>=^", spec[-1:] if spec[-1:] in "cs" else "i")


def _interleave(rep):
    """the runner writes replay files for the first few signatures only: order the violations round-robin over
    defect families so that one frequent defect does not hide a different one"""
    fams = {}
    for v in rep.violations:
        fams.setdefault(_family(v["sig"]), []).append(v)
    out = []
    lists = [fams[k] for k in sorted(fams, key=str)]
    for i in range(max((len(lst) for lst in lists), default=0)):
        out.extend(lst[i] for lst in lists if i < len(lst))
    rep.violations[:] = out


TASK_TIMEOUT = {"quick": 90, "thorough": 600}


class _TaskTimeout(BaseException):
    pass


def _on_alarm(signum, frame):
    raise _TaskTimeout()


def _task_name(t):
    if t[0] == "format":
        w, sg, form, specs = t[1][:4]
        return f"format:{form}:{_shape_name(w, sg)}:{specs[0]!r}..{specs[-1]!r}"
    if t[0] == "printargs":
        return "printargs:" + _case_name(t[1][0][0]) + ".." + _case_name(t[1][0][-1])
    if t[0] == "enable":
        return "enable:" + enable_tag(t[1][0]) + ".." + enable_tag(t[1][-1])
    return "timing:" + timing_tag(t[1][0])


def _dispatch_timed(t):
    """one task in a pool worker, with a wall-clock limit: simulated code that does not terminate (or raises
    something unexpected) is reported as a violation of the task instead of hanging the check"""
    import signal
    import time
    t0 = time.time()
    tier = t[2]
    signal.signal(signal.SIGALRM, _on_alarm)
    signal.alarm(TASK_TIMEOUT[tier])
    try:
        out = _dispatch(t)
    except Exception as e:
        import traceback
        out = _new()
        del out["_sigs"]
        _add(out, "tasks_crashed")
        tb = traceback.format_exc().strip().splitlines()
        out["violations"].append({"sig": f"crash:{_task_name(t)}:{type(e).__name__}", "what": f"task {_task_name(t)}: unexpected "
                                  f"{type(e).__name__}: {e} ({' / '.join(x.strip() for x in tb[-4:-1])})",
                                  "payload": {"kind": "task", "task": _jsonable(t)}})
    except _TaskTimeout:
        out = _new()
        del out["_sigs"]
        _add(out, "tasks_timed_out")
        out["violations"].append({"sig": "timeout:" + _task_name(t), "what": f"task {_task_name(t)} did not finish within "
                                  f"{TASK_TIMEOUT[tier]} s (non-terminating simulation?)", "payload": {"kind": "task", "task": _jsonable(t)}})
    finally:
        signal.alarm(0)
    return (t[0], out, time.time() - t0)


def _jsonable(x):
    if isinstance(x, (list, tuple)):
        return [_jsonable(y) for y in x]
    if isinstance(x, dict):
        return {k: _jsonable(v) for k, v in x.items()}
    return x


def replay(payload):
    kind = payload["kind"]
    warnings.simplefilter("ignore")
    if kind == "accept":
        w, sg, form, spec = payload["w"], payload["sg"], payload["form"], payload["spec"]
        ow, osg = R.form_shape(form, w, sg)
        want = R.grammar_accepts(spec, ow, osg)
        try:
            _sig, operand = make_operand(form, w, sg)
            make_format(spec, operand)
            got = True
        except Exception:
            got = False
        if got != want:
            return [f"Format {'accepts' if got else 'rejects'} {spec!r} for {form} of {_shape_name(w, sg)}; documented grammar: "
                    f"{'valid' if want else 'invalid'}"]
        if got and not R.python_accepts(spec):
            return [f"{spec!r} accepted but Python's format() rejects it"]
        return []
    if kind == "text":
        return single_case(payload["form"], payload["w"], payload["sg"], payload["spec"], payload["v"])
    if kind == "batch":
        out = _new()
        _format_batch(out, payload["form"], payload["w"], payload["sg"], payload["batch"], [payload["v"]], [payload["v"]])
        return [v["what"] for v in out["violations"]]
    if kind == "task":
        def tup(x):
            return tuple(tup(y) for y in x) if isinstance(x, list) else x
        t = payload["task"]
        task = (t[0], tuple(t[1][:3]) + (t[1][3],) + tuple(t[1][4:]) if t[0] == "format" else (t[1][0], [tuple(p) for p in t[1][1]], t[1][2]), t[2])
        if t[0] == "timing":
            for dom in ("p", "n"):
                if task[1][0].get(dom):
                    task[1][0][dom] = tuple(task[1][0][dom])
        _k, out, _w = _dispatch_timed(task)
        return [v["what"] for v in out["violations"]]
    if kind == "printargs":
        c = payload["case"]
        return single_print_case((c[0], c[1], c[2]), [tuple(v) for v in payload["values"]])
    if kind == "printargs-batch":
        cases = [(tuple(tuple(x) for x in c[0]), c[1], c[2]) for c in payload["cases"]]
        out = w_printargs((cases, [tuple(v) for v in payload["values"]]))
        return [v["what"] for v in out["violations"]]
    if kind == "enable":
        from ..sim.driver import elaborate
        m, sigs = build_enable(payload["desc"])
        res, _s, _m, _e = check_enable_sequence(payload["desc"], EnRunner(elaborate(m), sigs, fresh=True), tuple(tuple(x) for x in payload["seq"]))
        return [f"{res[0]}:{res[1]} at step {res[2]}: {res[3]}"] if res else []
    if kind == "timing":
        from ..sim.driver import elaborate
        d = payload["desc"]
        for dom in ("p", "n"):
            if d.get(dom):
                d[dom] = tuple(d[dom])
        m, sigs, progs = build_timing(d)
        res, _st, _stats = check_sequence(d, progs, SeqRunner(elaborate(m), sigs, fresh=True), tuple(tuple(a) for a in payload["seq"]))
        return [f"{res[0]}:{res[1]} at step {res[2]}: {res[3]}"] if res else []
    return []
