"""C16 CRC software (`Parameters.compute` / `residue`) and hardware (`Processor`) agree with the bit-serial Williams
model -- bounded-exhaustive enumeration (software) + full reachable product graph (hardware)."""
import itertools

from ..core.pool import pmap, rotate, chunks
from ..explore.bfs import explore, replay_path
from ..sim.driver import System, elaborate, run_in_testbench
from ..ref import c16_crc as R

ID = "C16"
LEVEL = "model_checking"

MAX_VIOL_PER_TASK = 3
DIV72 = (1, 2, 3, 4, 6, 8, 9, 12, 18, 24, 36, 72)


def _ptag(p):
    w, poly, init, refin, refout, xorout = p
    return f"w{w}/poly{poly:#x}/init{init:#x}/refin{int(refin)}/refout{int(refout)}/xor{xorout:#x}"


def _algo(p):
    from amaranth.lib.crc import Algorithm
    w, poly, init, refin, refout, xorout = p
    return Algorithm(crc_width=w, polynomial=poly, initial_crc=init, reflect_input=refin, reflect_output=refout,
                     xor_output=xorout)


def _new_out():
    return {"cov": {}, "samples": [], "violations": []}


def _viol(out, sig, what, payload, cap=MAX_VIOL_PER_TASK):
    out["cov"]["mismatches"] = out["cov"].get("mismatches", 0) + 1
    if len(out["violations"]) < cap:
        out["violations"].append({"sig": sig, "what": what, "payload": payload})


def _call(f, *a):
    try:
        return f(*a)
    except Exception as e:          # an exception on a valid input is a wrong answer; compare classes only
        return ("exc", type(e).__name__)


def corner_alphabet(dw):
    """all words for dw <= 4, otherwise a fixed corner alphabet (both ends, both bit-asymmetric patterns)"""
    if dw <= 4:
        return list(range(1 << dw))
    top = 1 << (dw - 1)
    full = (1 << dw) - 1
    asym = int(("1101" * dw)[:dw], 2)
    return sorted({0, 1, top, full, asym, R.reflect(asym, dw) ^ 1} | ({0xa7} if dw > 8 else set()))


def sequences(alpha, maxlen):
    """all sequences over alpha of length <= maxlen, shortest first, as (seq, index of the prefix sequence)"""
    out = [((), -1)]
    lo = 0
    for _ in range(maxlen):
        hi = len(out)
        for i in range(lo, hi):
            for a in alpha:
                out.append((out[i][0] + (a,), i))
        lo = hi
    return out


# ------------------------------------------------------------------------------------------- software: small parameters
# compute() documents `data` as an "iterable of int" (docs example: a bytes object), so every container kind below
# must give the same value; bytes / bytearray only exist for sequences whose words all fit in an octet
CONTAINER_KINDS = ("tuple", "list", "bytes", "bytearray", "iter", "gen")


def as_container(kind, seq):
    seq = tuple(seq)
    if kind == "tuple":
        return seq
    if kind == "list":
        return list(seq)
    if kind == "iter":
        return iter(seq)
    if kind == "gen":
        return (x for x in seq)
    if any(x > 255 for x in seq):
        return None
    return bytes(seq) if kind == "bytes" else bytearray(seq)


def seq_containers(seq):
    """reusable containers of one word sequence: [(kind, object)]; iter/gen are created per call (None here)"""
    out = []
    for kind in CONTAINER_KINDS:
        if kind in ("iter", "gen"):
            out.append((kind, None))
        else:
            obj = as_container(kind, seq)
            if obj is not None:
                out.append((kind, obj))
    return out


def _csig(kind, seq):
    return f"compute{list(seq)}" if kind == "tuple" else f"compute({kind}){list(seq)}"


def sw_case(p, dw, seq, container="list"):
    """one software evaluation; returns list of (kind, got, want)"""
    w, poly, init, refin, refout, xorout = p
    params = _algo(p)(dw)
    bad = []
    want = R.crc(w, poly, init, refin, refout, xorout, dw, seq)
    got = _call(params.compute, as_container(container, seq))
    if got != want:
        bad.append((f"compute({container})", got, want))
    return bad


def sw_residue_case(p, dw, seq):
    w, poly, init, refin, refout, xorout = p
    want = R.residue_after(w, poly, init, refin, refout, xorout, dw, seq)
    got = _call(_algo(p)(dw).residue)
    return [("residue", got, want)] if got != want else []


def w_sw_small(task):
    width, polys, spec = task[:3]
    inits = task[3] if len(task) > 3 and task[3] is not None else None
    xors = task[4] if len(task) > 4 and task[4] is not None else None
    out = _new_out()
    cov = out["cov"]
    cov["sw_evaluations"] = cov["sw_parameter_sets"] = cov["sw_residue_evaluations"] = 0
    cov["sw_nontrivial"] = cov["sw_bytes_refin_non_octet_evaluations"] = 0
    n = 1 << width
    for dw, alpha, maxlen in spec:
        seqs = sequences(alpha, maxlen)
        containers = [seq_containers(seq) for seq, _ in seqs]
        n_evals = sum(len(c) for c in containers)
        n_bytes = sum(1 for c in containers for k, _o in c if k in ("bytes", "bytearray"))
        for kind in CONTAINER_KINDS:
            cov["sw_sequences_as_" + kind] = cov.get("sw_sequences_as_" + kind, 0) + sum(1 for c in containers for k, _o in c if k == kind)
        for poly in polys:
            for refin in (False, True):
                for init in (inits if inits is not None else range(n)):
                    regs = []
                    for seq, parent in seqs:
                        regs.append(init if parent < 0 else R.feed_word(regs[parent], seq[-1], width, poly, refin, dw))
                    cov["sw_nontrivial"] += len(set(regs)) > 1
                    for refout in (False, True):
                        for xorout in (xors if xors is not None else range(n)):
                            p = (width, poly, init, refin, refout, xorout)
                            params = _algo(p)(dw)
                            cov["sw_parameter_sets"] += 1
                            compute = params.compute
                            for (seq, _parent), reg, conts in zip(seqs, regs, containers):
                                want = R.output(reg, width, refout, xorout)
                                for kind, obj in conts:
                                    if obj is None:
                                        obj = iter(seq) if kind == "iter" else (x for x in seq)
                                    try:
                                        got = compute(obj)
                                    except Exception as e:
                                        got = ("exc", type(e).__name__)
                                    if got != want:
                                        _viol(out, f"sw:{_ptag(p)}/dw{dw}:{_csig(kind, seq)}",
                                              f"Parameters({_ptag(p)}, data_width={dw}).compute({kind} of {list(seq)}) = {got}, "
                                              f"bit-serial Williams model gives {want}",
                                              {"kind": "sw", "p": list(p), "dw": dw, "seq": list(seq), "container": kind})
                            cov["sw_evaluations"] += n_evals
                            if refin and dw != 8:
                                cov["sw_bytes_refin_non_octet_evaluations"] += n_bytes
                            # residue(): the register left after message + own CRC (reflected when refout)
                            res = {R.residue_after(width, poly, init, refin, refout, xorout, dw, s) for s in (seqs[0][0], seqs[1][0], seqs[-1][0])}
                            if len(res) != 1:
                                raise AssertionError("reference residue depends on the message")
                            got = _call(params.residue)
                            cov["sw_residue_evaluations"] += 1
                            want = res.pop()
                            if got != want:
                                _viol(out, f"sw:{_ptag(p)}/dw{dw}:residue",
                                      f"Parameters({_ptag(p)}, data_width={dw}).residue() = {got}, register left by the "
                                      f"bit-serial model after any message + its CRC is {want}",
                                      {"kind": "sw_residue", "p": list(p), "dw": dw, "seq": []})
    return out


# ------------------------------------------------------------------------------------------- software: catalogue
def catalogue_names():
    from amaranth.lib.crc import catalog, Algorithm
    return sorted(n for n in dir(catalog) if isinstance(getattr(catalog, n), Algorithm))


def cat_params(name):
    from amaranth.lib.crc import catalog
    a = getattr(catalog, name)
    return (a.crc_width, a.polynomial, a.initial_crc, a.reflect_input, a.reflect_output, a.xor_output)


def cat_case(name, dw, kind, seq=None):
    """-> list of (what, got, want) mismatches for one catalogue evaluation"""
    from amaranth.lib.crc import catalog
    algo = getattr(catalog, name)
    p = cat_params(name)
    w, poly, init, refin, refout, xorout = p
    pub = R.published().get(name)
    bad = []
    if kind == "check":
        words = R.check_words(dw, refin)
        for ck in CONTAINER_KINDS[1:]:
            obj = as_container(ck, words)
            if obj is not None:
                got = _call(algo(dw).compute, obj)
                if pub is not None and got != pub[0]:
                    bad.append((f"compute({ck} of the check string as {dw}-bit words)", got, f"published check {pub[0]:#x}"))
        got = _call(algo(dw).compute, words)
        if pub is not None and got != pub[0]:
            bad.append((f"compute(check string as {dw}-bit words)", got, f"published check {pub[0]:#x}"))
        want = R.crc(w, poly, init, refin, refout, xorout, dw, words)
        if got != want:
            bad.append((f"compute(check string as {dw}-bit words)", got, f"bit-serial model {want:#x}"))
        if dw == 8:
            got = _call(algo().compute, R.CHECK_MESSAGE)
            if pub is not None and got != pub[0]:
                bad.append(("algo().compute(b'123456789')", got, f"published check {pub[0]:#x}"))
    elif kind == "residue":
        got = _call(algo(dw).residue)
        if pub is not None and got != pub[1]:
            bad.append(("residue()", got, f"published residue {pub[1]:#x}"))
        want = R.residue_after(w, poly, init, refin, refout, xorout, dw, [1])
        if got != want:
            bad.append(("residue()", got, f"bit-serial model {want:#x}"))
    elif kind == "seq":
        want = R.crc(w, poly, init, refin, refout, xorout, dw, seq)
        for ck in CONTAINER_KINDS:
            obj = as_container(ck, seq)
            if obj is None:
                continue
            got = _call(algo(dw).compute, obj)
            if got != want:
                bad.append((f"compute({ck} of {list(seq)})", got, f"bit-serial model {want:#x}"))
    elif kind == "octets":
        # the check string handed over as octets to a data_width-bit CRC: nine data_width-bit words with the octet values
        if dw < 8:
            return bad
        seq = tuple(R.CHECK_MESSAGE)
        want = R.crc(w, poly, init, refin, refout, xorout, dw, seq)
        if dw == 8 and pub is not None and want != pub[0]:
            bad.append(("catalogue parameters in the bit-serial model", want, f"published check {pub[0]:#x}"))
        for ck in CONTAINER_KINDS:
            got = _call(algo(dw).compute, as_container(ck, seq))
            if got != want:
                bad.append((f"compute({ck} of b'123456789')", got, f"bit-serial model {want:#x}"))
    return bad


def w_sw_catalog(task):
    names, seq_dws, maxlen = task
    out = _new_out()
    cov = out["cov"]
    cov["catalogue_check_evaluations"] = cov["catalogue_residue_evaluations"] = cov["catalogue_sequence_evaluations"] = 0
    cov["catalogue_entries"] = cov["catalogue_entries_without_published_value"] = cov["catalogue_octet_string_evaluations"] = 0
    pub = R.published()
    for name in names:
        cov["catalogue_entries"] += 1
        if name not in pub:
            cov["catalogue_entries_without_published_value"] += 1
        for dw in DIV72:
            cov["catalogue_check_evaluations"] += 1
            for what, got, want in cat_case(name, dw, "check"):
                gs = hex(got) if isinstance(got, int) else got
                _viol(out, f"catalog:{name}/dw{dw}:check", f"catalog.{name}({dw}).{what} = {gs}, want {want}",
                      {"kind": "cat", "name": name, "dw": dw, "what": "check"})
        for dw in (8, 9, 12, 16, 24, 32, 64):
            cov["catalogue_octet_string_evaluations"] += 1
            for what, got, want in cat_case(name, dw, "octets"):
                gs = hex(got) if isinstance(got, int) else got
                _viol(out, f"catalog:{name}/dw{dw}:octets", f"catalog.{name}({dw}).{what} = {gs}, want {want}",
                      {"kind": "cat", "name": name, "dw": dw, "what": "octets"})
        for dw in (1, 8, 13):
            cov["catalogue_residue_evaluations"] += 1
            for what, got, want in cat_case(name, dw, "residue"):
                gs = hex(got) if isinstance(got, int) else got
                _viol(out, f"catalog:{name}/dw{dw}:residue", f"catalog.{name}({dw}).{what} = {gs}, want {want}",
                      {"kind": "cat", "name": name, "dw": dw, "what": "residue"})
        for dw in seq_dws:
            for seq, _ in sequences(corner_alphabet(dw), maxlen):
                cov["catalogue_sequence_evaluations"] += 1
                for what, got, want in cat_case(name, dw, "seq", seq):
                    gs = hex(got) if isinstance(got, int) else got
                    _viol(out, f"catalog:{name}/dw{dw}:compute{list(seq)}", f"catalog.{name}({dw}).{what} = {gs}, want {want}",
                          {"kind": "cat", "name": name, "dw": dw, "what": "seq", "seq": list(seq)})
    return out


# ------------------------------------------------------------------------------------------- hardware
class CrcSpec:
    """Processor(params) in an explicit sync domain x reference (register, trailer window).

    action = (start, valid, data, rst).  model = (reg, window_start_reg, window_words): the bit-serial register for the
    words since the last start, and -- when crc_width = k * data_width -- the last <= k words with the register
    they started from, so that "message followed by its own CRC / by another trailer" is decided by comparing
    words with the reference trailer, never through a residue."""
    def __init__(self, p, dw, with_reset=False, alphabet=None, name=None, params_obj=None, proc_obj=None):
        self.p = tuple(p)
        self.params_obj = params_obj        # build the Processor from this existing Parameters object (history family)
        self.proc_obj = proc_obj            # elaborate this existing Processor object (again)
        self.dw, self.with_reset, self.name = dw, with_reset, name
        self.alphabet = list(alphabet) if alphabet is not None else None
        w = self.p[0]
        self.k = w // dw if w % dw == 0 else None
        data = self.alphabet if self.alphabet is not None else list(range(1 << dw))
        self.actions = [(s, v, d, 0) for s in (0, 1) for v in (0, 1) for d in data]
        if with_reset:
            self.actions += [(0, 0, 0, 1), (1, 1, data[-1], 1)]

    def describe(self):
        return {"p": list(self.p), "dw": self.dw, "with_reset": self.with_reset, "alphabet": self.alphabet, "name": self.name}

    @classmethod
    def from_cfg(cls, d):
        return cls(d["p"], d["dw"], d.get("with_reset", False), d.get("alphabet"), d.get("name"))

    def tag(self):
        head = f"catalog.{self.name}" if self.name else _ptag(self.p)
        return f"hw:{head}/dw{self.dw}{'/rst' if self.with_reset else ''}"

    def build(self):
        from amaranth.hdl import Module, ClockDomain
        if self.name:
            from amaranth.lib.crc import catalog
            algo = getattr(catalog, self.name)
        else:
            algo = _algo(self.p)
        if self.proc_obj is not None:
            proc = self.proc_obj
        else:
            proc = (self.params_obj if self.params_obj is not None else algo(self.dw)).create()
        m = Module()
        cd = ClockDomain("sync")
        m.domains.sync = cd
        m.submodules.crc = proc
        self.proc = proc
        frag = elaborate(m)
        return System(frag, clocks=[cd.clk], inputs=[proc.start, proc.valid, proc.data, cd.rst])

    def model_init(self, sysm):
        init = self.p[2]
        return (init, init, ())

    def step(self, sysm, m, a):
        start, valid, data, rst = a
        w, poly, init, refin, refout, xorout = self.p
        dw, k = self.dw, self.k
        reg, wreg, words = m
        proc, ctx = self.proc, sysm.ctx
        sysm.set_inputs(sysm.pack_inputs([start, valid, data, rst]))
        crc, match = ctx.get(proc.crc), ctx.get(proc.match_detected)
        errs, flags = [], []
        want = R.output(reg, w, refout, xorout)
        if crc != want:
            errs.append(f"crc={crc:#x} but the bit-serial model gives {want:#x} for the words since the last start")
        if k is not None and len(words) == k:
            own = tuple(R.trailer_words(R.output(wreg, w, refout, xorout), w, refin, refout, dw))
            if words == own:
                flags.append("own_trailer")
                if not match:
                    errs.append(f"match_detected=0 after a message followed by its own CRC {list(own)} in transmission order")
            elif poly & 1:
                flags.append("other_trailer")
                if match:
                    errs.append(f"match_detected=1 after a message followed by trailer {list(words)}, its own CRC is {list(own)}")
            else:
                flags.append("other_trailer_degenerate_poly")
        flags.append("match1" if match else "match0")
        # the edge
        sysm.pulse(1)
        if rst:
            flags.append("reset")
            return (init, init, ()), errs, tuple(flags)
        if valid:
            if start:
                flags.append("start+valid")
                if reg != init or words:
                    flags.append("restart_midstream")
                src, swreg, swords = init, init, ()
            else:
                flags.append("valid")
                src, swreg, swords = reg, wreg, words
            new = R.feed_word(src, data, w, poly, refin, dw)
            if k is None:
                return (new, init, ()), errs, tuple(flags)
            swords = swords + (data,)
            if len(swords) > k:
                swreg = R.feed_word(swreg, swords[0], w, poly, refin, dw)
                swords = swords[1:]
            return (new, swreg, swords), errs, tuple(flags)
        if start:
            flags.append("start")
            if reg != init or words:
                flags.append("restart_midstream")
            return (init, init, ()), errs, tuple(flags)
        flags.append("idle")
        if words:
            flags.append("idle_midstream")
        return m, errs, tuple(flags)


def run_trace(spec, actions, inject=None):
    """run a list of actions from reset on a fresh simulator -> dict(errs=[(where, [str])], flags, key, steps, branch_keys).
    inject = [[actions]...]: after `actions` remember the state, then run every action list from that remembered
    state (state injection, like the explorer; validated by the caller with a replay from reset)."""
    sysm = spec.build()
    box = {}

    def body(ctx):
        sysm.ctx = ctx
        m = spec.model_init(sysm)
        errs, flags, bkeys = [], set(), []
        for i, a in enumerate(actions):
            m, e, f = spec.step(sysm, m, tuple(a))
            flags.update(f)
            if e:
                errs.append((i, e))
        steps = len(actions)
        base = (sysm.read(), m)
        for bi, branch in enumerate(inject or []):
            sysm.load(base[0])
            mb = base[1]
            for j, a in enumerate(branch):
                mb, e, f = spec.step(sysm, mb, tuple(a))
                flags.update(f)
                steps += 1
                if e:
                    errs.append((("branch", bi, j), e))
            bkeys.append((sysm.read(), mb))
        box["r"] = {"errs": errs, "flags": flags, "key": base, "steps": steps, "branch_keys": bkeys}
    run_in_testbench(sysm.frag, body)
    return box["r"]


def w_hw_small(task):
    cfgs, replay_n = task
    out = _new_out()
    cov = out["cov"]
    for k in ("states", "transitions", "traces_validated_against_impl", "hw_configurations", "hw_capped_configurations",
              "hw_match_configurations"):
        cov[k] = 0
    allflags = set()
    for p, dw, with_reset in cfgs:
        spec = CrcSpec(p, dw, with_reset)
        res = explore(spec, procs=1, replay_n=replay_n, cap_states=500_000)
        cov["states"] += res.states
        cov["transitions"] += res.transitions
        cov["traces_validated_against_impl"] += res.traces_validated
        cov["hw_configurations"] += 1
        cov["hw_match_configurations"] += spec.k is not None
        cov["hw_capped_configurations"] += bool(res.capped)
        allflags.update(res.flags)
        for errs, path in res.errors[:2]:
            acts = [list(spec.actions[i]) for i in path]
            kind = "match_detected" if "match_detected" in errs[0] else "crc"
            _viol(out, f"{spec.tag()}:{kind}", f"{spec.tag()}: {errs} after actions (start,valid,data,rst) {acts}",
                  {"kind": "hw", "cfg": spec.describe(), "path": acts})
        for path, want, got in res.replay_mismatch[:1]:
            acts = [list(spec.actions[i]) for i in path]
            _viol(out, f"{spec.tag()}:replay-mismatch", f"{spec.tag()}: state injection and replay from reset disagree: {want!r} vs {got!r}",
                  {"kind": "hw", "cfg": spec.describe(), "path": acts})
        if len(out["samples"]) < 1:
            out["samples"].append({"config": spec.tag(), "states": res.states, "transitions": res.transitions, "bfs_depth": res.max_depth})
    out["flags"] = sorted(allflags)
    return out


CAT_ALPHABET = {8: [0x00, 0x31, 0x80, 0xff]}


def cat_traces(name, dw):
    """directed traces for one catalogue entry: junk, start+first word, the check string with idle gaps, (idle),
    then its published-check trailer / every single-bit-corrupted trailer / a restart in the middle."""
    p = cat_params(name)
    w, poly, init, refin, refout, xorout = p
    words = R.check_words(dw, refin)
    acts = [(0, 1, words[-1], 0), (0, 0, 0, 0)]                 # junk before the start, idle
    acts += [(1, 1, words[0], 0), (0, 1, words[1 % len(words)], 0), (1, 0, words[0], 0)]   # a false start, abandoned by start alone
    for i, x in enumerate(words):
        acts.append((1 if i == 0 else 0, 1, x, 0))              # start together with the first word
        if i % 3 == 1:
            acts.append((0, 0, x ^ 1, 0))                       # idle gap with changing data
    check = R.crc(w, poly, init, refin, refout, xorout, dw, words)
    branches = []
    if w % dw == 0:
        own = R.trailer_words(check, w, refin, refout, dw)
        tail = [(0, 0, 0, 0)]
        branches.append([(0, 1, x, 0) for x in own] + tail)
        for bit in range(w):
            bad = R.trailer_words(check ^ (1 << bit), w, refin, refout, dw)
            branches.append([(0, 1, x, 0) for x in bad] + tail)
        # own trailer with an idle cycle in the middle of it
        mid = [(0, 1, x, 0) for x in own]
        mid.insert(len(mid) // 2, (0, 0, own[0], 0))
        branches.append(mid + tail)
    else:
        branches.append([(0, 0, 0, 0)])
    return acts, branches, check


def w_hw_catalog(task):
    items, depth = task
    out = _new_out()
    cov = out["cov"]
    for k in ("states", "transitions", "traces_validated_against_impl", "catalogue_hw_traces", "catalogue_hw_trace_steps",
              "catalogue_hw_configurations", "catalogue_hw_bfs_configurations"):
        cov[k] = 0
    allflags = set()
    pub = R.published()
    for name, dw, bfs in items:
        p = cat_params(name)
        spec = CrcSpec(p, dw, False, None if dw <= 2 else CAT_ALPHABET.get(dw, corner_alphabet(dw)[:4]), name)
        cov["catalogue_hw_configurations"] += 1
        acts, branches, check = cat_traces(name, dw)
        if name in pub and check != pub[name][0]:
            _viol(out, f"catalog:{name}/dw{dw}:check", f"catalog.{name} parameters give check {check:#x} in the bit-serial model, "
                  f"published {pub[name][0]:#x}", {"kind": "cat", "name": name, "dw": dw, "what": "check"})
        tr = run_trace(spec, acts, branches)
        errs = tr["errs"]
        cov["catalogue_hw_traces"] += len(branches)
        cov["catalogue_hw_trace_steps"] += tr["steps"]
        cov["transitions"] += tr["steps"]
        allflags.update("cat_" + f for f in tr["flags"])
        main = [x for x in errs if not isinstance(x[0], tuple)]
        # an error before the trailers poisons everything after it: report the first one only
        for where, e in (main[:1] if main else errs[:2]):
            if isinstance(where, tuple):
                full = acts + branches[where[1]][:where[2] + 1]
                label = "own-trailer" if where[1] in (0, len(branches) - 1) else f"trailer-bit{where[1] - 1}-flipped"
            else:
                full, label = acts[:where + 1], f"step{where}"
            kind = "match_detected" if "match_detected" in e[0] else "crc"
            _viol(out, f"{spec.tag()}:check-string:{kind}:{label}", f"{spec.tag()}: {e} at the end of actions (start,valid,data,rst) {full}",
                  {"kind": "hw_trace", "cfg": spec.describe(), "path": [list(a) for a in full]})
        # the injected branches are re-validated from reset without state loading (own trailer, first corrupted one)
        for bi in (0, 1):
            if bi < len(branches):
                t2 = run_trace(spec, acts + branches[bi])
                cov["traces_validated_against_impl"] += 1
                if t2["key"] != tr["branch_keys"][bi]:
                    _viol(out, f"{spec.tag()}:replay-mismatch", f"{spec.tag()}: injected branch {bi} and replay from reset disagree: "
                          f"{tr['branch_keys'][bi]!r} vs {t2['key']!r}",
                          {"kind": "hw_trace", "cfg": spec.describe(), "path": [list(a) for a in acts + branches[bi]]})
        if bfs:
            res = explore(spec, procs=1, replay_n=2, max_depth=depth, cap_states=500_000)
            cov["catalogue_hw_bfs_configurations"] += 1
            cov["states"] += res.states
            cov["transitions"] += res.transitions
            cov["traces_validated_against_impl"] += res.traces_validated
            allflags.update("cat_" + f for f in res.flags)
            for errs2, path in res.errors[:2]:
                a2 = [list(spec.actions[i]) for i in path]
                kind = "match_detected" if "match_detected" in errs2[0] else "crc"
                _viol(out, f"{spec.tag()}:{kind}", f"{spec.tag()}: {errs2} after actions (start,valid,data,rst) {a2}",
                      {"kind": "hw", "cfg": spec.describe(), "path": a2})
            for path, want, got in res.replay_mismatch[:1]:
                a2 = [list(spec.actions[i]) for i in path]
                _viol(out, f"{spec.tag()}:replay-mismatch", f"{spec.tag()}: state injection and replay from reset disagree",
                      {"kind": "hw", "cfg": spec.describe(), "path": a2})
    out["flags"] = sorted(allflags)
    return out


# ------------------------------------------------------------------------------------------- history independence
# A Parameters object is a value: every operation on it must give what the same operation gives on a fresh object
# built from the same arguments, whatever was done with the object before.
SEQ_OPS = ("compute", "residue", "algorithm", "create", "repr")
SEQ_CATALOGUE = ("CRC16_IBM_SDLC", "CRC5_USB", "CRC32_ISO_HDLC", "CRC8_AUTOSAR")


def seq_configs():
    """(name or None, p or None, dw): widths 3/5/8/16 x the four reflection combinations x xor zero / all-ones /
    asymmetric (odd asymmetric polynomial, asymmetric init) + catalogue entries; data width 8 and one that is not 8"""
    base = {3: (0b011, 0b101, 0b011, 3), 5: (0x05, 0x0b, 0x0d, 5), 8: (0x2f, 0xa5, 0x35, 4), 16: (0x1021, 0x1d0f, 0x1234, 4)}
    out = []
    for w, (poly, init, asym, dw2) in base.items():
        for refin in (False, True):
            for refout in (False, True):
                for xorout in (0, (1 << w) - 1, asym):
                    for dw in (8, dw2):
                        out.append((None, (w, poly, init, refin, refout, xorout), dw))
    for name, dw2 in zip(SEQ_CATALOGUE, (4, 5, 4, 2)):      # (wide data words make the XOR network slow to compile)
        for dw in (8, dw2):
            out.append((name, None, dw))
    return out


def _seq_new(name, p, dw):
    if name:
        from amaranth.lib.crc import catalog
        return getattr(catalog, name)(dw)
    return _algo(p)(dw)


def _seq_data(dw):
    mask = (1 << dw) - 1
    return (1, 0xb5 & mask, mask, 0x31 & mask)


def _seq_hw_actions(p, dw):
    """start+message, own trailer (valid codeword), idle; restart, same message, corrupted trailer, idle"""
    w, poly, init, refin, refout, xorout = p
    msg = _seq_data(dw)[:2]
    acts = [(1, 1, msg[0], 0), (0, 1, msg[1], 0)]
    if w % dw:
        return acts + [(0, 0, 0, 0)]
    c = R.crc(w, poly, init, refin, refout, xorout, dw, msg)
    own = R.trailer_words(c, w, refin, refout, dw)
    bad = R.trailer_words(c ^ 1, w, refin, refout, dw)
    return (acts + [(0, 1, x, 0) for x in own] + [(0, 0, 0, 0)] + acts + [(0, 1, x, 0) for x in bad] + [(0, 0, 0, 0)])


def _seq_simulate(params, name, p, dw, flags=None, proc=None, run=True):
    """params.create() (or the existing Processor `proc`) elaborated inside a fresh wrapper module and run in a short
    simulation -> (per-cycle (crc, match_detected), reference errors); run=False: elaborate only"""
    spec = CrcSpec(p, dw, False, [0], name, params_obj=params, proc_obj=proc)      # the action alphabet is not used here
    sysm = spec.build()
    if not run:
        return None
    box = {}

    def body(ctx):
        sysm.ctx = ctx
        m = spec.model_init(sysm)
        obs, errs = [], []
        for i, a in enumerate(_seq_hw_actions(p, dw)):
            obs.append((ctx.get(spec.proc.crc), ctx.get(spec.proc.match_detected)))
            m, e, f = spec.step(sysm, m, a)
            if flags is not None:
                flags.update(f)
            errs += [f"cycle {i}: {x}" for x in e]
        box["r"] = (tuple(obs), tuple(errs))
    run_in_testbench(sysm.frag, body)
    return box["r"]


def _seq_op(op, params, name, p, dw, simulate=True, flags=None):
    try:
        if op == "compute":
            return params.compute(_seq_data(dw))
        if op == "residue":
            return params.residue()
        if op == "algorithm":
            a = params.algorithm
            return (a.crc_width, a.polynomial, a.initial_crc, a.reflect_input, a.reflect_output, a.xor_output)
        if op == "repr":
            return repr(params)
        if op == "create":
            if simulate:
                return _seq_simulate(params, name, p, dw, flags)
            params.create()
            return None
    except Exception as e:
        return ("exc", type(e).__name__)
    raise ValueError(op)


def seq_fresh(name, p, dw, flags=None):
    """result of every operation on its own fresh Parameters object + comparison with the reference"""
    fresh, bad = {}, []
    for op in SEQ_OPS:
        fresh[op] = _seq_op(op, _seq_new(name, p, dw), name, p, dw, True, flags)
    w, poly, init, refin, refout, xorout = p
    want = R.crc(w, poly, init, refin, refout, xorout, dw, _seq_data(dw))
    if fresh["compute"] != want:
        bad.append(("compute", fresh["compute"], want))
    want = R.residue_after(w, poly, init, refin, refout, xorout, dw, [1])
    if fresh["residue"] != want:
        bad.append(("residue", fresh["residue"], want))
    if fresh["algorithm"] != tuple(p):
        bad.append(("algorithm", fresh["algorithm"], tuple(p)))
    if not isinstance(fresh["create"], tuple) or len(fresh["create"]) != 2 or fresh["create"][1]:
        bad.append(("create", fresh["create"], "crc / match_detected as in the bit-serial model"))
    if not isinstance(fresh["repr"], str):
        bad.append(("repr", fresh["repr"], "a string"))
    return fresh, bad


def seq_run(name, p, dw, ops, fresh, flags=None, counters=None):
    """run one operation sequence on ONE Parameters object -> first (position, op, got, want) that differs, or None.
    The first operation acts on a fresh object by construction, so it is performed but not compared."""
    params = _seq_new(name, p, dw)
    for i, op in enumerate(ops):
        got = _seq_op(op, params, name, p, dw, simulate=i > 0, flags=flags)
        if counters is not None:
            counters["seq_operations"] += 1
            counters["seq_hw_simulations"] += (op == "create" and i > 0)
        if i > 0 and got != fresh[op]:
            return (i, op, got, fresh[op])
    return None


def _is_subsequence(short, long):
    it = iter(long)
    return all(x in it for x in short)


def _seq_tag(name, p, dw):
    return f"seq:{'catalog.' + name if name else _ptag(p)}/dw{dw}"


def _short(x):
    r = repr(x)
    return r if len(r) <= 240 else r[:240] + "..."


def w_seq(task):
    cfgs, maxlen = task
    out = _new_out()
    cov = out["cov"]
    for k in ("seq_configurations", "seq_sequences", "seq_operations", "seq_hw_simulations", "seq_later_ops_compared"):
        cov[k] = 0
    flags = set()
    for name, p, dw in cfgs:
        if name:
            p = cat_params(name)
        cov["seq_configurations"] += 1
        fresh, bad = seq_fresh(name, p, dw, flags)
        cov["seq_hw_simulations"] += 1
        tag = _seq_tag(name, p, dw)
        failed = []         # minimal failing sequences; longer ones containing one of them are only counted
        for op, got, want in bad:
            _viol(out, f"{tag}:fresh:{op}", f"{tag}: {op} on a fresh Parameters object = {_short(got)}, want {_short(want)}",
                  {"kind": "seq", "name": name, "p": list(p), "dw": dw, "ops": [op]})
        for n in range(1, maxlen + 1):
            for ops in itertools.product(SEQ_OPS, repeat=n):
                cov["seq_sequences"] += 1
                cov["seq_later_ops_compared"] += n - 1
                r = seq_run(name, p, dw, ops, fresh, flags, cov)
                if r is not None:
                    i, op, got, want = r
                    bad_seq = tuple(ops[:i + 1])
                    if any(_is_subsequence(f, bad_seq) for f in failed):
                        cov["seq_failures_implied_by_shorter_ones"] = cov.get("seq_failures_implied_by_shorter_ones", 0) + 1
                        continue
                    failed.append(bad_seq)
                    _viol(out, f"{tag}:{'>'.join(ops[:i + 1])}",
                          f"{tag}: on one Parameters object, after {list(ops[:i])} the operation {op} gives {_short(got)}; "
                          f"on a fresh object built from the same arguments it gives {_short(want)}",
                          {"kind": "seq", "name": name, "p": list(p), "dw": dw, "ops": list(ops[:i + 1])}, cap=10)
    out["flags"] = sorted("seq_" + f for f in flags)
    return out


# --- the same for ONE Processor object: elaborating / converting it again must not change what it does
PROC_OPS = ("sim", "fragment", "rtlil")


def proc_configs():
    out = []
    for w, poly, init, xorout in ((8, 0x2f, 0xa5, 0x35), (16, 0x1021, 0x1d0f, 0x1234)):
        for refin in (False, True):
            for refout in (False, True):
                for dw in (1, 4, 8):
                    out.append((None, (w, poly, init, refin, refout, xorout), dw))
    for name in SEQ_CATALOGUE:
        for dw in (1, 4, 8):
            out.append((name, None, dw))
    return out


def _proc_op(op, dut, name, p, dw, simulate=True, flags=None):
    try:
        if op == "sim":
            return _seq_simulate(None, name, p, dw, flags, proc=dut, run=simulate)
        if op == "fragment":
            from amaranth.hdl import Fragment
            Fragment.get(dut, None)
            return "ok"
        if op == "rtlil":
            from amaranth.back import rtlil
            return rtlil.convert(dut, ports=[dut.start, dut.data, dut.valid, dut.crc, dut.match_detected])
    except Exception as e:
        return ("exc", type(e).__name__)
    raise ValueError(op)


def proc_fresh(name, p, dw, flags=None):
    fresh, bad = {}, []
    for op in PROC_OPS:
        fresh[op] = _proc_op(op, _seq_new(name, p, dw).create(), name, p, dw, True, flags)
    if not isinstance(fresh["sim"], tuple) or len(fresh["sim"]) != 2 or fresh["sim"][1]:
        bad.append(("sim", fresh["sim"], "crc / match_detected as in the bit-serial model"))
    if fresh["fragment"] != "ok":
        bad.append(("fragment", fresh["fragment"], "no exception"))
    if not isinstance(fresh["rtlil"], str):
        bad.append(("rtlil", fresh["rtlil"], "RTLIL text"))
    return fresh, bad


def proc_run(name, p, dw, ops, fresh, flags=None, counters=None):
    """one operation sequence on ONE Processor object -> first (position, op, got, want) differing from a fresh one"""
    dut = _seq_new(name, p, dw).create()
    for i, op in enumerate(ops):
        got = _proc_op(op, dut, name, p, dw, simulate=i > 0, flags=flags)
        if counters is not None:
            counters["proc_operations"] += 1
            counters["proc_simulations"] += (op == "sim" and i > 0)
            counters["proc_rtlil_conversions"] += op == "rtlil"
        if i > 0 and got != fresh[op]:
            return (i, op, got, fresh[op])
    return None


def _diff_short(got, want):
    if isinstance(got, str) and isinstance(want, str) and "\n" in want:
        g, w = got.splitlines(), want.splitlines()
        for k, (a, b) in enumerate(zip(g, w)):
            if a != b:
                return f"RTLIL line {k + 1}: {a.strip()!r} instead of {b.strip()!r} ({len(g)} / {len(w)} lines)"
        return f"RTLIL of {len(g)} lines instead of {len(w)}"
    return f"{_short(got)}; a fresh Processor gives {_short(want)}"


def w_proc(task):
    cfgs, maxlen = task
    out = _new_out()
    cov = out["cov"]
    for k in ("proc_configurations", "proc_sequences", "proc_operations", "proc_simulations", "proc_rtlil_conversions",
              "proc_later_ops_compared"):
        cov[k] = 0
    flags = set()
    for name, p, dw in cfgs:
        if name:
            p = cat_params(name)
        cov["proc_configurations"] += 1
        fresh, bad = proc_fresh(name, p, dw, flags)
        cov["proc_simulations"] += 1
        cov["proc_rtlil_conversions"] += 1
        tag = "proc" + _seq_tag(name, p, dw)[3:]
        failed = []
        for op, got, want in bad:
            _viol(out, f"{tag}:fresh:{op}", f"{tag}: {op} of a fresh Processor = {_short(got)}, want {_short(want)}",
                  {"kind": "proc_seq", "name": name, "p": list(p), "dw": dw, "ops": [op]})
        for n in range(1, maxlen + 1):
            for ops in itertools.product(PROC_OPS, repeat=n):
                cov["proc_sequences"] += 1
                cov["proc_later_ops_compared"] += n - 1
                r = proc_run(name, p, dw, ops, fresh, flags, cov)
                if r is not None:
                    i, op, got, want = r
                    bad_seq = tuple(ops[:i + 1])
                    if any(_is_subsequence(f, bad_seq) for f in failed):
                        cov["seq_failures_implied_by_shorter_ones"] = cov.get("seq_failures_implied_by_shorter_ones", 0) + 1
                        continue
                    failed.append(bad_seq)
                    _viol(out, f"{tag}:{'>'.join(bad_seq)}",
                          f"{tag}: on one Processor object, after {list(ops[:i])} the operation {op} gives {_diff_short(got, want)}",
                          {"kind": "proc_seq", "name": name, "p": list(p), "dw": dw, "ops": list(bad_seq)}, cap=10)
    out["flags"] = sorted("proc_" + f for f in flags)
    return out


# ------------------------------------------------------------------------------------------- plan
def hw_small_configs(rep):
    """(p, dw, with_reset) for every small parameter set"""
    out = []
    wmax = rep.pick(3, 4)
    for w in range(1, wmax + 1):
        n = 1 << w
        dws = [1, 2, 3, 4] + ([w + 2] if w + 2 > 4 and not rep.quick else [])      # includes data words wider than the register by >= 2 bits
        if rep.quick and w == 3:
            xors = [0, 0b011]
        elif w == 4:
            xors = [0, 0b0110, 0b1111, 0b0001]
        else:
            xors = list(range(n))
        for poly in range(n):
            for init in range(n):
                for refin in (False, True):
                    for refout in (False, True):
                        for xorout in xors:
                            for dw in dws:
                                if w == 4 and dw >= 4 and init not in (0, 0b1111, 0b0101, 0b0011):
                                    continue
                                out.append(((w, poly, init, refin, refout, xorout), dw, False))
    # the domain reset as an extra action on a few configurations
    for p, dw in (((3, 0b011, 0b101, True, False, 0b110), 1), ((3, 0b101, 0b110, False, True, 0b001), 3),
                  ((2, 0b11, 0b10, True, True, 0b01), 2), ((4, 0b0011, 0b1010, True, True, 0b1001), 2)):
        out.append((p, dw, True))
    return out


def _dispatch(t):
    kind, arg = t
    return kind, {"sw_small": w_sw_small, "sw_cat": w_sw_catalog, "hw_small": w_hw_small, "hw_cat": w_hw_catalog,
                  "seq": w_seq, "proc": w_proc}[kind](arg)


def run(rep):
    tasks = []
    # ---- software, small parameters: every (poly, init, refin, refout, xorout) x data width x word sequence
    if rep.quick:
        plan = {1: [(1, 4), (2, 3), (3, 2), (4, 2), (8, 2)],
                2: [(1, 4), (2, 3), (3, 2), (4, 2), (8, 2)],
                3: [(1, 3), (2, 2), (3, 2), (4, 2), (8, 2)],
                4: [(1, 2), (2, 1), (3, 1), (4, 1), (5, 1), (8, 1)]}
    else:
        plan = {1: [(1, 6), (2, 4), (3, 3), (4, 3), (8, 3)],
                2: [(1, 6), (2, 4), (3, 3), (4, 3), (8, 3)],
                3: [(1, 5), (2, 3), (3, 3), (4, 2), (8, 2), (9, 2)],
                4: [(1, 4), (2, 3), (3, 2), (4, 2), (5, 2), (8, 2)],
                5: [(1, 3), (2, 2), (3, 1), (4, 1), (5, 1), (6, 1), (8, 1), (10, 1)]}
    for w, spec in plan.items():
        spec = [(dw, corner_alphabet(dw), ml) for dw, ml in spec]
        per = 1 if w >= 3 else 4
        for ch in chunks(range(1 << w), per):
            for one in spec:
                tasks.append(("sw_small", (w, ch, [one])))
    # wider registers: every polynomial (width 8) / a corner set of polynomials, corner init and xor values
    wide = {8: (list(range(256)), [0, 0xff, 0xa5], [0, 0xff, 0x3c], [(1, 2), (3, 2), (8, 2), (12, 2)]),
            13: ([0x1cf5, 0x0001, 0x1000, 0x1fff, 0x0aaa], [0, 0x1fff, 0x1234], [0, 0x1fff, 0x0f0f], [(1, 3), (5, 2), (8, 2), (13, 2), (16, 2)]),
            32: ([0x04c11db7, 0x1edc6f41, 0x00000001, 0x80000000, 0xffffffff], [0, 0xffffffff, 0x12345678], [0, 0xffffffff, 0x0f0f0f0f],
                 [(1, 3), (7, 2), (8, 2), (32, 2), (33, 2), (64, 1)])}
    for w, (polys, inits, xors, spec) in wide.items():
        for ch in chunks(polys, 16):
            for dw, ml in spec:
                tasks.append(("sw_small", (w, ch, [(dw, corner_alphabet(dw), ml)], inits, xors)))
    rep.setcov("sw_wide_plan", {f"crc_width={w}": f"{len(v[0])} polynomials x init {v[1]} x xor {v[2]} x refin x refout x (data_width, max length) {v[3]}"
                                for w, v in wide.items()})
    rep.setcov("sw_plan", {f"crc_width={w}": [f"data_width={dw}: all sequences of length<={ml} over "
                                              f"{'all' if dw <= 4 else len(corner_alphabet(dw))} words" for dw, ml in s]
                           for w, s in plan.items()})
    # ---- software, catalogue
    names = catalogue_names()
    seq_dws = rep.pick((1, 3, 8, 12, 16, 24, 32), (1, 2, 3, 5, 8, 12, 16, 24, 32, 64))
    for ch in chunks(names, 8):
        tasks.append(("sw_cat", (ch, seq_dws, 2)))
    # ---- hardware, small parameters
    cfgs = hw_small_configs(rep)
    for ch in chunks(cfgs, 24):
        tasks.append(("hw_small", (ch, rep.pick(1, 3))))
    # ---- hardware, catalogue (one configuration per distinct algorithm object)
    from amaranth.lib.crc import catalog
    seen, uniq = set(), []
    for n in names:
        if id(getattr(catalog, n)) not in seen:
            seen.add(id(getattr(catalog, n)))
            uniq.append(n)
    items = []
    for n in uniq:
        w = cat_params(n)[0]
        if rep.quick:
            dws = [8 if w % 8 == 0 else 1] + ([8] if w < 6 else [])
        else:
            dws = [d for d in DIV72 if w % d == 0] + [8]
        for i, dw in enumerate(sorted(set(dws))):
            items.append((n, dw, dw == 8 or (rep.quick and i == 0)))
    for ch in chunks(items, 3):
        tasks.append(("hw_cat", (ch, rep.pick(3, 4))))
    rep.setcov("catalogue_distinct_algorithms", len(uniq))
    # ---- history independence of one Parameters object
    seq_len = rep.pick(3, 4)
    for c in seq_configs():
        tasks.append(("seq", ([c], seq_len)))
    for c in proc_configs():
        tasks.append(("proc", ([c], seq_len)))
    rep.setcov("proc_rule", f"every sequence of length <= {seq_len} over {list(PROC_OPS)} on ONE Processor object (sim = elaborate it inside "
               "a fresh wrapper module + fresh Simulator, fragment = Fragment.get(dut, None), rtlil = rtlil.convert(dut, ports)); every "
               "simulation trace and RTLIL text after the first operation must equal that of a fresh Processor (whose trace must agree "
               "with the bit-serial model)")
    rep.setcov("seq_rule", f"every sequence of length <= {seq_len} over {list(SEQ_OPS)} on ONE Parameters object; each operation after the "
               "first must give the result of the same operation on a fresh Parameters object (which itself must agree with the "
               "bit-serial model); create = short simulation of crc / match_detected on a valid and a corrupted codeword")

    # the task kinds with the longest single tasks go first so that they do not form the tail of the pool
    order = {"hw_cat": 0, "seq": 1, "proc": 2, "hw_small": 3, "sw_cat": 4, "sw_small": 5}
    tasks.sort(key=lambda t: order[t[0]])
    flags = set()
    for kind, part in pmap(_dispatch, rotate(tasks, rep.seed), rep.procs):
        flags.update(part.pop("flags", []))
        rep.merge(part)
    rep.setcov("flags_seen", sorted(flags))
    rep.setcov("hw_small_parameter_sets", len({c[0] for c in cfgs}))
    rep.setcov("exhaustive", rep.cov.get("hw_capped_configurations", 0) == 0)
    rep.setcov("evaluations", rep.cov.get("sw_evaluations", 0) + rep.cov.get("catalogue_check_evaluations", 0)
               + rep.cov.get("catalogue_sequence_evaluations", 0))
    rep.setcov("distinct_nontrivial", rep.cov.get("sw_nontrivial", 0))
    rep.setcov("rule", "software: every parameter set of the listed crc widths x data width x every word sequence inside sw_plan, "
               "compute() == bit-serial Williams register, residue() == register left after message+CRC; every catalogue entry x "
               "data width dividing 72 on the check string == published reveng check (and residue) == bit-serial model. hardware: full "
               "reachable product graph of Processor x (reference register, trailer window) under every (start, valid, data) valuation "
               "per clock edge for every small parameter set (hw_small_configs); catalogue entries: check string with idle gaps and "
               "restarts + own trailer / every single-bit-corrupted trailer, and all action sequences of bounded depth over a 4-word alphabet")
    rep.assume("state injection through ctx.set is validated by replaying paths from reset on fresh simulators")
    rep.assume("the clause 'not after any other trailer' is only demanded for polynomials with the x^0 term: otherwise feeding "
               "crc_width bits is not injective on the register and no function of the register can tell the trailers apart")
    rep.assume("transmission order of the CRC = register image highest-order term first, packed into words like message bits "
               "(equals big-endian words for refin=refout=0 and little-endian words for refin=refout=1, as in the docs)")
    rep.assume("published check/residue values: reveng catalogue as transcribed in vf/ref/c16_checks.json (catalog.py has none)")
    need = ["own_trailer", "other_trailer", "match1", "match0", "start", "valid", "start+valid", "idle", "idle_midstream",
            "restart_midstream", "reset", "cat_own_trailer", "cat_other_trailer", "cat_match1", "cat_match0",
            "cat_restart_midstream", "cat_idle_midstream"]
    for f in need:
        rep.require(f in flags, f"flag {f} never observed")
    rep.require(rep.cov.get("sw_evaluations", 0) > 0 and rep.cov.get("sw_nontrivial", 0) >= 2, "software enumeration ran")
    for f in ("seq_own_trailer", "seq_other_trailer", "seq_match1", "seq_match0", "proc_own_trailer", "proc_other_trailer",
              "proc_match1", "proc_match0"):
        rep.require(f in flags, f"flag {f} never observed")
    rep.require(rep.cov.get("seq_hw_simulations", 0) > rep.cov.get("seq_configurations", 0) > 0 and
                rep.cov.get("seq_later_ops_compared", 0) > 0, "operation sequences with a later create() were simulated")
    rep.require(rep.cov.get("proc_simulations", 0) > rep.cov.get("proc_configurations", 0) > 0 and
                rep.cov.get("proc_rtlil_conversions", 0) > rep.cov.get("proc_configurations", 0),
                "a Processor object was simulated / converted again after an earlier elaboration")
    for kind in CONTAINER_KINDS:
        rep.require(rep.cov.get("sw_sequences_as_" + kind, 0) > 0, f"word sequences handed to compute() as {kind}")
    rep.require(rep.cov.get("sw_bytes_refin_non_octet_evaluations", 0) > 0, "bytes/bytearray input with reflect_input and data_width != 8")
    rep.setcov("container_kinds", "every word sequence is handed to compute() as " + ", ".join(CONTAINER_KINDS) +
               " (bytes/bytearray when all words fit in an octet); compute() documents `iterable of int`")
    rep.require(rep.cov.get("catalogue_entries", 0) >= 100, "catalogue has 100+ entries")
    rep.require(rep.cov.get("catalogue_entries_without_published_value", 0) < rep.cov.get("catalogue_entries", 0),
                "published check values available")
    rep.require(rep.cov.get("hw_match_configurations", 0) > 0, "configurations with crc_width a multiple of data_width")


# ------------------------------------------------------------------------------------------- replay
def replay(payload):
    kind = payload["kind"]
    if kind == "sw":
        return [f"{k}: got {g}, want {w}" for k, g, w in sw_case(tuple(payload["p"]), payload["dw"], tuple(payload["seq"]),
                                                                       payload.get("container", "list"))]
    if kind == "sw_residue":
        return [f"{k}: got {g}, want {w}" for k, g, w in sw_residue_case(tuple(payload["p"]), payload["dw"], tuple(payload["seq"]))]
    if kind == "cat":
        return [f"{k}: got {g}, want {w}" for k, g, w in
                cat_case(payload["name"], payload["dw"], payload["what"], payload.get("seq"))]
    if kind == "seq":
        name, dw, ops = payload.get("name"), payload["dw"], payload["ops"]
        p = cat_params(name) if name else tuple(payload["p"])
        fresh, bad = seq_fresh(name, p, dw)
        res = [f"fresh {op}: got {_short(g)}, want {_short(w)}" for op, g, w in bad if op in ops]
        r = seq_run(name, p, dw, ops, fresh)
        if r is not None:
            res.append(f"after {ops[:r[0]]} on the same Parameters object, {r[1]} gives {_short(r[2])}, a fresh object gives {_short(r[3])}")
        return res
    if kind == "proc_seq":
        name, dw, ops = payload.get("name"), payload["dw"], payload["ops"]
        p = cat_params(name) if name else tuple(payload["p"])
        fresh, bad = proc_fresh(name, p, dw)
        res = [f"fresh {op}: got {_short(g)}, want {_short(w)}" for op, g, w in bad if op in ops]
        r = proc_run(name, p, dw, ops, fresh)
        if r is not None:
            res.append(f"after {ops[:r[0]]} on the same Processor object, {r[1]} gives {_diff_short(r[2], r[3])}")
        return res
    if kind in ("hw", "hw_trace"):
        spec = CrcSpec.from_cfg(payload["cfg"])
        tr = run_trace(spec, [tuple(a) for a in payload["path"]])
        return [f"step {i}: {e}" for i, e in tr["errs"]]
    return []
