"""C17 Clock-domain-crossing primitives meet their latency and pulse contracts -- full reachable graphs (BFS).

Every primitive of amaranth.lib.cdc is simulated with explicit clock domains; the explorer owns the clocks
(each clock *level* is toggled by an action, so active and inactive edges, and clock-independent behaviour, are all
in the graph) and the asynchronous inputs (changed by their own actions, between clock events). The reference
models are written from the property statement with plain ints:

* FFSynchronizer      delay line: output = input as sampled `stages` active edges ago, `init` before;
                      domain reset re-initialises the line only if reset_less=False
* AsyncFFSynchronizer / ResetSynchronizer
                      edge counter: output asserted whenever the input is asserted (no clock needed) and for
                      exactly `stages` active output-clock edges after the input was released
* PulseSynchronizer   pulse ledger: each active input edge with i=1 is one pending pulse; each active output edge
                      at which `o` is sampled high answers the oldest pending pulse; none spurious, none lost,
                      `o` changes at active output edges only

The same graphs are explored for the primitives as lowered by every vendor platform that overrides them
(XilinxPlatform with the Vivado / ISE / Symbiflow / Xray toolchains, AlteraPlatform with Quartus / Mistral); vendor
cells are replaced by behavioural models while elaborating (vf/gen/c17_platforms.py).
"""
from ..core.pool import pmap, rotate
from ..explore.bfs import explore, replay_path
from ..gen.c17_platforms import PLATFORMS, HOOKS, UnknownCell, elaborate_for, overriding_platforms
from ..sim.driver import walk_state

ID = "C17"
LEVEL = "model_checking"


# ---------------------------------------------------------------- state access with persistent input levels
class LevelSystem:
    """Like vf.sim.driver.System(levels=True), plus *level inputs* (asynchronous inputs, domain resets) that are part
    of the state. load() restores level inputs first, then clock levels, then the registers, so that whatever edge or
    asynchronous reset the first two steps provoke is overwritten by the register values of the state."""
    def __init__(self, frag, clocks, level_inputs):
        from amaranth.hdl import Cat
        self.frag = frag
        regs, mems = walk_state(frag)
        assert not mems
        drop = {id(s) for s in list(clocks) + list(level_inputs)}
        self.regs = [s for s in regs if id(s) not in drop]
        self.clocks, self.lv = list(clocks), list(level_inputs)
        self._regs, self._clk, self._lv = Cat(*self.regs), Cat(*self.clocks), Cat(*self.lv)
        self._lv_w = [len(s) for s in self.lv]
        self.ctx = None

    def read(self):
        g = self.ctx.get
        return (g(self._regs) if self.regs else 0, g(self._lv) if self.lv else 0, g(self._clk))

    def load(self, state):
        regs, lv, clk = state
        s = self.ctx.set
        if self.lv:
            s(self._lv, lv)
        s(self._clk, clk)
        if self.regs:
            s(self._regs, regs)

    def set_levels(self, vals):
        v, off = 0, 0
        for x, w in zip(vals, self._lv_w):
            v |= (x & ((1 << w) - 1)) << off
            off += w
        self.ctx.set(self._lv, v)

    def set_clocks(self, levels):
        v = 0
        for k, x in enumerate(levels):
            v |= (x & 1) << k
        self.ctx.set(self._clk, v)


def _active(edge, new_level):
    return (new_level == 1) == (edge == "pos")


def _tag(d):
    return d["kind"] + "(" + ",".join(f"{k}={v}" for k, v in d.items() if k != "kind") + ")"


# ---------------------------------------------------------------- FFSynchronizer
class FFSpec:
    """cfg: stages, width, signed, init (python int as passed to the constructor), reset_less (of the synchroniser),
    dom ('sync' | 'async' | 'none': kind of reset of the output domain), edge ('pos' | 'neg')"""
    kind = "FFSynchronizer"

    def __init__(self, cfg):
        self.cfg = dict(cfg)
        c = self.cfg
        self.mask = (1 << c["width"]) - 1
        self.init_raw = c["init"] & self.mask
        self.has_rst = c["dom"] != "none"
        self.actions = [("i", v) for v in range(1 << c["width"])] + [("c", 0)]
        if self.has_rst:
            self.actions += [("r", 0), ("r", 1)]

    def describe(self):
        return {"kind": self.kind, **self.cfg}

    def build(self):
        from amaranth.hdl import Module, ClockDomain, Signal, Shape, Cat
        from amaranth.lib.cdc import FFSynchronizer
        c = self.cfg
        shape = Shape(c["width"], c["signed"])
        i, o = Signal(shape, name="i"), Signal(shape, name="o")
        cd = ClockDomain("od", clk_edge=c["edge"], async_reset=(c["dom"] == "async"), reset_less=(c["dom"] == "none"))
        m = Module()
        m.domains.od = cd
        m.submodules.dut = FFSynchronizer(i, o, o_domain="od", init=c["init"], reset_less=c["reset_less"], stages=c["stages"])
        self.o = Cat(o)
        frag, self.cells = elaborate_for(m, c.get("platform"), [cd])
        return LevelSystem(frag, [cd.clk], [i] + ([cd.rst] if self.has_rst else []))

    def model_init(self, sysm):
        # (input level, reset level, clock level, delay line oldest first)
        return (0, 0, 0, (self.init_raw,) * self.cfg["stages"])

    def step(self, sysm, m, a):
        c = self.cfg
        i, rst, clk, hist = m
        flags = []
        resettable = not c["reset_less"]
        if a[0] == "i":
            i = a[1]
            sysm.set_levels([i, rst])
            flags.append("input_change_without_edge")
        elif a[0] == "r":
            rst = a[1]
            sysm.set_levels([i, rst])
            if rst and c["dom"] == "async" and resettable:
                hist = (self.init_raw,) * c["stages"]
                flags.append("async_reset_applied")
            elif rst:
                flags.append("reset_level_no_effect_yet" if resettable else "reset_ignored(reset_less)")
        else:
            clk ^= 1
            sysm.set_clocks([clk])
            if _active(c["edge"], clk):
                if rst and resettable:
                    hist = (self.init_raw,) * c["stages"]
                    flags.append("reset_at_edge")
                else:
                    hist = hist[1:] + (i,)
                    flags.append("active_edge")
                    if rst:
                        flags.append("active_edge_under_ignored_reset")
            else:
                flags.append("inactive_edge")
        got = sysm.ctx.get(self.o)
        errs = []
        if got != hist[0]:
            errs.append(f"o-mismatch: after {a} o={got}, delay-line model says {hist[0]} (line {hist}, i={i}, rst={rst}, clk={clk})")
        if hist[0] != self.init_raw:
            flags.append("output_differs_from_init")
        return (i, rst, clk, hist), errs, tuple(flags)


# ---------------------------------------------------------------- AsyncFFSynchronizer / ResetSynchronizer
class AsyncSpec:
    """cfg: prim ('AsyncFFSynchronizer' | 'ResetSynchronizer'), stages, async_edge ('pos' | 'neg'), i_init (reset
    value of the input signal), dom_async (ResetSynchronizer: the driven domain has an asynchronous reset)"""
    def __init__(self, cfg):
        self.cfg = dict(cfg)
        self.kind = self.cfg["prim"]
        self.actions = [("i", 0), ("i", 1), ("c", 0)]

    def describe(self):
        return {"kind": self.kind, **{k: v for k, v in self.cfg.items() if k != "prim"}}

    def build(self, clk_edge="pos"):
        from amaranth.hdl import Module, ClockDomain, Signal
        from amaranth.lib.cdc import AsyncFFSynchronizer, ResetSynchronizer
        c = self.cfg
        i = Signal(name="i", init=c["i_init"])
        m = Module()
        self.w = None
        if c["prim"] == "AsyncFFSynchronizer":
            cd = ClockDomain("od", clk_edge=clk_edge, reset_less=True)
            m.domains.od = cd
            o = Signal(name="o")
            m.submodules.dut = AsyncFFSynchronizer(i, o, o_domain="od", stages=c["stages"], async_edge=c["async_edge"])
        else:
            cd = ClockDomain("od", clk_edge=clk_edge, async_reset=c["dom_async"])
            m.domains.od = cd
            m.submodules.dut = ResetSynchronizer(i, domain="od", stages=c["stages"])
            o = cd.rst
            # a witness register of the driven domain: it must see the synchronised reset
            self.w = Signal(name="w", init=1)
            m.d.od += self.w.eq(0)
        self.o = o
        frag, self.cells = elaborate_for(m, c.get("platform"), [cd])
        return LevelSystem(frag, [cd.clk], [i])

    def asserted(self, i):
        return (i == 1) if self.cfg["async_edge"] == "pos" else (i == 0)

    def model_init(self, sysm):
        # (input level, clock level, phase, witness); phase: 'U' = no assertion seen yet (the statement says nothing
        # about power-on), else number of active edges since the input was last asserted, saturating at `stages`
        i = self.cfg["i_init"]
        return (i, 0, 0 if self.asserted(i) else "U", 1)

    def step(self, sysm, m, a):
        c = self.cfg
        i, clk, phase, wv = m
        ctx = sysm.ctx
        flags, errs = [], []
        o_pre = ctx.get(self.o)
        if a[0] == "i":
            was = self.asserted(i)
            i = a[1]
            sysm.set_levels([i])
            if self.asserted(i):
                phase = 0
                if not was:
                    flags.append("assert_while_clk_high" if clk else "assert_while_clk_low")
            elif was:
                flags.append("release_input")
        else:
            clk ^= 1
            sysm.set_clocks([clk])
            if clk == 1:
                if self.asserted(i):
                    flags.append("edge_while_asserted")
                elif phase != "U":
                    phase = min(phase + 1, c["stages"])
                    flags.append("edge_after_release")
                if self.w is not None:
                    wv = 1 if o_pre else 0
            else:
                flags.append("falling_edge")
        got = ctx.get(self.o)
        if self.asserted(i):
            want = 1
        elif phase == "U":
            want = None
        else:
            want = 1 if phase < c["stages"] else 0
            flags.append(f"released_{phase}_edges" if phase < c["stages"] else "output_released")
        if want is not None and got != want:
            what = "assert" if self.asserted(i) else ("early-release" if want else "late-release")
            errs.append(f"{what}: after {a} output={got}, want {want} (input={i}, clk={clk}, active edges since release={phase}, stages={c['stages']})")
        if self.w is not None:
            if c["dom_async"] and got:
                wv = 1
            gw = ctx.get(self.w)
            if gw != wv:
                errs.append(f"witness: register of the driven domain is {gw}, want {wv} after {a} (domain reset before/after = {o_pre}/{got})")
            flags.append("witness_reset" if wv else "witness_running")
        return (i, clk, phase, wv), errs, tuple(flags)


# ---------------------------------------------------------------- PulseSynchronizer
class PulseSpec:
    """cfg: stages, i_edge, o_edge ('pos' | 'neg'), same (both sides in one domain)"""
    kind = "PulseSynchronizer"

    def __init__(self, cfg):
        self.cfg = dict(cfg)
        # an input pulse must be answered by the (stages + 1 + slack)-th active output edge after it; the statement gives
        # no latency, a lost pulse is never answered, so any finite bound decides conservation
        self.bound = self.cfg["stages"] + 1
        if self.cfg["same"]:
            self.actions = [("i", 0), ("i", 1), ("cio", 0)]
        else:
            self.actions = [("i", 0), ("i", 1), ("ci", 0), ("co", 0), ("cio", 0)]

    def describe(self):
        return {"kind": self.kind, **self.cfg}

    def build(self):
        from amaranth.hdl import Module, ClockDomain
        from amaranth.lib.cdc import PulseSynchronizer
        c = self.cfg
        m = Module()
        cdo = ClockDomain("od", clk_edge=c["o_edge"], reset_less=True)
        m.domains.od = cdo
        if c["same"]:
            ps = PulseSynchronizer("od", "od", stages=c["stages"])
            clocks = [cdo.clk]
        else:
            cdi = ClockDomain("idom", clk_edge=c["i_edge"], reset_less=True)
            m.domains.idom = cdi
            ps = PulseSynchronizer("idom", "od", stages=c["stages"])
            clocks = [cdi.clk, cdo.clk]
        m.submodules.dut = ps
        self.o = ps.o
        frag, self.cells = elaborate_for(m, c.get("platform"), [cdo] if c["same"] else [cdo, cdi])
        return LevelSystem(frag, clocks, [ps.i])

    def model_init(self, sysm):
        # (i level, input clock level, output clock level, ages of the pending pulses oldest first,
        #  an active output edge was seen since the last input pulse)
        return (0, 0, 0, (), True)

    def step(self, sysm, m, a):
        c = self.cfg
        i, ci, co, pend, o_since = m
        ctx = sysm.ctx
        flags, errs = [], []
        o_pre = ctx.get(self.o)
        if a[0] == "i":
            i = a[1]
            sysm.set_levels([i])
            if ctx.get(self.o) != o_pre:
                errs.append(f"o-unstable: o changed from {o_pre} when only the input level changed to {i}")
            return (i, ci, co, pend, o_since), errs, ("input_level",)
        tog_i = a[0] in ("ci", "cio")
        tog_o = a[0] in ("co", "cio")
        if c["same"]:
            nci = nco = co ^ 1
            act_i = act_o = _active(c["o_edge"], nco)
        else:
            nci, nco = ci ^ tog_i, co ^ tog_o
            act_i = tog_i and _active(c["i_edge"], nci)
            act_o = tog_o and _active(c["o_edge"], nco)
        pulse = act_i and i == 1
        # environment assumption: an active output edge lies between consecutive input pulses (one that coincides with
        # the later pulse samples the state in between, so it counts; one that coincides with the earlier does not)
        if pulse and not (o_since or act_o):
            return m, [], ("pruned_by_assumption",)
        sysm.set_clocks([nco] if c["same"] else [nci, nco])
        if act_o:
            if o_pre:
                flags.append("pulse_out")
                if pend:
                    flags.append(f"latency_{pend[0]}")
                    if len(pend) > 1 and pend[1] == pend[0] - 1:
                        flags.append("back_to_back_out_pending")
                    pend = pend[1:]
                else:
                    errs.append("spurious: o is high for an output cycle although every input pulse has been answered")
            pend = tuple(x + 1 for x in pend)
            if pend and pend[0] > self.bound:
                errs.append(f"lost: an input pulse is still unanswered after {pend[0]} active output edges (stages={c['stages']})")
                pend = pend[1:]
            o_since = True
            flags.append("active_o_edge")
        else:
            if ctx.get(self.o) != o_pre:
                errs.append(f"o-unstable: o changed from {o_pre} on {a} without an active output edge")
            flags.append("no_active_o_edge")
        if pulse:
            flags.append("pulse_in")
            if act_o and not c["same"]:
                flags.append("pulse_in_simultaneous_with_o_edge")
            if pend:
                flags.append("pulse_in_while_pending")
            pend = pend + (0,)
            o_since = False
        elif act_i:
            flags.append("active_i_edge_without_pulse")
        return (i, nci, nco, pend, o_since), errs, tuple(flags)


def _sink_after_error(cls):
    """After a reported failure the model has lost track of the implementation: the successor becomes a sink
    (self-loops only) so that a diverged product is not explored (it would only produce follow-up noise)."""
    inner, inner_init = cls.step, cls.model_init

    def model_init(self, sysm):
        self._root = sysm.read()
        return inner_init(self, sysm)

    def step(self, sysm, m, a):
        if m == "ERR":
            return m, [], ()
        m2, errs, flags = inner(self, sysm, m, a)
        if errs:
            # one sink for all failures: put the implementation back to its reset state
            sysm.load(self._root)
            return "ERR", errs, flags
        return m2, errs, flags
    cls.step, cls.model_init = step, model_init
    return cls


for _c in (FFSpec, AsyncSpec, PulseSpec):
    _sink_after_error(_c)

SPECS = {"FFSynchronizer": FFSpec, "PulseSynchronizer": PulseSpec}


def make_spec(d):
    d = dict(d)
    kind = d.pop("kind")
    if kind in ("AsyncFFSynchronizer", "ResetSynchronizer"):
        return AsyncSpec({"prim": kind, **d})
    return SPECS[kind](d)


# ---------------------------------------------------------------- negedge domains must be refused
def negedge_case(d):
    """AsyncFFSynchronizer / ResetSynchronizer on a negedge output domain: elaboration (up to simulator
    construction) must fail with DomainRequirementFailed. Returns an error string or None."""
    from amaranth.hdl._ir import DomainRequirementFailed
    from amaranth.sim import Simulator
    spec = make_spec(d)
    try:
        sysm = spec.build(clk_edge="neg")
        Simulator(sysm.frag)
    except DomainRequirementFailed:
        return None
    except Exception as e:
        return f"negedge-domain: raised {type(e).__name__} instead of DomainRequirementFailed"
    return "negedge-domain: accepted on a domain with clk_edge='neg' (DomainRequirementFailed expected)"


# ---------------------------------------------------------------- configurations
def configs(rep):
    out = []
    q = rep.quick
    # FFSynchronizer
    for stages in ((2, 3, 4) if q else (2, 3, 4, 5, 6)):
        for width, signed in (((1, False), (2, False)) if q else ((1, False), (2, False), (2, True), (3, False))):
            if width * stages > (8 if q else 12):
                continue
            inits = {0, 1, (1 << width) - 1} if not signed else {0, -1, 1}
            for init in sorted(inits):
                for reset_less in (True, False):
                    for dom in ("sync", "async", "none"):
                        for edge in ("pos", "neg"):
                            if q and edge == "neg" and (dom == "none" or stages == 4):
                                continue
                            if q and width * stages >= 8 and (init == 1 or dom == "none"):
                                continue
                            # thorough: the largest lines (width*stages = 12) on posedge domains, extreme init values only
                            if width * stages >= 12 and (edge == "neg" or init == 1 or signed or (width == 3 and init == 0)):
                                continue
                            # reset_less flops in an asynchronously reset domain: kept to the smaller sizes (while the
                            # simulator clocks them on the reset edge the diverged product is many times larger)
                            if dom == "async" and reset_less and width * stages > (6 if q else 8):
                                continue
                            out.append({"kind": "FFSynchronizer", "stages": stages, "width": width, "signed": signed, "init": init,
                                        "reset_less": reset_less, "dom": dom, "edge": edge})
    # AsyncFFSynchronizer / ResetSynchronizer
    for stages in ((2, 3) if q else (2, 3, 4, 5, 6)):
        for i_init in (0, 1):
            for ae in ("pos", "neg"):
                out.append({"kind": "AsyncFFSynchronizer", "stages": stages, "async_edge": ae, "i_init": i_init})
            for dom_async in (False, True):
                out.append({"kind": "ResetSynchronizer", "stages": stages, "async_edge": "pos", "i_init": i_init, "dom_async": dom_async})
    # PulseSynchronizer
    for stages in ((2, 3) if q else (2, 3, 4, 5, 6, 7)):
        for same in (False, True):
            for i_edge in ("pos", "neg"):
                for o_edge in ("pos", "neg"):
                    if same and i_edge != o_edge:
                        continue
                    out.append({"kind": "PulseSynchronizer", "stages": stages, "i_edge": i_edge, "o_edge": o_edge, "same": same})
    out += platform_configs(rep)
    return out


# What the vendor overrides are held to. Xilinx lowers to plain flops (get_ff_sync) and FDPE chains (get_async_ff_sync):
# the full contract. Altera hands FFSynchronizer to altera_std_synchronizer_bundle, a megafunction that powers up at
# zero (the lowering XORs the data with `init` around it), has no synchronous-reset input and no clock-edge choice: all
# init values are explored, but only reset_less=True and posedge output domains. Limits, known and not encoded (they
# contradict the documentation of FFSynchronizer, not the property statement): AlteraPlatform.get_ff_sync ignores
# reset_less=False (an o_domain reset does not re-initialise the chain) and accepts a negedge o_domain although the
# megafunction always clocks on the rising edge.
def platform_configs(rep):
    out = []
    q = rep.quick
    for plat in PLATFORMS:
        xil = plat.startswith("xilinx")
        full = plat in ("xilinx-vivado", "altera-quartus") or not q
        for stages in (2, 3):
            for width in ((1, 2) if full or not xil else (1,)):
                for init in sorted({0, 1, (1 << width) - 1}):
                    for reset_less in ((True, False) if xil else (True,)):
                        for dom in (("sync", "async", "none") if full else ("sync",)):
                            for edge in (("pos", "neg") if xil and full and stages == 2 else ("pos",)):
                                out.append({"kind": "FFSynchronizer", "stages": stages, "width": width, "signed": False, "init": init,
                                            "reset_less": reset_less, "dom": dom, "edge": edge, "platform": plat})
            for i_init in (0, 1):
                for ae in ("pos", "neg"):
                    out.append({"kind": "AsyncFFSynchronizer", "stages": stages, "async_edge": ae, "i_init": i_init, "platform": plat})
                for dom_async in (False, True):
                    out.append({"kind": "ResetSynchronizer", "stages": stages, "async_edge": "pos", "i_init": i_init, "dom_async": dom_async,
                                "platform": plat})
            for same, i_edge, o_edge in ((False, "pos", "pos"), (False, "neg", "pos"), (True, "pos", "pos")) + \
                                        (((False, "pos", "neg"), (True, "neg", "neg")) if xil else ()):
                out.append({"kind": "PulseSynchronizer", "stages": stages, "i_edge": i_edge, "o_edge": o_edge, "same": same, "platform": plat})
    return out


def vendor_hook_owners():
    """every class in amaranth/vendor/*.py that defines one of the CDC hooks (to notice an override nobody explores)"""
    import importlib, inspect, os
    import amaranth.vendor as V
    owners = {}
    for fn in sorted(os.listdir(os.path.dirname(V.__file__))):
        if not fn.endswith(".py") or fn == "__init__.py":
            continue
        mod = importlib.import_module("amaranth.vendor." + fn[:-3])
        for name, cls in inspect.getmembers(mod, inspect.isclass):
            if cls.__module__ != mod.__name__:
                continue
            hooks = sorted(h for h in vars(cls) if h.startswith("get_") and h.endswith("_sync"))
            if hooks:
                owners[f"{mod.__name__}.{name}"] = hooks
    return owners


def run_config(task):
    d, replay_n = task
    spec = make_spec(d)
    try:
        res = explore(spec, procs=1, replay_n=replay_n, cap_states=2_000_000)
    except UnknownCell as e:
        return {"cfg": d, "cell_error": str(e)}
    out = {"cfg": d, "states": res.states, "transitions": res.transitions, "depth": res.max_depth, "flags": sorted(res.flags),
           "capped": res.capped, "validated": res.traces_validated, "wall": round(res.wall, 2), "errors": [], "mismatch": [],
           "neg": None}
    out["cells"] = sorted({f"{c.type}x{sum(1 for k in spec.cells if k.type == c.type)}" for c in spec.cells}) if "platform" in d else []
    for errs, path in res.errors:
        out["errors"].append({"errs": errs, "path": [list(spec.actions[i]) for i in path]})
    for path, want, got in res.replay_mismatch[:3]:
        out["mismatch"].append({"path": [list(spec.actions[i]) for i in path], "bfs": repr(want), "replayed": repr(got)})
    if d["kind"] in ("AsyncFFSynchronizer", "ResetSynchronizer"):
        out["neg"] = negedge_case(d) or "refused"
    return out


def run(rep):
    cfgs = configs(rep)
    replay_n = rep.pick(10, 40)
    # biggest graphs first so that the pool drains evenly
    def weight(d):
        return -(d.get("width", 1) * d["stages"] + (4 if d["kind"] == "PulseSynchronizer" else 0))
    tasks = sorted(rotate([(c, replay_n) for c in cfgs], rep.seed), key=lambda t: weight(t[0]))
    flags = {}
    seen_kinds = {}
    failed_kinds = set()
    plats = {}
    for r in pmap(run_config, tasks, rep.procs):
        d = r["cfg"]
        tag = _tag(d)
        if "cell_error" in r:
            failed_kinds.add(d["kind"])
            rep.violation(f"{tag}:vendor-cell", f"{tag}: the platform lowering uses a vendor cell in a way that has no counterpart in the "
                          f"generic lowering: {r['cell_error']}", {"cfg": d, "cell": True})
            continue
        if "platform" in d:
            rep.add("platform_configurations", 1)
            plats.setdefault(d["platform"], {}).setdefault(d["kind"], set()).update(r["cells"])
        rep.add("states", r["states"])
        rep.add("transitions", r["transitions"])
        rep.add("traces_validated_against_impl", r["validated"])
        rep.add("configurations", 1)
        rep.add("configurations_" + d["kind"], 1)
        flags.setdefault(d["kind"], set()).update(r["flags"])
        if r["capped"]:
            rep.add("capped_configurations", 1)
        if r["errors"] or r["mismatch"]:
            failed_kinds.add(d["kind"])
        for e in r["errors"]:
            code = e["errs"][0].split(":")[0]
            rep.violation(f"{tag}:{code}", f"{tag}: {e['errs']} after actions {e['path']}", {"cfg": d, "path": e["path"]})
        for mm in r["mismatch"]:
            rep.violation(f"{tag}:replay-mismatch", f"{tag}: state reached by BFS state injection differs from replay from reset: {mm}",
                          {"cfg": d, "path": mm["path"], "mismatch": True})
        if r["neg"] is not None:
            rep.add("negedge_domain_elaborations", 1)
            if r["neg"] == "refused":
                rep.add("negedge_domain_refused", 1)
            else:
                rep.violation(f"{tag}:negedge-domain", f"{tag}: {r['neg']}", {"cfg": d, "negedge": True})
        n = seen_kinds.get(d["kind"], 0)
        seen_kinds[d["kind"]] = n + 1
        if n < 4:
            rep.sample({"config": tag, "states": r["states"], "transitions": r["transitions"], "bfs_depth": r["depth"], "wall_s": r["wall"]}, limit=20)
    rep.setcov("exhaustive", rep.cov.get("capped_configurations", 0) == 0)
    rep.setcov("actions", "FFSynchronizer: set input to each value | toggle output clock | set domain reset level; Async/ResetSynchronizer: "
               "set input level | toggle output clock; PulseSynchronizer: set i level | toggle input clock | toggle output clock | toggle both at once")
    rep.setcov("flags_seen", {k: sorted(v) for k, v in sorted(flags.items())})
    rep.setcov("rule", "full reachable product graph of (real simulated synchroniser registers + clock levels + input/reset levels) x "
               "(delay-line / edge-counter / pulse-ledger model); every state expanded with every action; output compared after every "
               "action (also with no edge and on inactive edges); PulseSynchronizer paths that break the documented environment "
               "assumption are self-loops")
    need = {
        "FFSynchronizer": ["active_edge", "inactive_edge", "input_change_without_edge", "output_differs_from_init", "reset_at_edge",
                           "async_reset_applied", "reset_ignored(reset_less)", "active_edge_under_ignored_reset"],
        "AsyncFFSynchronizer": ["assert_while_clk_high", "assert_while_clk_low", "release_input", "edge_while_asserted", "edge_after_release",
                                "released_1_edges", "output_released", "falling_edge"],
        "ResetSynchronizer": ["assert_while_clk_high", "assert_while_clk_low", "released_1_edges", "output_released", "witness_reset",
                              "witness_running"],
        "PulseSynchronizer": ["pulse_in", "pulse_out", "pruned_by_assumption", "pulse_in_simultaneous_with_o_edge", "pulse_in_while_pending",
                              "back_to_back_out_pending", "active_i_edge_without_pulse", "no_active_o_edge"],
    }
    # Exploration stops behind a failing transition, so a primitive that fails may leave antecedents unreached; that
    # run is reported as a violation, not as a harness error. A primitive without any failure must reach them all.
    for kind, names in need.items():
        missing = [n for n in names if n not in flags.get(kind, ())]
        if missing and kind in failed_kinds:
            rep.notes.append(f"{kind}: antecedents {missing} not reached behind the reported failures")
            continue
        for n in missing:
            rep.require(False, f"{kind}: antecedent {n} never exercised")
    rep.require(rep.cov.get("negedge_domain_elaborations", 0) > 0, "negedge-domain refusals never attempted")
    # vendor overrides: every class defining a CDC hook is explored, and every platform really went through its hooks
    owners = vendor_hook_owners()
    rep.setcov("vendor_hook_owners", owners)
    covered = {f"{v[0]}.{v[1]}" for v in PLATFORMS.values()}
    rep.require(set(owners) <= covered, f"vendor classes with CDC hooks that are not explored: {sorted(set(owners) - covered)}")
    rep.require(all(set(h) <= set(HOOKS) for h in owners.values()), f"unknown CDC hook among {owners}")
    rep.require(all(hs == list(HOOKS) for hs in overriding_platforms().values()), "a listed platform does not override both hooks")
    rep.setcov("vendor_cells_seen", {p: {k: sorted(v) for k, v in sorted(ks.items())} for p, ks in sorted(plats.items())})
    for p in PLATFORMS:
        rep.require(set(plats.get(p, ())) >= {"FFSynchronizer", "AsyncFFSynchronizer", "ResetSynchronizer", "PulseSynchronizer"} or failed_kinds,
                    f"platform {p}: not every primitive was explored")
    rep.assume("vendor cells (FDPE, altera_std_synchronizer[_bundle]) are replaced during elaboration by behavioural models written from the "
               "vendor documentation (vf/gen/c17_platforms.py); AlteraPlatform.get_ff_sync is explored for every init value but only for reset_less=True "
               "and posedge output domains: it ignores reset_less=False and accepts negedge domains (contradicts the docs, not the statement; not checked)")
    rep.assume("state injection through ctx.set is validated by replaying shortest paths from reset on fresh simulators")
    rep.assume("input changes and clock edges are interleaved, never simultaneous; the two PulseSynchronizer clocks may toggle simultaneously")
    rep.assume("PulseSynchronizer: an input pulse is an active input-domain edge with i=1; an active output edge coinciding with the later of two "
               "pulses counts as lying between them; an unanswered pulse is declared lost after stages+2 active output edges")
    rep.assume("Async/ResetSynchronizer: the output is not constrained before the first assertion of the input (power-on value is not in the statement)")


def replay(payload):
    d = payload["cfg"]
    if payload.get("negedge"):
        r = negedge_case(d)
        return [r] if r else []
    spec = make_spec(d)
    if payload.get("cell"):
        try:
            spec.build()
        except UnknownCell as e:
            return [f"vendor-cell: {e}"]
        return []
    idx = [spec.actions.index(tuple(a)) for a in payload["path"]]
    key, errs = replay_path(spec, idx)
    out = [f"at action {spec.actions[i]}: {e}" for i, e in errs]
    if payload.get("mismatch") and not out:
        # the recorded problem was a divergence between state injection and replay from reset: re-check on a one-path exploration
        res = explore(spec, procs=1, replay_n=10**9, cap_states=2_000_000)
        out = [f"replay-mismatch on path {[spec.actions[i] for i in p]}" for p, _w, _g in res.replay_mismatch[:3]]
    return out
