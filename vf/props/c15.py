"""C15 Data layouts and shaped enumerations obey the shape-castable laws -- bounded-exhaustive enumeration.

Every layout term of vf/gen/c15_terms.py (struct / union / array / flexible / annotated Struct and Union
classes, nested to depth 2, <= 8 bits) x EVERY bit pattern of the underlying value is pushed through
  placement : Layout iteration / indexing / size vs. the placement rules
  const     : from_bits / as_bits / const(init) / field read-back on lib.data.Const (integer arithmetic)
  view      : View field expressions (shape, wrapper type, constant folding with hdl.Const.cast)
  sim       : the Python simulator: ctx.get / ctx.set on view fields (interpreter path) and a comb module that
              copies and assigns through view fields, static and dynamic array index (compiled path)
and compared with the plain-int reference in vf/ref/c15_layout.py. Shaped Enum/IntEnum/Flag/IntFlag classes are
enumerated separately (round trips for every member; FlagView operators vs. Python's own enum.Flag)."""
import enum as py_enum
import itertools
import types
import warnings

from ..core.pool import pmap, rotate, chunks
from ..gen import c15_terms as G
from ..ref import c15_layout as R

ID = "C15"
LEVEL = "exploration"


# ---------------------------------------------------------------- TODO hook: synthesis leg
def rtlil_leg(design):
    """TODO(C15/synthesis): run `design` (the comb module built by `build_sim_design`) through the RTLIL
    interpreter (vf/rtlil, not available yet) and compare its outputs with the same reference.  Skipped for
    now: returns None, and the run records `rtlil_leg_skipped`."""
    return None


# ---------------------------------------------------------------- building the real objects
_ENUMS = {}
_SHAPES = {}


def _new_enum(name, base, members, **kw):
    def body(ns):
        for k, v in members:
            ns[k] = v
    return types.new_class(name, (base,), kw, body)


def enum_cls(name):
    if name not in _ENUMS:
        from amaranth.hdl import Shape
        from amaranth.lib import enum as am_enum
        e = R.ENUMS[name]
        _ENUMS[name] = _new_enum(name, getattr(am_enum, e["base"]), [(f"M{i}", v) for i, v in enumerate(e["values"])],
                                 shape=Shape(e["width"], e["signed"]))
    return _ENUMS[name]


def enum_member(name, value):
    cls = enum_cls(name)
    for m in cls:
        if m.value == value:
            return m
    return cls(value)      # flag combinations: resolved by Python's own Flag machinery


def build(t):
    """term -> the real shape-castable object"""
    if t in _SHAPES:
        return _SHAPES[t]
    from amaranth.hdl import Shape
    from amaranth.lib import data
    k = t[0]
    if k in ("u", "s"):
        obj = Shape(t[1], k == "s")
    elif k == "E":
        obj = enum_cls(t[1])
    elif k == "struct":
        obj = data.StructLayout({key: build(x) for key, x, _o in R.fields(t)})
    elif k == "union":
        obj = data.UnionLayout({key: build(x) for key, x, _o in R.fields(t)})
    elif k == "array":
        obj = data.ArrayLayout(build(t[1]), t[2])
    elif k == "flex":
        obj = data.FlexibleLayout(t[1], {key: data.Field(build(x), off) for key, x, off in t[2]})
    elif k in ("scls", "ucls"):
        ann = {key: build(x) for key, x, _o in R.fields(t)}
        dflt = {key: to_impl_init(dict((kk, xx) for kk, xx, _ in R.fields(t))[key], v) for key, v in R.default_of(t).items()}

        def body(ns):
            ns["__annotations__"] = dict(ann)
            for key, v in dflt.items():
                ns[key] = v
        obj = types.new_class("Sc" if k == "scls" else "Uc", (data.Struct if k == "scls" else data.Union,), {}, body)
    else:
        raise ValueError(t)
    _SHAPES[t] = obj
    return obj


def to_impl_init(t, init):
    """reference initialiser -> the object handed to the real const()/Signal(init=)/ctx.set"""
    from amaranth.lib import data
    if isinstance(init, tuple) and len(init) == 4 and init[0] == "hc":
        from amaranth.hdl import Const as HC, Shape
        return HC(init[1], Shape(init[2], init[3]))
    if isinstance(init, tuple) and len(init) == 2 and init[0] == "bits":
        if R.is_leaf(t):
            d = R.decode(t, init[1])
            assert d is not R.INVALID, (t, init)
            return enum_member(t[1], d) if t[0] == "E" else d
        return data.Const(build(t), init[1])
    if R.is_leaf(t):
        if t[0] == "E":
            return enum_member(t[1], init)
        return init
    if init is None:
        return None
    sub = {k: x for k, x, _o in R.fields(t)}
    if isinstance(init, dict):
        return {k: to_impl_init(sub[k], v) for k, v in init.items()}
    return [to_impl_init(sub[i], v) for i, v in enumerate(init)]


def impl_decode(obj, t):
    """walk a value handed back by the implementation into the structure returned by R.decode"""
    from amaranth.lib import data
    if R.is_leaf(t):
        if t[0] == "E":
            cls = enum_cls(t[1])
            if R.ENUMS[t[1]]["base"].startswith("Int") and type(obj) is int:
                return obj         # IntEnum / IntFlag have no view class: plain values come back as ints
            if not isinstance(obj, cls):
                return ("badtype", type(obj).__name__, repr(obj))
            return obj.value
        if type(obj) is not int:
            return ("badtype", type(obj).__name__, repr(obj))
        return obj
    if not isinstance(obj, data.Const):
        return ("badtype", type(obj).__name__, repr(obj))
    out = []
    for key, x, _off in R.fields(t):
        try:
            v = obj[key]
        except Exception as e:
            out.append((key, ("exc", type(e).__name__)))
            continue
        out.append((key, impl_decode(v, x)))
    return ("L", obj.as_bits(), tuple(out))


def diff(want, got, path=""):
    """first difference between a reference decode and an implementation decode; INVALID fields are not compared
    (the statement only speaks about valid bit patterns). Returns None or (path, want, got)."""
    if want is R.INVALID:
        return None
    if isinstance(want, tuple) and want and want[0] == "L":
        if not (isinstance(got, tuple) and got and got[0] == "L"):
            return (path, "layout constant", got)
        if want[1] != got[1]:
            return (path + ".as_bits()", want[1], got[1])
        for (k, wv), (_k2, gv) in zip(want[2], got[2]):
            d = diff(wv, gv, f"{path}[{k!r}]")
            if d:
                return d
        return None
    if want != got:
        return (path, want, got)
    return None


class Run:
    """violation / coverage collector for one layout term"""
    def __init__(self, out, t):
        self.out, self.t, self.seen = out, t, set()
        self.show = R.show(t)

    def v(self, law, detail, what):
        sig = f"{law}:{self.show}" + (f":{detail}" if detail != "" else "")
        if sig in self.seen:
            return
        self.seen.add(sig)
        self.out["violations"].append({"sig": sig, "what": f"{self.show}: {what}",
                                       "payload": {"kind": "layout", "term": self.t, "sig": sig}})

    def n(self, key, k=1):
        c = self.out["cov"]
        c[key] = c.get(key, 0) + k


# ---------------------------------------------------------------- leg: placement
def leg_placement(run, t, S, L):
    from amaranth.hdl import Shape
    fs = R.fields(t)
    w = R.width(t)
    want = [(k, off, R.width(x), R.signed(x)) for k, x, off in fs]
    try:
        got = [(k, f.offset, f.width, Shape.cast(f.shape).signed) for k, f in L]
    except Exception as e:
        got = ("exc", type(e).__name__)
    run.n("evaluations", 3 + len(fs))
    run.n("placement_fields", len(fs))
    if got != want:
        run.v("placement.iter", "", f"fields (key, offset, width, signed) {got}, placement rules give {want}")
    if L.size != w:
        run.v("placement.size", "", f"size {L.size}, placement rules give {w}")
    sh = Shape.cast(S)
    if (sh.width, sh.signed) != (w, False):
        run.v("placement.shape", "", f"Shape.cast = {sh!r}, want unsigned({w})")
    for k, x, off in fs:
        try:
            f = L[k]
            g = (f.offset, f.width, Shape.cast(f.shape).signed)
        except Exception as e:
            g = ("exc", type(e).__name__)
        if g != (off, R.width(x), R.signed(x)):
            run.v("placement.getitem", repr(k), f"layout[{k!r}] = {g}, want {(off, R.width(x), R.signed(x))}")
    if t[0] == "array" and t[2]:
        run.n("evaluations", t[2])
        for i in range(1, t[2] + 1):
            f = L[-i]
            if f.offset != (t[2] - i) * R.width(t[1]):
                run.v("placement.getitem", repr(-i), f"layout[{-i}].offset = {f.offset}")
    offs = sorted((off, off + R.width(x)) for _k, x, off in fs if R.width(x))
    if any(a[1] > b[0] for a, b in zip(offs, offs[1:])):
        run.n("layouts_with_overlap")
    if R.covered_mask(t) != R.mask(w):
        run.n("layouts_with_gap")
    if any(R.width(x) == 0 for _k, x, _o in fs):
        run.n("layouts_with_zero_width_field")


# ---------------------------------------------------------------- leg: constants
def init_variants(t, raw):
    """[(tag, init)] field-wise initialisers describing `raw` (nested members as dicts and as ready constants;
    one member at a time for unions; both orders for flexible layouts)"""
    out = []
    fs = R.fields(t)
    if t[0] in ("union", "ucls"):
        for key, x, off in fs:
            for mode in ("dict", "bits"):
                v = R.init_from(x, (raw >> off) & R.mask(R.width(x)), mode)
                if v is not None and not (mode == "bits" and R.is_leaf(x)):
                    out.append((f"{mode}:{key}", {key: v}))
        return out
    for mode in ("dict", "bits"):
        d = {}
        for key, x, off in fs:
            v = R.init_from(x, (raw >> off) & R.mask(R.width(x)), mode)
            if v is None:
                d = None
                break
            d[key] = v
        if d is None:
            continue
        if mode == "bits" and all(R.is_leaf(x) for _k, x, _o in fs):
            continue
        if t[0] == "array":
            out.append((mode, [d[i] for i in range(t[2])]))
        else:
            out.append((mode, d))
            if t[0] == "flex" and len(d) > 1 and mode == "dict":
                out.append(("dict-reversed", dict(reversed(list(d.items())))))
    return out


def leg_const(run, t, S, L):
    from amaranth.hdl import Const as HC, Shape, Signal
    w = R.width(t)
    fs = R.fields(t)
    want_shape = Shape(w, False)
    for raw in range(1 << w):
        run.n("patterns")
        run.n("evaluations", 4)
        try:
            c = S.from_bits(raw)
            bits = c.as_bits()
            hc = HC.cast(c)
            got = (bits, hc.value, hc.shape())
        except Exception as e:
            got = ("exc", type(e).__name__)
        if got != (raw, raw, want_shape):
            run.v("const.from_bits", "", f"from_bits({raw}) -> (as_bits, Const.cast value, shape) = {got}")
            continue
        try:
            g2 = HC.cast(S.const(S.from_bits(raw))).value
        except Exception as e:
            g2 = ("exc", type(e).__name__)
        if g2 != raw:
            run.v("law.from_bits", "", f"Const.cast(s.const(s.from_bits({raw}))).value = {g2}")
        ref = R.decode(t, raw)
        d = diff(ref, impl_decode(c, t))
        run.n("field_reads", len(fs))
        if d:
            run.v("const.read", d[0], f"from_bits({raw}){d[0]} = {d[2]}, the bit slice reinterpreted in the field's shape is {d[1]}")
        if t[0] == "array" and t[2]:
            run.n("evaluations")
            run.n("negative_index_checks")
            try:
                gl = impl_decode(c[-1], t[1])
            except Exception as e:
                gl = ("exc", type(e).__name__)
            d = diff(ref[2][-1][1], gl, "[-1]")
            if d:
                run.v("const.read", d[0], f"from_bits({raw})[-1] = {d[2]}, last element is {d[1]}")
        for tag, init in init_variants(t, raw):
            run.n("evaluations", 3)
            run.n("const_inits")
            want = R.encode(t, init)
            try:
                c2 = S.const(to_impl_init(t, init))
                hc2 = HC.cast(c2)
                got = (c2.as_bits(), hc2.shape())
            except Exception as e:
                c2 = None
                got = ("exc", type(e).__name__)
            if got != (want, want_shape):
                run.v("const.build", tag.split(":")[0], f"const({init!r}) -> (as_bits, shape) = {got}, assigning the fields to a zero value gives {want}")
                continue
            d = diff(R.decode(t, want), impl_decode(c2, t))
            if d:
                run.v("const.readback", d[0], f"const({init!r}){d[0]} = {d[2]}, want {d[1]}")
            if tag in ("dict", "bits") or tag.startswith("dict:"):
                run.n("evaluations")
                try:
                    with warnings.catch_warnings():
                        warnings.simplefilter("ignore")
                        g3 = Signal(S, init=to_impl_init(t, init)).as_value().init
                except Exception as e:
                    g3 = ("exc", type(e).__name__)
                if g3 != want:
                    run.v("const.signal_init", "", f"Signal(layout, init={init!r}).as_value().init = {g3}, want {want}")
    # initialisers that are not field-wise images of a bit pattern
    run.n("evaluations", 2)
    for init in (None, {}):
        if t[0] == "array" and init == {}:
            init = []
        want = R.encode(t, init)
        try:
            g = S.const(init).as_bits()
        except Exception as e:
            g = ("exc", type(e).__name__)
        if g != want:
            run.v("const.build", "empty", f"const({init!r}).as_bits() = {g}, want {want}")
    for key, x, off in fs:
        wx = R.width(x)
        if x[0] in ("u", "s"):
            # out-of-range integers wrap like an assignment would
            for v in range(-(1 << wx) - 1, (1 << wx) + 2):
                run.n("evaluations")
                run.n("const_inits")
                init = {key: v} if t[0] != "array" else None
                if init is None:
                    init = [0] * key + [v]
                want = R.encode(t, init)
                try:
                    g = S.const(init).as_bits()
                except Exception as e:
                    g = ("exc", type(e).__name__)
                if g != want:
                    run.v("const.build", f"wrap:{key!r}", f"const({init!r}).as_bits() = {g}, want {want}")
    leg_const_hdlconst(run, t, S)


def ones_init(x):
    """an initialiser setting every bit of field x (None if that is not a valid pattern of an enumeration leaf)"""
    if R.is_leaf(x) and R.decode(x, R.mask(R.width(x))) is R.INVALID:
        return None
    return ("bits", R.mask(R.width(x)))


def leg_const_hdlconst(run, t, S):
    """plain (non shape-castable) fields initialised with an hdl.Const of EVERY shape of width <= field width + 1 and
    every value of that shape: Layout.const documents the result as a zeroed view with every field assigned in
    order, i.e. the constant is extended by its own signedness / truncated to the field, never touching other bits.
    The other fields are left alone, or all set to ones before, or all set to ones after (in layout order)."""
    from amaranth.hdl import Signal
    fs = R.fields(t)
    is_union = t[0] in ("union", "ucls")
    for key, x, off in fs:
        if x[0] not in ("u", "s"):
            continue
        wx = R.width(x)
        others = [(k2, ones_init(x2)) for k2, x2, _o in fs if k2 != key]
        others = [(k2, v) for k2, v in others if v is not None]
        modes = ["alone"] if (is_union or not others) else ["alone", "before", "after"]
        for cw in range(0, wx + 2):
            for csigned in (False, True):
                if csigned and cw == 0:
                    continue
                lo = -(1 << (cw - 1)) if csigned else 0
                for value in range(lo, lo + (1 << cw)):
                    hc = ("hc", value, cw, csigned)
                    if cw != wx:
                        run.n("hdlconst_width_mismatch_inits")
                    for mode in modes:
                        if mode == "alone":
                            init = {key: hc}
                        elif mode == "before":
                            init = dict(others)
                            init[key] = hc
                        else:
                            init = {key: hc}
                            init.update(others)
                        run.n("evaluations", 2)
                        run.n("const_inits")
                        run.n("hdlconst_inits")
                        want = R.encode(t, init)
                        try:
                            g = S.const(to_impl_init(t, init)).as_bits()
                        except Exception as e:
                            g = ("exc", type(e).__name__)
                        if g != want:
                            run.v("const.build", f"hdlconst:{key!r}:{mode}", f"const({init!r}).as_bits() = {g}, assigning "
                                  f"Const({value}, {'signed' if csigned else 'unsigned'}({cw})) to the {wx}-bit field of a zeroed view gives {want}")
                        try:
                            with warnings.catch_warnings():
                                warnings.simplefilter("ignore")
                                g = Signal(S, init=to_impl_init(t, init)).as_value().init
                        except Exception as e:
                            g = ("exc", type(e).__name__)
                        if g != want:
                            run.v("const.signal_init", f"hdlconst:{key!r}:{mode}", f"Signal(layout, init={init!r}).as_value().init = {g}, want {want}")


# ---------------------------------------------------------------- leg: view expressions / constant folding
def wrapper_ok(e, x):
    """is `e` the documented kind of object for a field of term x"""
    from amaranth.hdl import Value
    from amaranth.lib import data, enum as am_enum
    if x[0] in ("u", "s"):
        return isinstance(e, Value)
    if x[0] == "E":
        base = R.ENUMS[x[1]]["base"]
        if base == "Enum":
            return type(e) is am_enum.EnumView and e.shape() is enum_cls(x[1])
        if base == "Flag":
            return type(e) is am_enum.FlagView and e.shape() is enum_cls(x[1])
        return isinstance(e, Value)
    if x[0] in ("scls", "ucls"):
        return type(e) is build(x)
    return type(e) is data.View and e.shape() is build(x)


def leg_view(run, t, S, L):
    from amaranth.hdl import Const as HC, Shape, Value
    w = R.width(t)
    fs = R.fields(t)
    for raw in range(1 << w):
        try:
            v = S(HC(raw, w))
        except Exception as e:
            run.v("view.construct", type(e).__name__, f"layout(Const({raw},{w})) raises {type(e).__name__}: {e}")
            return
        for key, x, off in fs:
            wx = R.width(x)
            run.n("evaluations", 3)
            try:
                e = v[key]
            except Exception as ex:
                run.v("view.field", f"{key!r}:{type(ex).__name__}", f"view[{key!r}] raises {type(ex).__name__}: {ex}")
                continue
            sh = Value.cast(e).shape()
            if (sh.width, sh.signed) != (wx, R.signed(x)):
                run.v("view.shape", repr(key), f"view[{key!r}] has shape {sh!r}, field shape is {'signed' if R.signed(x) else 'unsigned'}({wx})")
            if not wrapper_ok(e, x):
                run.v("view.wrapper", repr(key), f"view[{key!r}] is {e!r}")
            # constant folding: only Const / Cat / Slice are constant-castable, so signed leaves cannot fold
            try:
                folded = HC.cast(e)
            except TypeError:
                run.n("constfold_not_castable")
                continue
            run.n("constfold")
            bits = (raw >> off) & R.mask(wx)
            if folded.value & R.mask(wx) != bits or len(folded) != wx:
                run.v("view.constfold", repr(key), f"Const.cast(view({raw})[{key!r}]) = {folded!r}, slice is {bits}")
        if raw == 0 and t[0] == "array":
            for i in range(1, t[2] + 1):
                run.n("evaluations")
                run.n("negative_index_checks")
                try:
                    same = repr(v[-i]) == repr(v[t[2] - i])
                except Exception:
                    continue       # already reported by view.field
                if not same:
                    run.v("view.negindex", str(-i), f"view[{-i}] = {v[-i]!r} differs from view[{t[2] - i}] = {v[t[2] - i]!r}")
        if raw == 0:
            for key, x, off in fs:
                if isinstance(key, str):
                    run.n("evaluations")
                    try:
                        same = repr(getattr(v, key)) == repr(v[key])
                    except Exception:
                        continue       # already reported by view.field
                    if not same:
                        run.v("view.getattr", repr(key), f"view.{key} differs from view[{key!r}]")


# ---------------------------------------------------------------- leg: simulator
def typed_value(x, bits):
    """object to hand to ctx.set for a field of term x holding `bits` (None: invalid enumeration pattern)"""
    if R.is_leaf(x):
        d = R.decode(x, bits)
        if d is R.INVALID:
            return None
        return enum_member(x[1], d) if x[0] == "E" else d
    from amaranth.lib import data
    return data.Const(build(x), bits)


def build_sim_design(run, t, S):
    """comb module copying src to dst field by field, and assigning `val` through the field selected by `sel`
    (and through a dynamic array index) onto a background `bg`"""
    from amaranth.hdl import Module, Signal
    w = R.width(t)
    fs = R.fields(t)

    def mk(name):
        try:
            with warnings.catch_warnings():
                warnings.simplefilter("ignore")
                return Signal(S, name=name)
        except Exception as e:
            run.v("sim.construct", type(e).__name__, f"Signal(layout) raises {type(e).__name__}: {e}")
            return S(Signal(w, name=name))
    d = types.SimpleNamespace()
    d.src, d.dst, d.wdst = mk("src"), mk("dst"), mk("wdst")
    d.bg = Signal(w, name="bg")
    maxw = max((R.width(x) for _k, x, _o in fs), default=0)
    d.val = Signal(maxw, name="val")
    d.sel = Signal(range(len(fs) + 1), name="sel")
    d.acc = {}
    m = Module()
    m.d.comb += d.wdst.as_value().eq(d.bg)
    for i, (key, x, off) in enumerate(fs):
        try:
            a, b, c = d.src[key], d.dst[key], d.wdst[key]
        except Exception:
            continue           # reported by view.field
        d.acc[key] = a
        m.d.comb += b.eq(a)
    with m.Switch(d.sel):
        for i, (key, x, off) in enumerate(fs):
            if key in d.acc:
                with m.Case(i + 1):
                    m.d.comb += d.wdst[key].eq(d.val[:R.width(x)])
    d.dyn = False
    if t[0] == "array" and t[2] >= 1 and R.width(t[1]) == 0:
        run.n("dynamic_index_zero_width_skipped")     # word_select() refuses a zero stride; outside the statement
    elif t[0] == "array" and t[2] >= 1:
        try:
            d.idx = Signal(range(t[2]), name="idx")
            we = R.width(t[1])
            d.rd = Signal(we, name="rd")
            d.wdyn = mk("wdyn")
            d.rdyn = d.src[d.idx]
            m.d.comb += d.rd.eq(d.rdyn)
            m.d.comb += d.wdyn.as_value().eq(d.bg)
            m.d.comb += d.wdyn[d.idx].eq(d.val[:we])
            d.dyn = True
        except Exception as e:
            run.v("view.field", f"dynamic:{type(e).__name__}", f"view[idx] raises {type(e).__name__}: {e}")
    d.m = m
    return d


def leg_sim(run, t, S, L, budget):
    from ..sim.driver import elaborate, run_in_testbench
    w = R.width(t)
    fs = R.fields(t)
    full = R.mask(w)
    d = build_sim_design(run, t, S)
    try:
        frag = elaborate(d.m)
    except Exception as e:
        run.v("sim.elaborate", type(e).__name__, f"elaboration raises {type(e).__name__}: {e}")
        return
    if rtlil_leg(d.m) is None:
        run.n("rtlil_leg_skipped")
    covered = 0
    for key, x, off in fs:
        if key in d.acc:
            covered |= R.mask(R.width(x)) << off
    cost = (1 << w) * sum(1 << R.width(x) for _k, x, _o in fs)
    if cost <= budget:
        bgs = list(range(1 << w))
    else:
        bgs = sorted({0, full, 0x55 & full, 0xAA & full})
        run.n("layouts_with_corner_backgrounds")

    def body(ctx):
        src_v, dst_v, wdst_v = d.src.as_value(), d.dst.as_value(), d.wdst.as_value()
        # ---- reads
        for raw in range(1 << w):
            ctx.set(src_v, raw)
            run.n("evaluations", 2)
            try:
                whole = ctx.get(d.src)
                g = whole.as_bits()
            except Exception as e:
                g = ("exc", type(e).__name__)
            if g != raw:
                run.v("sim.get_whole", "", f"ctx.get(view) with underlying value {raw} gives as_bits {g}")
            g = ctx.get(dst_v)
            if g != raw & covered:
                run.v("sim.copy", "", f"comb dst[k].eq(src[k]) for every field: src={raw} gives dst={g}, want {raw & covered}")
            for key, x, off in fs:
                if key not in d.acc:
                    continue
                bits = (raw >> off) & R.mask(R.width(x))
                want = R.decode(x, bits)
                run.n("evaluations")
                run.n("sim_field_reads")
                if want is R.INVALID:
                    run.n("invalid_enum_patterns_skipped")
                    continue
                if isinstance(want, int) and want < 0:
                    run.n("sim_negative_reads")
                if x[0] == "E":
                    run.n("sim_enum_reads")
                if not R.is_leaf(x):
                    run.n("sim_nested_reads")
                try:
                    got = impl_decode(ctx.get(d.acc[key]), x)
                except Exception as e:
                    got = ("exc", type(e).__name__)
                df = diff(want, got, f"[{key!r}]")
                if df:
                    run.v("sim.get_field", df[0], f"underlying value {raw}: ctx.get(view{df[0]}) = {df[2]}, the slice reinterpreted in the field's shape is {df[1]}")
            if d.dyn:
                x = t[1]
                we = R.width(x)
                for i in range(t[2]):
                    ctx.set(d.idx, i)
                    bits = (raw >> (i * we)) & R.mask(we)
                    run.n("evaluations", 2)
                    run.n("sim_dynamic_reads")
                    g = ctx.get(d.rd)
                    if g != bits:
                        run.v("sim.dyn_read", "comb", f"underlying {raw}: comb rd.eq(view[idx]) with idx={i} gives {g}, element bits are {bits}")
                    want = R.decode(x, bits)
                    if want is R.INVALID:
                        continue
                    try:
                        got = impl_decode(ctx.get(d.rdyn), x)
                    except Exception as e:
                        got = ("exc", type(e).__name__)
                    df = diff(want, got)
                    if df:
                        run.v("sim.dyn_read", "get", f"underlying {raw}: ctx.get(view[idx]) with idx={i} = {df[2]}, want {df[1]}")
        # ---- writes: only the field's bits may change
        for bgv in bgs:
            ctx.set(d.bg, bgv)
            ctx.set(d.sel, 0)
            run.n("evaluations")
            if ctx.get(wdst_v) != bgv:
                run.v("sim.write", "none", f"background {bgv} not passed through when no field is selected")
            for i, (key, x, off) in enumerate(fs):
                if key not in d.acc:
                    continue
                wx = R.width(x)
                ctx.set(d.sel, i + 1)
                for fv in range(1 << wx):
                    run.n("evaluations", 2)
                    run.n("sim_field_writes", 2)
                    want = R.assign(t, bgv, key, fv)
                    ctx.set(d.val, fv)
                    g = ctx.get(wdst_v)
                    if g != want:
                        run.v("sim.write", f"comb:{key!r}", f"comb view[{key!r}].eq({fv}) over background {bgv} gives {g}, only the field's bits may change: {want}")
                    tv = typed_value(x, fv)
                    if tv is None:
                        continue
                    ctx.set(src_v, bgv)
                    try:
                        ctx.set(d.acc[key], tv)
                        g = ctx.get(src_v)
                    except Exception as e:
                        g = ("exc", type(e).__name__)
                    if g != want:
                        run.v("sim.write", f"set:{key!r}", f"ctx.set(view[{key!r}], {tv!r}) over {bgv} gives {g}, want {want}")
            if d.dyn:
                x = t[1]
                we = R.width(x)
                for i in range(t[2]):
                    ctx.set(d.idx, i)
                    for fv in range(1 << we):
                        run.n("evaluations", 2)
                        run.n("sim_dynamic_writes", 2)
                        want = R.assign(t, bgv, i, fv)
                        ctx.set(d.val, fv)
                        g = ctx.get(d.wdyn.as_value())
                        if g != want:
                            run.v("sim.dyn_write", "comb", f"comb view[idx].eq({fv}) idx={i} over background {bgv} gives {g}, want {want}")
                        tv = typed_value(x, fv)
                        if tv is None:
                            continue
                        ctx.set(src_v, bgv)
                        try:
                            ctx.set(d.rdyn, tv)
                            g = ctx.get(src_v)
                        except Exception as e:
                            g = ("exc", type(e).__name__)
                        if g != want:
                            run.v("sim.dyn_write", "set", f"ctx.set(view[idx], {tv!r}) idx={i} over {bgv} gives {g}, want {want}")
    try:
        run_in_testbench(frag, body)
    except Exception as e:
        run.v("sim.run", type(e).__name__, f"simulation raises {type(e).__name__}: {e}")


# ---------------------------------------------------------------- leg: run-time index (in and out of range) into an
# array field that is followed / preceded by other fields: testbench write == circuit assignment == reference
def oor_specs(quick):
    """(outer term, path to the array field, index width): arrays of 3 (not a power of two) and of 2 / 4 elements with an
    index signal one bit wider than needed, first / middle / last in a struct, inside a union with a wider member, and
    one level deeper (inner struct followed by more fields)"""
    u1, u2, s2 = ("u", 1), ("u", 2), ("s", 2)
    elems = [u1, s2, ("struct", (u1, s2))] + ([] if quick else [("E", "EU"), ("union", (u1, s2)), ("array", u1, 2)])
    out = []
    for e in elems:
        for n, idxw in ((3, 2), (3, 3), (2, 2), (4, 3)):
            arr = ("array", e, n)
            aw = R.width(arr)
            outers = [
                (("struct", (arr, u2, s2)), ("a",)),
                (("struct", (u2, arr, s2)), ("b",)),
                (("struct", (u2, s2, arr)), ("c",)),
                (("union", (arr, ("u", aw + 3))), ("a",)),
                (("struct", (u2, ("struct", (arr, s2)), u2)), ("b", "a")),
                (("struct", (s2, ("struct", (u2, arr)), u2)), ("b", "b")),
                (("struct", (u1, ("union", (arr, ("u", aw + 2))), s2)), ("b", "a")),
            ]
            for outer, path in outers:
                out.append((outer, path, idxw))
    return out


def oor_show(spec):
    outer, path, idxw = spec
    return f"{R.show(outer)}@{'.'.join(map(str, path))}:idxw={idxw}"


def check_oor(spec, out):
    from amaranth.hdl import Module, Signal
    from ..sim.driver import elaborate, run_in_testbench
    outer, path, idxw = spec
    show = oor_show(spec)
    cov = out["cov"]
    seen = set()

    def v(law, detail, what):
        sig = f"sim.oor_write.{law}:{show}:{detail}"
        if sig not in seen:
            seen.add(sig)
            out["violations"].append({"sig": sig, "what": f"{show}: {what}",
                                      "payload": {"kind": "oor", "spec": [outer, list(path), idxw], "sig": sig}})

    def n(key, k=1):
        cov[key] = cov.get(key, 0) + k
    n("oor_designs")
    n("distinct_nontrivial")
    # ---- reference geometry
    t, arr_off = outer, 0
    for key in path:
        for k2, x2, o2 in R.fields(t):
            if k2 == key:
                t, arr_off = x2, arr_off + o2
                break
        else:
            raise KeyError(key)
    arr = t
    assert arr[0] == "array"
    elem, length = arr[1], arr[2]
    we = R.width(elem)
    w = R.width(outer)
    arr_mask = R.mask(R.width(arr)) << arr_off
    # targets: the element itself and (for aggregate elements) each of its fields: (name, sub key or None, term, offset in element)
    targets = [("elem", None, elem, 0)]
    if not R.is_leaf(elem):
        for k2, x2, o2 in R.fields(elem):
            targets.append((f"elem[{k2!r}]", k2, x2, o2))
    S = build(outer)
    src = Signal(S, name="src")
    bg = Signal(w, name="bg")
    idx = Signal(idxw, name="idx")
    val = Signal(max(R.width(x) for _n, _k, x, _o in targets), name="val")

    def locate(view, sub):
        for key in path:
            view = view[key]
        e = view[idx]
        return e if sub is None else e[sub]
    m = Module()
    wds = []
    for name, sub, x, o in targets:
        wd = Signal(S, name="wd")
        m.d.comb += wd.as_value().eq(bg)
        m.d.comb += locate(wd, sub).eq(val[:R.width(x)])
        wds.append(wd.as_value())
    tb_targets = [locate(src, sub) for _n, sub, _x, _o in targets]
    keep = Signal(1)
    m.d.comb += keep.eq(src.as_value().any() ^ idx.any())
    frag = elaborate(m)
    full = R.mask(w)
    cost = (1 << w) * (1 << idxw) * sum(1 << R.width(x) for _n, _k, x, _o in targets)
    if cost <= 16384:
        bgs = list(range(1 << w))
    else:
        bgs = sorted({0, full, 0x5555 & full, 0xAAAA & full})
        n("oor_designs_with_corner_backgrounds")

    def body(ctx):
        src_v = src.as_value()
        for bgv in bgs:
            ctx.set(bg, bgv)
            for i in range(1 << idxw):
                ctx.set(idx, i)
                for (name, sub, x, o), wd_v, tgt in zip(targets, wds, tb_targets):
                    wx = R.width(x)
                    for fv in range(1 << wx):
                        tv = typed_value(x, fv)
                        if tv is None:
                            continue
                        ctx.set(val, fv)
                        circuit = ctx.get(wd_v)
                        ctx.set(src_v, bgv)
                        try:
                            ctx.set(tgt, tv)
                            tb = ctx.get(src_v)
                        except Exception as e:
                            tb = ("exc", type(e).__name__)
                        n("evaluations", 3)
                        n("oor_writes")
                        where = f"{name}:idx={i}"
                        if tb != circuit:
                            v("differential", where, f"ctx.set(view.{'.'.join(map(str, path))}[idx]{'' if sub is None else '[%r]' % sub}, {tv!r}) with idx={i} over "
                              f"{bgv:#x} leaves {tb if not isinstance(tb, int) else hex(tb)}, the same assignment as a comb statement gives {circuit:#x}")
                        if i < length:
                            n("oor_in_range_writes")
                            mk = R.mask(wx) << (arr_off + i * we + o)
                            want = (bgv & ~mk) | ((fv << (arr_off + i * we + o)) & mk)
                            if circuit != want:
                                v("reference", where + ":comb", f"comb assignment of {fv} with idx={i} over {bgv:#x} gives {circuit:#x}, only the element's bits may change: {want:#x}")
                            if isinstance(tb, int) and tb != want:
                                v("reference", where + ":set", f"ctx.set of {tv!r} with idx={i} over {bgv:#x} gives {tb:#x}, only the element's bits may change: {want:#x}")
                        else:
                            n("oor_out_of_range_writes")
                            if (circuit ^ bgv) & ~arr_mask:
                                v("outside", where + ":comb", f"comb assignment with out-of-range idx={i} (length {length}) over {bgv:#x} gives {circuit:#x}: bits outside the array field changed")
                            if isinstance(tb, int) and (tb ^ bgv) & ~arr_mask:
                                v("outside", where + ":set", f"ctx.set(..., {tv!r}) with out-of-range idx={i} (length {length}) over {bgv:#x} gives {tb:#x}: bits outside the array field changed")
    try:
        run_in_testbench(frag, body)
    except Exception as e:
        v("run", type(e).__name__, f"simulation raises {type(e).__name__}: {e}")


def w_oor(task):
    out = {"cov": {"evaluations": 0, "distinct_nontrivial": 0}, "samples": [], "violations": []}
    warnings.simplefilter("ignore")
    for spec in task:
        check_oor(spec, out)
    return out


def check_term(t, out, quick):
    from amaranth.lib import data
    run = Run(out, t)
    run.n("layouts")
    if len(R.fields(t)) >= 2 and R.width(t) >= 2:
        run.n("distinct_nontrivial")
    if R.depth(t) >= 2:
        run.n("layouts_depth2")
    try:
        S = build(t)
        L = data.Layout.cast(S)
    except Exception as e:
        run.v("build", type(e).__name__, f"constructing the layout raises {type(e).__name__}: {e}")
        return
    leg_placement(run, t, S, L)
    leg_const(run, t, S, L)
    leg_view(run, t, S, L)
    leg_sim(run, t, S, L, 2048 if quick else 8192)


def w_layouts(task):
    terms, quick = task
    out = {"cov": {"evaluations": 0, "distinct_nontrivial": 0}, "samples": [], "violations": []}
    warnings.simplefilter("ignore")
    for t in terms:
        check_term(t, out, quick)
    return out


# ---------------------------------------------------------------- shaped enumerations
def enum_specs(quick):
    """(base, width, signed, member values, boundary)"""
    out = []
    shapes = [(1, False), (2, False), (3, False), (1, True), (2, True), (3, True)]
    if not quick:
        shapes.append((4, False))
    for w, s in shapes:
        dom = list(range(-(1 << (w - 1)), 1 << (w - 1))) if s else list(range(1 << w))
        maxn = 3 if (quick or w >= 4) else 4
        for n in range(1, maxn + 1):
            for vals in itertools.combinations(dom, n):
                for base in ("Enum", "IntEnum"):
                    out.append((base, w, s, vals, None))
    return out


def flag_specs(quick):
    out = []
    for w in ((1, 2, 3) if quick else (1, 2, 3, 4)):
        singles = [1 << i for i in range(w)]
        for n in range(1, w + 1):
            for bits in itertools.combinations(singles, n):
                allbits = sum(bits)
                extras = [()]
                if n >= 2:
                    extras.append((allbits,))             # an alias for all flags
                    extras.append((bits[0] | bits[-1], 0)) if n >= 3 else extras.append((0,))
                free = [b for b in singles if b not in bits]
                if free:
                    extras.append((bits[0] | free[0],))   # a multi-bit member one of whose bits has no name of its own
                for ex in extras:
                    for bnd in (None, "STRICT", "CONFORM", "EJECT", "KEEP"):
                        out.append(("Flag", w, False, tuple(bits) + tuple(ex), bnd))
                    out.append(("IntFlag", w, False, tuple(bits) + tuple(ex), None))
    return out


def make_enum_pair(spec):
    """the amaranth class under test and (for flags) an independent pure-Python twin"""
    from amaranth.hdl import Shape
    from amaranth.lib import enum as am_enum
    base, w, s, vals, bnd = spec
    members = [(f"M{i}", v) for i, v in enumerate(vals)]
    kw = {"shape": Shape(w, s)}
    pkw = {}
    if bnd is not None:
        kw["boundary"] = getattr(py_enum, bnd)
        pkw["boundary"] = getattr(py_enum, bnd)
    cls = _new_enum("T", getattr(am_enum, base), members, **kw)
    twin = _new_enum("T", getattr(py_enum, base), members, **pkw)
    return cls, twin


def spec_show(spec):
    base, w, s, vals, bnd = spec
    fb = ""
    if base in ("Flag", "IntFlag"):
        allbits = 0
        for x in vals:
            allbits |= x
        fb = f",flagbits={allbits.bit_length()}"      # the shape may be wider than the defined flags
    return f"{base}({'s' if s else 'u'}{w}{fb};{','.join(map(str, vals))}{';' + bnd if bnd else ''})"


def _raw(x, w):
    """value of a Python flag-operator result as a w-bit pattern"""
    v = x.value if isinstance(x, py_enum.Enum) else int(x)
    return v & R.mask(w)


def check_enum(spec, out):
    from amaranth.hdl import Const as HC, Shape, Signal, Value, Module
    from amaranth.lib import enum as am_enum
    from ..sim.driver import elaborate, run_in_testbench
    base, w, s, vals, bnd = spec
    show = spec_show(spec)
    cov = out["cov"]
    seen = set()

    def v(law, detail, what):
        sig = f"enum.{law}:{show}" + (f":{detail}" if detail != "" else "")
        if sig not in seen:
            seen.add(sig)
            out["violations"].append({"sig": sig, "what": f"{show}: {what}", "payload": {"kind": "enum", "spec": list(spec), "sig": sig}})

    def n(key, k=1):
        cov[key] = cov.get(key, 0) + k
    n("enum_classes")
    if len(vals) >= 2:
        n("distinct_nontrivial")
    try:
        with warnings.catch_warnings():
            warnings.simplefilter("ignore")
            cls, twin = make_enum_pair(spec)
    except Exception as e:
        v("build", type(e).__name__, f"class creation raises {type(e).__name__}: {e}")
        return
    shape = Shape(w, s)
    is_flag = base in ("Flag", "IntFlag")
    has_view = base in ("Enum", "Flag")
    if Shape.cast(cls) != shape:
        v("shape", "", f"Shape.cast = {Shape.cast(cls)!r}, declared {shape!r}")
    # ---- round trips for every member
    for m in cls:
        n("evaluations", 5)
        n("enum_member_roundtrips")
        for init in (m, m.value):
            try:
                k = cls.const(init)
                hc = HC.cast(k)
                got = (hc.value, hc.shape())
            except Exception as e:
                k = None
                got = ("exc", type(e).__name__)
            if got != (m.value, shape):
                v("const", m.name, f"Const.cast(const({init!r})) = {got}, want value {m.value} shape {shape!r}")
            elif has_view and not (type(k) is (am_enum.FlagView if is_flag else am_enum.EnumView) and k.shape() is cls):
                v("const.wrapper", m.name, f"const({init!r}) is {k!r}")
        try:
            fb = cls.from_bits(m.value)
        except Exception as e:
            fb = ("exc", type(e).__name__)
        if fb is not m:
            v("from_bits", m.name, f"from_bits({m.value}) = {fb!r}, want {m!r}")
        try:
            g = HC.cast(cls.const(cls.from_bits(m.value))).value
        except Exception as e:
            g = ("exc", type(e).__name__)
        if g != m.value:
            v("law.from_bits", m.name, f"Const.cast(const(from_bits({m.value}))).value = {g}")
        try:
            g = Signal(cls, init=m).as_value().init if has_view else Signal(cls, init=m).init
        except Exception as e:
            g = ("exc", type(e).__name__)
        if g != m.value:
            v("signal_init", m.name, f"Signal(cls, init={m!r}) init = {g}")
    if 0 in vals or is_flag:
        n("evaluations")
        try:
            g = HC.cast(cls.const(None)).value
        except Exception as e:
            g = ("exc", type(e).__name__)
        if g != 0:
            v("const", "None", f"const(None) = {g}, want the zero member")
    # ---- valid raw patterns
    allbits = 0
    for x in vals:
        allbits |= x
    if is_flag:
        valid = [r for r in range(1 << w) if r & ~allbits == 0 or (bnd == "KEEP" or (base == "IntFlag"))]
    else:
        valid = sorted(vals)
    first = list(cls)[0]       # an enumeration without a zero member has no default initial value
    sig = Signal(cls, init=first)
    a_v = Value.cast(sig)
    b = Signal(cls, init=first)
    b_v = Value.cast(b)
    m_ = Module()
    outs = {}
    if base == "Flag":
        exprs = {"~": lambda: ~sig, "&": lambda: sig & b, "|": lambda: sig | b, "^": lambda: sig ^ b}
        built = {}
        for op, f in exprs.items():
            try:
                e = f()
            except Exception as ex:
                v("flag.build", op, f"view {op} raises {type(ex).__name__}: {ex}")
                continue
            if not (type(e) is am_enum.FlagView and e.shape() is cls):
                v("flag.wrapper", op, f"result of {op} is {e!r}")
                continue
            built[op] = e
            o = Signal(w, name="o" + str(len(outs)))
            outs[op] = o
            m_.d.comb += o.eq(e)
    else:
        built = {}
    dummy = Signal(1)
    m_.d.comb += dummy.eq(a_v.any() if w else 0)
    frag = elaborate(m_)
    ops = {"&": lambda p, q: p & q, "|": lambda p, q: p | q, "^": lambda p, q: p ^ q}

    def body(ctx):
        for r in valid:
            rs = R.to_signed(r & R.mask(w), w) if s else r
            n("evaluations", 2)
            n("enum_raw_roundtrips")
            ctx.set(a_v, rs)
            try:
                want = twin(rs)
            except Exception:
                continue          # not a valid pattern for Python either
            try:
                got = ctx.get(sig) if (has_view) else cls.from_bits(ctx.get(sig))
            except Exception as e:
                got = ("exc", type(e).__name__)
            gv = got.value if isinstance(got, py_enum.Enum) else got
            wv = want.value if isinstance(want, py_enum.Enum) else want
            if gv != wv or (isinstance(want, py_enum.Enum) and not isinstance(got, cls)):
                v("sim.get", str(r), f"ctx.get(signal holding {rs}) = {got!r}, Python gives {want!r}")
            if isinstance(got, cls):
                try:
                    g = HC.cast(cls.const(got)).value
                except Exception as e:
                    g = ("exc", type(e).__name__)
                if g != wv:
                    v("law.from_bits", f"raw{r}", f"Const.cast(const(from_bits({rs}))).value = {g}, want {wv}")
        if base != "Flag":
            return
        mem = list(cls)
        for ra in valid:
            ctx.set(a_v, ra)
            try:
                pa = twin(ra)
            except Exception:
                continue
            if "~" in built:
                n("evaluations", 2)
                n("flag_op_evaluations", 2)
                try:
                    want = _raw(~pa, w)
                except Exception:
                    want = None            # Python itself has no result for this operand
                    n("python_flag_op_undefined")
                g1, g2 = ctx.get(Value.cast(built["~"])), ctx.get(outs["~"])
                if want is None:
                    g1 = g2 = None
                if g1 != want or g2 != want:
                    v("flag.op", f"~:{ra}", f"~view({ra}) = {g1} (ctx.get) / {g2} (comb), Python ~{pa!r} = {~pa!r} i.e. {want}")
            for rb in valid:
                try:
                    pb = twin(rb)
                except Exception:
                    continue
                ctx.set(b_v, rb)
                for op, f in ops.items():
                    if op not in built:
                        continue
                    n("evaluations", 2)
                    n("flag_op_evaluations", 2)
                    try:
                        py = f(pa, pb)
                    except Exception:
                        n("python_flag_op_undefined")
                        continue
                    want = _raw(py, w)
                    g1, g2 = ctx.get(Value.cast(built[op])), ctx.get(outs[op])
                    if g1 != want or g2 != want:
                        v("flag.op", f"{op}:{ra},{rb}", f"view({ra}) {op} view({rb}) = {g1} (ctx.get) / {g2} (comb), Python {py!r} i.e. {want}")
                    # the typed result the simulator hands back
                    try:
                        typed = ctx.get(built[op])
                        tvv = typed.value if isinstance(typed, py_enum.Enum) else typed
                    except Exception as e:
                        tvv = ("exc", type(e).__name__)
                    if tvv != (py.value if isinstance(py, py_enum.Enum) else py):
                        v("flag.typed", f"{op}:{ra},{rb}", f"ctx.get(view({ra}) {op} view({rb})) = {tvv!r}, Python {py!r}")
            # view op member / member op view
            for mb in mem:
                pm = twin[mb.name]
                for op, f in ops.items():
                    n("evaluations", 2)
                    n("flag_op_evaluations", 2)
                    try:
                        want = _raw(f(pa, pm), w)
                    except Exception:
                        n("python_flag_op_undefined")
                        continue
                    try:
                        g1 = ctx.get(Value.cast(f(sig, mb)))
                        g2 = ctx.get(Value.cast(f(mb, sig)))
                    except Exception as e:
                        g1 = g2 = ("exc", type(e).__name__)
                    if g1 != want or g2 != want:
                        v("flag.op", f"{op}member:{ra},{mb.name}", f"view({ra}) {op} {mb!r} = {g1}, reversed {g2}, Python {want}")
    try:
        run_in_testbench(frag, body)
    except Exception as e:
        v("sim.run", type(e).__name__, f"simulation raises {type(e).__name__}: {e}")


def w_enums(task):
    specs = task
    out = {"cov": {"evaluations": 0, "distinct_nontrivial": 0}, "samples": [], "violations": []}
    warnings.simplefilter("ignore")
    for spec in specs:
        check_enum(spec, out)
    return out


def _dispatch(task):
    kind, arg = task
    return kind, (w_layouts(arg) if kind == "layouts" else w_oor(arg) if kind == "oor" else w_enums(arg))


# ---------------------------------------------------------------- driver
def run(rep):
    terms = G.terms(rep.quick)
    # balance: big layouts first inside every chunk is pointless; sort by cost and deal round-robin into chunks
    terms_sorted = sorted(terms, key=lambda t: -R.width(t))
    nchunks = max(1, min(len(terms_sorted), rep.procs * 8))
    lchunks = [terms_sorted[i::nchunks] for i in range(nchunks)]
    tasks = [("layouts", (ch, rep.quick)) for ch in lchunks]
    especs = enum_specs(rep.quick)
    fspecs = flag_specs(rep.quick)
    for ch in chunks(especs, 60):
        tasks.append(("enums", ch))
    for ch in chunks(fspecs, 12):
        tasks.append(("enums", ch))
    ospecs = oor_specs(rep.quick)
    for ch in chunks(ospecs, 3):
        tasks.append(("oor", ch))
    tasks = rotate(tasks, rep.seed)
    by = {}
    for kind, part in pmap(_dispatch, tasks, rep.procs):
        by[kind] = by.get(kind, 0) + part["cov"]["evaluations"]
        rep.merge(part)
    rep.setcov("by_family", by)
    rep.setcov("layout_terms", len(terms))
    rep.setcov("enum_specs", len(especs))
    rep.setcov("flag_specs", len(fspecs))
    rep.setcov("oor_specs", len(ospecs))
    rep.setcov("max_layout_bits", G.MAXSIZE)
    rep.setcov("exhaustive", True)
    rep.setcov("rule", "every layout term of vf/gen/c15_terms.py (struct/union <= %s leaf fields, arrays, flexible layouts with "
               "every offset pair, annotated Struct/Union classes with a default, nested to depth 2, size <= %d bits) x every "
               "bit pattern of the underlying value x {placement, from_bits/as_bits, const(field-wise init in 2-3 forms) + every plain "
               "field initialised with every hdl.Const of every shape of width <= field width + 1 (other fields untouched / all ones "
               "before / all ones after; const() and Signal(init=)) + "
               "read-back + Signal init, View field shape/wrapper/constant folding, simulator ctx.get/ctx.set per field, comb "
               "copy through fields, comb assignment through each field (static and dynamic array index) for every field value}; "
               "run-time index leg: arrays of 3 / 2 / 4 elements (index signal exact or one bit too wide) placed first / middle / last in a "
               "struct, in a union with a wider member and one level deeper x EVERY index value (in and out of range) x backgrounds x "
               "every element / element-field value: ctx.set == the same comb assignment; in range == reference; out of range: no bit "
               "outside the array field changes; "
               "write backgrounds are all patterns when patterns x field values <= budget, else {0, ones, 0x55, 0xAA} (counted in "
               "layouts_with_corner_backgrounds). Enumerations: every member subset (size <= 3/4) of every shape u1..u3(4), s1..s3 for "
               "Enum/IntEnum; Flag/IntFlag over every subset of single-bit flags (+alias, +zero member) x 5 boundary modes: all "
               "pairs of valid patterns x {~, &, |, ^} against a pure-Python enum.Flag twin. non-trivial: layouts with >= 2 fields "
               "and >= 2 bits, enumerations with >= 2 members" % ("3 (5 leaf kinds) / 2 (13 leaf kinds)" if rep.quick else "4 / 3", G.MAXSIZE))
    for t in (terms[len(terms) // 3], terms[len(terms) // 2], terms[-1]):
        w = R.width(t)
        raw = 0xA5 & R.mask(w)
        rep.sample({"layout": R.show(t), "bits": w, "fields": [[k, R.show(x), off] for k, x, off in R.fields(t)],
                    "raw": raw, "decoded": repr(R.decode(t, raw))})
    rep.sample({"flag_spec": spec_show(fspecs[len(fspecs) // 2])})
    rep.sample({"enum_spec": spec_show(especs[len(especs) // 2])})
    rep.assume("Python's enum.Flag semantics are those of the running interpreter (3.12)")
    rep.assume("synthesis leg (RTLIL interpreter) not available yet: rtlil_leg() is a skipped TODO hook")
    c = rep.cov
    for key in ("patterns", "const_inits", "constfold", "sim_field_reads", "sim_negative_reads", "sim_enum_reads", "sim_nested_reads",
                "sim_dynamic_reads", "sim_field_writes", "sim_dynamic_writes", "layouts_with_overlap", "layouts_with_gap",
                "layouts_with_zero_width_field", "layouts_depth2", "enum_member_roundtrips", "flag_op_evaluations",
                "negative_index_checks", "enum_raw_roundtrips", "placement_fields", "field_reads", "hdlconst_inits",
                "hdlconst_width_mismatch_inits", "oor_in_range_writes", "oor_out_of_range_writes"):
        rep.require(c.get(key, 0) > 0, f"antecedent never exercised: {key}")


def replay(payload):
    out = {"cov": {"evaluations": 0, "distinct_nontrivial": 0}, "samples": [], "violations": []}
    warnings.simplefilter("ignore")
    if payload["kind"] == "layout":
        check_term(R.tup(payload["term"]), out, True)
    elif payload["kind"] == "oor":
        spec = payload["spec"]
        check_oor((R.tup(spec[0]), tuple(spec[1]), spec[2]), out)
    else:
        spec = payload["spec"]
        check_enum((spec[0], spec[1], spec[2], tuple(spec[3]), spec[4]), out)
    return [v["what"] for v in out["violations"] if v["sig"] == payload["sig"]]
