"""C04 Emitted RTLIL is behaviourally equivalent to the simulated design -- translation validation by co-execution.

Every program is converted with back.rtlil.convert, the text is parsed and interpreted by vf.rtlil (written from the
published cell semantics) and driven with the same stimuli as the real Python simulator:
  A. expression programs (the C01 term space): all leaf valuations;
  B. statement programs (the C02 module-term space), comb and sync, flat and split over submodules: all input
     valuations (x register states, loaded into both executions);
  C. sequential designs (counters in pos/neg/async-reset domains, memories, FIFOs, CDC cells, hierarchies): breadth-first
     exploration of the JOINT state graph from reset under all input valuations and clock/reset toggles.
"""
import itertools
import warnings

from ..core.pool import pmap, rotate, chunks
from ..gen import terms as G
from ..ref import expr as R
from ..ref import stmt as S
from ..rtlil.parse import parse, ParseError
from ..rtlil.interp import Interp, InterpError
from ..sim.driver import run_in_testbench, elaborate, System
from . import c01, c02

ID = "C04"
LEVEL = "translation_validation"

SHIFT_SIG = "rtlil:part-select-on-signed-value->$shift(A_SIGNED) zero-fills above the MSB (back/rtlil.py emit_part)"


def convert(frag_or_design, ports):
    from amaranth.back import rtlil
    with warnings.catch_warnings():
        warnings.simplefilter("ignore")
        return rtlil.convert(frag_or_design, ports=ports, emit_src=False)


# ------------------------------------------------------------------ A. expressions
def expr_batch(terms):
    from amaranth.hdl import Module, Signal, Shape, Cat
    out = {"cov": {"programs": 0, "evaluations": 0, "disagreements_checked": 0, "exprs": 0}, "samples": [], "violations": []}
    lv = {}
    for t in terms:
        for i, sh in R.leaves(t).items():
            lv.setdefault(i, sh)
    idx = sorted(lv)
    sigs = {i: Signal(Shape(*lv[i]), name=f"l{i}") for i in idx}
    m = Module()
    built = []
    with warnings.catch_warnings():
        warnings.simplefilter("ignore")
        for t in terms:
            try:
                e = G.build(t, sigs)
                o = Signal(e.shape(), name=f"o{len(built)}")
                m.d.comb += o.eq(e)
            except Exception:
                continue          # C01 reports construction problems
            built.append((t, o))
    if not built:
        return out
    frag = elaborate(m)
    ports = [sigs[i] for i in idx] + [o for _t, o in built]
    try:
        text = convert(frag, ports)
        mods, probs = parse(text)
        it = Interp(mods)
        it2 = None
    except Exception as ex:
        if len(terms) == 1:
            out["violations"].append({"sig": f"convert:{R.show(terms[0])}", "what": f"RTLIL conversion/interpretation of o.eq({R.show(terms[0])}) fails: "
                                      f"{type(ex).__name__}: {ex}", "payload": {"kind": "expr", "term": terms[0]}})
            return out
        half = len(terms) // 2
        a, b = expr_batch(terms[:half]), expr_batch(terms[half:])
        for k, v in b["cov"].items():
            a["cov"][k] += v
        a["violations"] += b["violations"]
        return a
    out["cov"]["programs"] = 1
    out["cov"]["exprs"] = len(built)
    out_cat = Cat(*[o for _t, o in built])
    leaf_cat = Cat(*[sigs[i] for i in idx])
    ranges = [R.values_of(*lv[i]) if lv[i][0] else [0] for i in idx]
    widths = [lv[i][0] for i in idx]

    def body(ctx):
        nonlocal it2
        for vals in itertools.product(*ranges):
            packed, off = 0, 0
            for v, w in zip(vals, widths):
                packed |= R.bits_of(v, w) << off
                off += w
            ctx.set(leaf_cat, packed)
            big = ctx.get(out_cat)
            it.set({f"l{i}": R.bits_of(v, lv[i][0]) for i, v in zip(idx, vals)})
            off = 0
            for n, (t, o) in enumerate(built):
                w = len(o)
                sim_v = (big >> off) & R.mask(w)
                off += w
                rt_v = it.get(f"o{n}")
                out["cov"]["evaluations"] += 1
                if sim_v != rt_v:
                    out["cov"]["disagreements_checked"] += 1
                    if len(out["violations"]) >= 60:
                        continue          # plenty of triaged counterexamples from this program already
                    env = dict(zip(idx, vals))
                    ref_v = R.bits_of(R.ev(t, env)[0], w)
                    # triage: is this the recorded signed-$shift finding? re-interpret with arithmetic fill
                    if it2 is None:
                        it2 = Interp(mods, signed_shift_fill=True)
                    it2.set({f"l{i}": R.bits_of(v, lv[i][0]) for i, v in zip(idx, vals)})
                    if it2.get(f"o{n}") == sim_v and sim_v == ref_v:
                        sig = SHIFT_SIG
                    elif sim_v != ref_v:
                        sig = f"sim-vs-ref:{R.show(t)}"       # belongs to C01; still a C04 disagreement with the simulator
                    else:
                        sig = f"rtlil:{R.show(t)}"
                    if len(out["violations"]) < 60:
                        out["violations"].append({"sig": sig, "what": f"o.eq({R.show(t)}) leaves {env}: simulator {sim_v}, RTLIL {rt_v}, reference {ref_v}",
                                                  "payload": {"kind": "expr", "term": t}})
    run_in_testbench(frag, body)
    out["samples"].append({"expr_program": f"{len(built)} outputs, e.g. o.eq({R.show(built[len(built) // 2][0])})"})
    return out


def expr_gen(task):
    """worker: enumerate the terms of one shape triple, keyed by leaf signature"""
    groups = {}
    for t in c01.gen_terms(task):
        groups.setdefault(tuple(sorted(R.leaves(t).items())), []).append(t)
    return groups


def expr_task(terms):
    return expr_batch(terms)


# ------------------------------------------------------------------ B. statements (flat / split over submodules)
def stmt_batch(task):
    mods_, domain, layout = task
    from amaranth.hdl import Module, Signal, Shape, ClockDomain, Cat
    out = {"cov": {"programs": 0, "evaluations": 0, "disagreements_checked": 0, "stmt_modules": 0}, "samples": [], "violations": []}
    warnings.simplefilter("ignore")
    top = Module()
    cd = ClockDomain("sync")
    top.domains.sync = cd
    ins = {i: Signal(Shape(*sh), name=f"in{i}") for i, sh in c02.INPUTS.items()}
    # layout: "flat" | "child" (every second module term lives in a submodule) | "deep" (grandchild + sibling)
    #         | "shell" (all logic in a module nested inside purely structural modules: one without any statement, one with wiring only)
    child, grand, sib = Module(), Module(), Module()
    shell, wiring, inner = Module(), Module(), Module()
    copies = []
    for n, stmts in enumerate(mods_):
        sigs = dict(ins)
        for i, (w, sg, init) in c02.DRIVEN.items():
            sigs[i] = Signal(Shape(w, sg), init=init, name=f"m{n}_{i}")
        where = top
        if layout == "child" and n % 2:
            where = child
        elif layout == "deep":
            where = (top, child, grand, sib)[n % 4]
        elif layout == "shell":
            where = inner
        try:
            c02.emit(where, "mixed" if domain == "mixed" else where.d[domain], stmts, sigs)
        except Exception:
            continue
        copies.append((stmts, sigs))
    if layout == "shell":
        wiring.submodules.inner = inner
        shell.submodules.wiring = wiring
        top.submodules.shell = shell
    elif layout != "flat":
        child.submodules.grand = grand
        top.submodules.child = child
        top.submodules.sib = sib
    keep = Signal(10, name="keep")
    top.d.comb += keep.eq(Cat(*ins.values()))
    if layout == "shell":
        # plain full-signal assignment: wiring, no cell
        passthru = Signal(10, name="passthru")
        wiring.d.comb += passthru.eq(keep)
        extra_ports = [passthru]
    else:
        extra_ports = []
    frag = elaborate(top)
    drv_idx = sorted(c02.DRIVEN)
    outs = [sigs[i] for _s, sigs in copies for i in drv_idx]
    try:
        text = convert(frag, list(ins.values()) + [cd.clk, cd.rst] + outs + extra_ports)
        mods, probs = parse(text)
        it = Interp(mods)
    except Exception as ex:
        if len(mods_) == 1:
            out["violations"].append({"sig": f"convert:{domain}:{layout}:{c02.show_stmts(mods_[0])}",
                                      "what": f"RTLIL conversion/interpretation fails for [{c02.show_stmts(mods_[0])}]: {type(ex).__name__}: {ex}",
                                      "payload": {"kind": "stmt", "stmts": mods_[0], "domain": domain, "layout": layout}})
            return out
        half = len(mods_) // 2
        a, b = stmt_batch((mods_[:half], domain, layout)), stmt_batch((mods_[half:], domain, layout))
        for k, v in b["cov"].items():
            a["cov"][k] += v
        a["violations"] += b["violations"]
        return a
    out["cov"]["programs"] = 1
    out["cov"]["stmt_modules"] = len(copies)
    # a requested port that nothing drives is an *input* of the RTLIL module: the environment must hold it at the value the
    # simulator holds (the signal's initial value)
    undriven = {}
    for o in outs:
        w = it.top.mod.wires.get("\\" + o.name)
        if w is not None and w.direction == "input":
            undriven[o.name] = R.bits_of(o.init, len(o))
    if undriven:
        it.set(undriven)
    used = set()
    for stmts in mods_:
        used |= c02.inputs_of(stmts)
    in_idx = sorted(c02.INPUTS)
    in_cat = Cat(*[ins[i] for i in in_idx])
    out_cat = Cat(*outs)
    u_cat = Cat(*[sigs[c02.U] for _s, sigs in copies])
    tot_w = sum(c02.DRIVEN[i][0] for i in drv_idx)
    states = [None] if domain == "comb" else [tuple(c02.DRIVEN[i][2] for i in drv_idx), (0, 0), (15, -1), (0b1010, 2)]

    def body(ctx):
        for st in states:
            if st is not None:
                one, off = 0, 0
                for i, v in zip(drv_idx, st):
                    one |= R.bits_of(v, c02.DRIVEN[i][0]) << off
                    off += c02.DRIVEN[i][0]
                allst = 0
                for n in range(len(copies)):
                    allst |= one << (n * tot_w)
                poke = {}
                u_all = 0
                for n in range(len(copies)):
                    for i, v in zip(drv_idx, st):
                        if domain != "mixed" or i == c02.U:
                            poke[f"m{n}_{i}"] = R.bits_of(v, c02.DRIVEN[i][0])
                    u_all |= R.bits_of(st[drv_idx.index(c02.U)], c02.DRIVEN[c02.U][0]) << (n * c02.DRIVEN[c02.U][0])
            for vals in itertools.product(*[R.values_of(*c02.INPUTS[i]) if i in used else [0] for i in in_idx]):
                packed, off = 0, 0
                for i, v in zip(in_idx, vals):
                    packed |= R.bits_of(v, c02.INPUTS[i][0]) << off
                    off += c02.INPUTS[i][0]
                ctx.set(in_cat, packed)
                inputs = {f"in{i}": R.bits_of(v, c02.INPUTS[i][0]) for i, v in zip(in_idx, vals)}
                if st is not None:
                    if domain == "mixed":
                        ctx.set(u_cat, u_all)          # only u is a register in a mixed module; t is combinational
                    else:
                        ctx.set(out_cat, allst)
                    it.poke_all(poke)
                    it.set(inputs)
                    ctx.set(cd.clk, 1)
                    it.set({"clk": 1})
                    ctx.set(cd.clk, 0)
                    it.set({"clk": 0})
                else:
                    it.set(inputs)
                big = ctx.get(out_cat)
                off = 0
                for n, (stmts, sigs) in enumerate(copies):
                    for i in drv_idx:
                        w = c02.DRIVEN[i][0]
                        sim_v = (big >> off) & R.mask(w)
                        off += w
                        rt_v = it.get(f"m{n}_{i}")
                        out["cov"]["evaluations"] += 1
                        if sim_v != rt_v:
                            out["cov"]["disagreements_checked"] += 1
                            if len(out["violations"]) < 40:
                                out["violations"].append({
                                    "sig": f"rtlil-stmt:{domain}:{layout}:{c02.show_stmts(stmts)}",
                                    "what": f"{domain}/{layout} [{c02.show_stmts(stmts)}] inputs {inputs} state {st}: signal {i} simulator {sim_v}, RTLIL {rt_v}",
                                    "payload": {"kind": "stmt", "stmts": stmts, "domain": domain, "layout": layout}})
    run_in_testbench(frag, body)
    out["samples"].append({"stmt_program": f"{domain}/{layout}: {len(copies)} module terms, e.g. {c02.show_stmts(mods_[len(mods_) // 2])}"})
    return out


# ------------------------------------------------------------------ C. sequential designs: joint BFS
class SeqDesign:
    """name, build() -> (module, inputs [Signal], clocks [Signal], outputs [Signal]); input alphabets are all values"""
    def __init__(self, name, builder, max_depth=None, cap=20000):
        self.name, self.builder, self.max_depth, self.cap = name, builder, max_depth, cap


def joint_bfs(task):
    name, depth_cap, state_cap = task
    design = SEQ_DESIGNS[name]
    out = {"cov": {"programs": 0, "evaluations": 0, "disagreements_checked": 0, "states": 0, "transitions": 0}, "samples": [], "violations": []}
    warnings.simplefilter("ignore")
    m, inputs, clocks, outputs, *rest = design()
    alphabet = rest[0] if rest else {}
    frag = elaborate(m)
    try:
        text = convert(frag, inputs + clocks + outputs)
        mods, probs = parse(text)
        it = Interp(mods)
    except Exception as ex:
        out["violations"].append({"sig": f"convert:seq:{name}", "what": f"{name}: RTLIL conversion/interpretation fails: {type(ex).__name__}: {ex}",
                                  "payload": {"kind": "seq", "name": name}})
        return out
    out["cov"]["programs"] = 1
    sysm = System(frag, clocks=clocks, inputs=inputs, levels=True)
    in_ranges = [alphabet.get(s.name, range(1 << len(s))) for s in inputs]
    nclk = len(clocks)
    actions = [("in", vals) for vals in itertools.product(*in_ranges)] + [("clk", mask) for mask in range(1, 1 << nclk)]

    def names(sigs):
        return [s.name for s in sigs]

    def body(ctx):
        sysm.ctx = ctx
        from amaranth.hdl import Cat
        out_cat = Cat(*outputs)
        in_cat = Cat(*inputs)

        def observe(path):
            big = ctx.get(out_cat)
            off = 0
            for s in outputs:
                w = len(s)
                sim_v = (big >> off) & R.mask(w)
                off += w
                rt_v = it.get(s.name)
                out["cov"]["evaluations"] += 1
                if sim_v != rt_v:
                    out["cov"]["disagreements_checked"] += 1
                    if len(out["violations"]) < 10:
                        out["violations"].append({
                            "sig": f"rtlil-seq:{name}:{s.name}",
                            "what": f"{name}: after actions {path}: output {s.name} simulator {sim_v}, RTLIL {rt_v}",
                            "payload": {"kind": "seq", "name": name, "path": path}})
                    return False
            return True
        # joint state = (simulator state incl. inputs and clock levels, interpreter snapshot)
        root_key = (sysm.read(), ctx.get(in_cat), None)
        seen = {root_key: None}
        frontier = [(root_key, it.snapshot(), [])]
        observe([])
        depth = 0
        while frontier and (depth_cap is None or depth < depth_cap) and len(seen) < state_cap:
            nxt = []
            for key, snap, path in frontier:
                for a in actions:
                    sysm.load(key[0])
                    ctx.set(in_cat, key[1])
                    it.restore(snap)
                    if a[0] == "in":
                        packed, off = 0, 0
                        for v, s in zip(a[1], inputs):
                            packed |= v << off
                            off += len(s)
                        if packed == key[1]:
                            continue
                        ctx.set(in_cat, packed)
                        it.set({s.name: v for s, v in zip(inputs, a[1])})
                    else:
                        lv = key[0][2] ^ a[1]
                        sysm.set_clocks(lv)
                        it.set({s.name: (lv >> k) & 1 for k, s in enumerate(clocks)})
                    out["cov"]["transitions"] += 1
                    p2 = path + [list(a)]
                    ok = observe(p2)
                    snap2 = it.snapshot()
                    # the key contains the interpreter's hidden state too (memory rows, register values): a path on which the RTLIL has silently
                    # diverged from the simulator must not be merged with an earlier path that reached the same simulator state
                    hidden = hash(repr([(sorted(v.items()), sorted((k, tuple(r)) for k, r in m_.items())) for v, m_ in snap2[0]]))
                    k2 = (sysm.read(), ctx.get(in_cat), hidden)
                    if ok and k2 not in seen:
                        seen[k2] = True
                        nxt.append((k2, snap2, p2))
            frontier = nxt
            depth += 1
        out["cov"]["states"] = len(seen)
        out["samples"].append({"seq_design": name, "joint_states": len(seen), "transitions": out["cov"]["transitions"], "bfs_depth": depth,
                               "closed": not frontier})
    run_in_testbench(frag, body)
    return out


def _counter(edge="pos", async_reset=False, reset_less=False, hier=False):
    def build():
        from amaranth.hdl import Module, Signal, ClockDomain, signed
        m = Module()
        cd = ClockDomain("sync", clk_edge=edge, async_reset=async_reset, reset_less=reset_less)
        m.domains.sync = cd
        en = Signal(name="en")
        d = Signal(2, name="d")
        cnt = Signal(2, init=1, name="cnt")
        acc = Signal(signed(3), init=-1, name="acc", reset_less=True)
        y = Signal(3, name="y")
        tgt = m
        if hier == "shell":
            # the logic sits below a module without statements and a module with wiring only
            tgt = Module()
            shell, wiring = Module(), Module()
            y2 = Signal(2, name="y2")
            wiring.d.comb += y2.eq(cnt)
            wiring.submodules.core = tgt
            shell.submodules.wiring = wiring
            m.submodules.shell = shell
            extra = [y2]
        elif hier:
            tgt = Module()
            m.submodules.core = tgt
        with tgt.If(en):
            tgt.d.sync += cnt.eq(cnt + d)
        tgt.d.sync += acc.eq(acc - d.as_signed())
        m.d.comb += y.eq(cnt ^ acc[:2])
        ins = [en, d] + ([] if reset_less else [cd.rst])
        return m, ins, [cd.clk], [cnt, acc, y] + (extra if hier == "shell" else [])
    return build


def _two_domains():
    from amaranth.hdl import Module, Signal, ClockDomain
    m = Module()
    a = ClockDomain("a")
    b = ClockDomain("b", clk_edge="neg")
    m.domains.a = a
    m.domains.b = b
    d = Signal(name="d")
    ra = Signal(2, name="ra")
    rb = Signal(2, name="rb")
    # a register whose bits live in two domains: the netlist has one flip-flop per chunk, each with its own slice of the initial value
    split = Signal(2, name="split", init=0b10)
    m.d.a += [ra.eq(ra + d), split[0].eq(~split[0])]
    m.d.b += [rb.eq(ra), split[1].eq(d)]
    return m, [d, a.rst], [a.clk, b.clk], [ra, rb, split]


def _memory(transparent=True, gran=None, comb_read=False, depth=3, hier=False, with_rst=False, width=2, alphabet=None, edge="pos", two_wp=False):
    def build():
        from amaranth.hdl import Module, Signal, ClockDomain
        from amaranth.lib.memory import Memory
        m = Module()
        cd = ClockDomain("sync", clk_edge=edge)
        m.domains.sync = cd
        mem = Memory(shape=width, depth=depth, init=[1, 2])
        m.submodules.mem = mem
        wp = mem.write_port(granularity=gran)
        extra_ins = []
        if two_wp:
            # a second write port; the read port is transparent for the SECOND one only (the transparency mask is indexed by port id)
            wp2 = mem.write_port()
            w2addr = Signal(len(wp2.addr), name="w2addr")
            w2en = Signal(name="w2en")
            m.d.comb += [wp2.addr.eq(w2addr), wp2.data.eq(3), wp2.en.eq(w2en)]
            extra_ins = [w2addr, w2en]
        if comb_read:
            rp = mem.read_port(domain="comb")
        elif two_wp:
            rp = mem.read_port(transparent_for=[wp2])
        else:
            rp = mem.read_port(transparent_for=[wp] if transparent else [])
        waddr = Signal(len(wp.addr), name="waddr")
        wdata = Signal(width, name="wdata")
        wen = Signal(len(wp.en), name="wen")
        raddr = Signal(len(rp.addr), name="raddr")
        ren = Signal(name="ren")
        rdata = Signal(width, name="rdata")
        m.d.comb += [wp.addr.eq(waddr), wp.data.eq(wdata), wp.en.eq(wen), rp.addr.eq(raddr), rdata.eq(rp.data)]
        if not comb_read:
            m.d.comb += rp.en.eq(ren)
        ins = [waddr, wdata, wen, raddr] + ([] if comb_read else [ren]) + ([cd.rst] if with_rst else []) + extra_ins
        if alphabet:
            return m, ins, [cd.clk], [rdata], alphabet
        return m, ins, [cd.clk], [rdata]
    return build


def _fifo(cls, depth, width=1, **kw):
    def build():
        from amaranth.hdl import Module, Signal, ClockDomain
        from amaranth.lib import fifo as F
        m = Module()
        f = getattr(F, cls)(width=width, depth=depth, **kw)
        m.submodules.fifo = f
        outs = [f.w_rdy, f.r_rdy, f.r_data, f.r_level, f.w_level]
        for s, n in zip([f.w_en, f.w_data, f.r_en] + outs, ["w_en", "w_data", "r_en", "w_rdy", "r_rdy", "r_data", "r_level", "w_level"]):
            s.name = n
        if cls.startswith("Async"):
            r = ClockDomain("read")
            w = ClockDomain("write")
            m.domains.read = r
            m.domains.write = w
            return m, [f.w_en, f.w_data, f.r_en], [w.clk, r.clk], outs
        cd = ClockDomain("sync")
        m.domains.sync = cd
        return m, [f.w_en, f.w_data, f.r_en], [cd.clk], outs
    return build


def _wrapped(kind):
    """control inserters / domain renamer applied to a module with a submodule and a memory: the transformed design must
    lower to RTLIL that behaves like the transformed design in simulation"""
    def build():
        from amaranth.hdl import Module, Signal, ClockDomain, ResetInserter, EnableInserter, DomainRenamer
        from amaranth.lib.memory import Memory
        top = Module()
        cd = ClockDomain("sync")
        top.domains.sync = cd
        other = ClockDomain("other", clk_edge="neg")
        top.domains.other = other
        d = Signal(name="d")
        c = Signal(name="c")
        core = Module()
        leaf = Module()
        cnt = Signal(2, name="cnt", init=1)
        rl = Signal(2, name="rl", reset_less=True)
        q = Signal(2, name="q")
        core.d.sync += cnt.eq(cnt + d)
        core.d.sync += rl.eq(rl ^ cnt)
        leaf.d.other += q.eq(cnt)
        mem = Memory(shape=2, depth=2, init=[2, 1])
        leaf.submodules.mem = mem
        wp = mem.write_port(domain="sync")
        rp = mem.read_port(domain="sync")
        rdata = Signal(2, name="rdata")
        leaf.d.comb += [wp.addr.eq(cnt[0]), wp.data.eq(rl), wp.en.eq(d), rp.addr.eq(cnt[1]), rdata.eq(rp.data)]
        core.submodules.leaf = leaf
        wrapped = {"reset": lambda m: ResetInserter(c)(m), "enable": lambda m: EnableInserter(c)(m),
                   "rename": lambda m: DomainRenamer({"sync": "other"})(m),
                   "enable-reset": lambda m: EnableInserter(c)(ResetInserter(d)(m)),
                   "reset-dict": lambda m: ResetInserter({"sync": c, "other": d})(m)}[kind](core)
        top.submodules.core = wrapped
        return top, [d, c, cd.rst], [cd.clk, other.clk], [cnt, rl, q, rdata]
    return build


def _views():
    """assignments and reads through data-structure views (the synthesis leg of the data-layout laws)"""
    from amaranth.hdl import Module, Signal, signed
    from amaranth.lib import data
    m = Module()
    lay = data.StructLayout({"a": 2, "b": signed(2), "u": data.UnionLayout({"x": 2, "y": signed(1)}), "arr": data.ArrayLayout(2, 2)})
    s = Signal(lay, name="s")
    xa = Signal(2, name="xa")
    xb = Signal(signed(2), name="xb")
    ix = Signal(1, name="ix")
    o1 = Signal(signed(4), name="o1")
    o2 = Signal(2, name="o2")
    o3 = Signal(signed(2), name="o3")
    m.d.comb += [s.a.eq(xa), s.b.eq(xb), s.u.x.eq(xa ^ 1), s.arr[ix].eq(xa), o1.eq(s.b + s.a), o2.eq(s.arr[~ix]), o3.eq(s.u.y)]
    return m, [xa, xb, ix], [], [o1, o2, o3, s.as_value()]


def _cdc(kind):
    def build():
        from amaranth.hdl import Module, Signal, ClockDomain
        from amaranth.lib import cdc
        m = Module()
        cd = ClockDomain("sync")
        m.domains.sync = cd
        i = Signal(name="i")
        o = Signal(name="o")
        if kind == "ff":
            m.submodules.s = cdc.FFSynchronizer(i, o, init=1)
            return m, [i, cd.rst], [cd.clk], [o]
        if kind == "asyncff":
            m.submodules.s = cdc.AsyncFFSynchronizer(i, o)
            return m, [i], [cd.clk], [o]
        if kind == "pulse":
            w = ClockDomain("w")
            m.domains.w = w
            ps = cdc.PulseSynchronizer("sync", "w")
            m.submodules.s = ps
            ps.i.name, ps.o.name = "i", "o"
            return m, [ps.i], [cd.clk, w.clk], [ps.o]
    return build


SEQ_DESIGNS = {
    "counter-pos": _counter(), "counter-neg": _counter(edge="neg"), "counter-arst": _counter(async_reset=True),
    "counter-arst-neg": _counter(edge="neg", async_reset=True), "counter-resetless": _counter(reset_less=True),
    "counter-hier": _counter(hier=True), "counter-shell": _counter(hier="shell"), "two-domains": _two_domains,
    "mem-transparent": _memory(True), "mem-nontransparent": _memory(False), "mem-gran1": _memory(True, gran=1),
    "mem-combread": _memory(comb_read=True), "mem-neg": _memory(True, depth=2, edge="neg"),
    "mem-two-writers": _memory(depth=2, two_wp=True, alphabet={"wdata": [1, 2], "ren": [1]}), "mem-depth4-rst": _memory(True, depth=4, with_rst=True),
    # partial-row writes: granularity strictly between 1 and the row width (data alphabet reduced to lane-distinguishing values)
    "mem-gran2-w4": _memory(True, gran=2, depth=2, width=4, alphabet={"wdata": [0b1111, 0b0110, 0b1001], "ren": [1]}),
    "mem-gran2-w4-comb": _memory(comb_read=True, gran=2, depth=2, width=4, alphabet={"wdata": [0b1111, 0b0110]}),
    "syncfifo-2": _fifo("SyncFIFO", 2), "syncfifo-3": _fifo("SyncFIFO", 3), "syncfifobuf-3": _fifo("SyncFIFOBuffered", 3),
    "asyncfifo-2": _fifo("AsyncFIFO", 2), "ffsync": _cdc("ff"), "asyncffsync": _cdc("asyncff"), "pulsesync": _cdc("pulse"),
    "wrap-reset": _wrapped("reset"), "wrap-enable": _wrapped("enable"), "wrap-rename": _wrapped("rename"),
    "wrap-enable-reset": _wrapped("enable-reset"), "wrap-reset-dict": _wrapped("reset-dict"), "data-views": _views,
}
QUICK_SEQ = ["counter-pos", "counter-neg", "counter-arst", "counter-arst-neg", "counter-resetless", "counter-hier", "counter-shell", "two-domains",
             "mem-transparent", "mem-nontransparent", "mem-gran1", "mem-combread", "mem-neg", "mem-two-writers", "mem-gran2-w4", "mem-gran2-w4-comb", "syncfifo-2", "syncfifobuf-3", "ffsync", "asyncffsync", "pulsesync",
             "wrap-reset", "wrap-enable", "wrap-rename", "wrap-enable-reset", "wrap-reset-dict", "data-views"]


def _dispatch(t):
    if t[0] == "expr":
        return expr_task(t[1])
    if t[0] == "stmt":
        return stmt_batch(t[1])
    return joint_bfs(t[1])


def run(rep):
    only = __import__("os").environ.get("VERIF_C04_ONLY", "")
    tasks = []
    W1 = rep.pick(3, 3)
    gen = [("d1", W1, tr, {}) for tr in itertools.product(G.shapes(W1), repeat=3)]
    shapes2 = G.shapes(2) if not rep.quick else [(0, False), (2, False), (2, True)]
    gen += [("d2", 2, tr, {}) for tr in itertools.product(shapes2, repeat=3)]
    gen.append(("const", 3, ((0, False),) * 3, {}))
    gen += [("d2c", 3, pair + ((0, False),), {"full": not rep.quick}) for pair in itertools.product(shapes2, repeat=2)]
    allgroups = {}
    for groups in pmap(expr_gen, gen, rep.procs, chunksize=4):
        for key, ts in groups.items():
            allgroups.setdefault(key, []).extend(ts)
    nterms = 0
    for key in sorted(allgroups):
        ts = allgroups[key]
        nterms += len(ts)
        bits = sum(w for _i, (w, _s) in key)
        size = 400 if bits <= 6 else 150
        for ch in chunks(ts, size):
            tasks.append(("expr", ch))
    rep.setcov("expression_terms", nterms)
    mods = c02.module_terms(rep.quick)
    groups = {}
    for mo in mods:
        groups.setdefault(tuple(sorted(c02.inputs_of(mo))), []).append(mo)
    for key, ms in groups.items():
        bits = sum(c02.INPUTS[i][0] for i in key)
        size = max(8, 120 >> max(0, bits - 6))
        sel = ms if not rep.quick else ms[::4]
        for n, ch in enumerate(chunks(sel, size)):
            tasks.append(("stmt", (ch, "comb", ("flat", "child", "deep", "shell")[n % 4])))
        sel = ms[::2] if not rep.quick else ms[::12]
        for n, ch in enumerate(chunks(sel, max(4, size // 3))):
            tasks.append(("stmt", (ch, "sync", ("deep", "shell", "flat", "child")[n % 4])))
    # one control-flow structure driving a combinational and a synchronous signal (bodies empty for one of the domains)
    mixed = c02.mixed_terms()
    groups = {}
    for mo in mixed:
        groups.setdefault(tuple(sorted(c02.inputs_of(mo))), []).append(mo)
    for key, ms in groups.items():
        sel = ms if not rep.quick else ms[::3]
        for n, ch in enumerate(chunks(sel, 60)):
            tasks.append(("stmt", (ch, "mixed", ("flat", "shell", "child", "deep")[n % 4])))
    for name in (QUICK_SEQ if rep.quick else list(SEQ_DESIGNS)):
        tasks.append(("seq", (name, rep.pick(5, 10), rep.pick(700, 40000))))
    if only:
        tasks = [t for t in tasks if t[0] == only]
    # the joint-BFS jobs are the longest single tasks: start them first, the seed rotates the rest
    tasks = [t for t in tasks if t[0] == "seq"] + rotate([t for t in tasks if t[0] != "seq"], rep.seed)
    for part in pmap(_dispatch, tasks, rep.procs):
        rep.merge(part)
    rep.setcov("rule", "programs = RTLIL documents converted from: expression batches (C01 term space), statement batches (C02 module-term space incl. the mixed comb/sync control-flow terms, flat, "
               "split over child/grandchild/sibling modules, and nested inside purely structural modules), sequential designs explored by joint BFS; every comparison point is one "
               "(output or register, stimulus) pair; disagreements_checked counts the points where simulator and RTLIL differed (each triaged "
               "against the reference semantics and the recorded $shift finding)")
    rep.setcov("exhaustive", True)
    if not only:
        rep.require(rep.cov.get("programs", 0) > 50 and rep.cov.get("states", 0) > 100, "programs and joint states explored")
    rep.assume("vf/rtlil/interp.py is the definition of the published RTLIL cell semantics used here (DESIGN.md Appendix A)")


def _tup(x):
    return tuple(_tup(y) for y in x) if isinstance(x, list) else x


def replay(payload):
    k = payload["kind"]
    if k == "expr":
        r = expr_batch([_tup(payload["term"])])
    elif k == "stmt":
        r = stmt_batch(([c02._unjson(s) for s in payload["stmts"]], payload["domain"], payload["layout"]))
    else:
        r = joint_bfs((payload["name"], len(payload.get("path", [])) + 1, 100000))
    return [v["what"] for v in r["violations"]][:5]
