"""C09 Elaboration and simulation are reproducible -- SCHED exploration of hash-order nondeterminism + history/reset enumeration.

(a) elaboration: a catalogue of designs (several implicitly created domains, name clashes, anonymous submodules, memories,
    instances) is converted to RTLIL (1) twice in one interpreter, (2) under every permutation (deviation-bounded) of every
    set the elaborator builds with `set()` (ChoiceSet injected into amaranth.hdl._ir / _xfrm), (3) by the unmodified code in
    fresh interpreters with different PYTHONHASHSEED values: all texts must be byte-identical.
(b) simulation: scenarios run twice give identical observation logs; for EVERY prefix length k of the history, k steps,
    reset(), then a full run gives the log of a fresh run, with all signals and memory rows at their initial contents right
    after reset().
(c) build plans: prepare twice -> same files and digest; archive twice -> identical bytes, sorted members, fixed timestamps;
    extract writes exactly the planned files.
"""
import hashlib
import io as _io
import itertools
import json
import os
import subprocess
import sys
import tempfile
import warnings
import zipfile

from ..core.pool import pmap, rotate, chunks
from ..explore.sched import ChoiceSet, Scheduler, explore

ID = "C09"
LEVEL = "model_checking"


# ------------------------------------------------------------------ (a) design catalogue
def catalogue():
    specs = []
    for ndom in (1, 2, 3, 4):
        for names in (("sync", "pix", "aux", "b"), ("zeta", "alpha", "mid", "b2")):
            for hier in ("flat", "sub", "anon"):
                for extra in ("none", "mem", "inst", "instclk", "instonly", "clash", "attrs", "fsm"):
                    specs.append({"ndom": ndom, "names": names[:ndom], "hier": hier, "extra": extra})
    return specs


def build_design(spec):
    """domains are NOT defined: they are created implicitly by the elaborator (missing-domain mechanism)"""
    from amaranth.hdl import Module, Signal, Instance, DomainRenamer
    from amaranth.lib.memory import Memory
    m = Module()
    data = Signal(4, name="data")
    outs = []
    targets = [m]
    if spec["hier"] == "sub":
        s1, s2 = Module(), Module()
        m.submodules.first = s1
        m.submodules.second = s2
        targets = [s1, s2, m]
    elif spec["hier"] == "anon":
        s1, s2 = Module(), Module()
        m.submodules += s1
        m.submodules += s2
        targets = [s1, m, s2]
    for k, dom in enumerate(spec["names"]):
        t = targets[k % len(targets)]
        r = Signal(4, name="r" if spec["extra"] == "clash" else f"r_{dom}")
        t.d[dom] += r.eq(r + data + k)
        o = Signal(4, name=f"o{k}")
        m.d.comb += o.eq(r)
        outs.append(o)
    if spec["extra"] == "mem":
        mem = Memory(shape=4, depth=4, init=[1, 2, 3])
        m.submodules.mem = mem
        wp = mem.write_port(domain=spec["names"][-1])
        rp = mem.read_port(domain=spec["names"][0])
        m.d.comb += [wp.addr.eq(data[:2]), wp.data.eq(data), wp.en.eq(data[3]), rp.addr.eq(data[2:])]
        o = Signal(4, name="omem")
        m.d.comb += o.eq(rp.data)
        outs.append(o)
    if spec["extra"] == "attrs":
        # several signals naming the same combinational nets, each with its own attributes; an enum-shaped alias
        from amaranth.lib import enum as aenum

        class Kind(aenum.Enum, shape=4):
            Z = 0
            A = 1
            B = 2
        total = Signal(4, name="total", attrs={"keep": 1})
        dbg = Signal(4, name="dbg", attrs={"mark_debug": "true"})
        kind = Signal(Kind, name="kind", attrs={"fsm_encoding": "none"})
        m.d.comb += [total.eq(data + 3), dbg.eq(total), kind.eq(dbg)]
        o = Signal(4, name="oattr")
        m.d.comb += o.eq(kind.as_value())
        outs.append(o)
    if spec["extra"] == "fsm":
        # an FSM in a fresh submodule is the first construct to name its domains: comb, the state register's domain and a third one
        fm = Module()
        m.submodules.fsm = fm
        o = Signal(4, name="ofsm")
        p_ = Signal(4, name="x")
        q_ = Signal(4, name="x")
        dom = spec["names"][-1]
        with fm.FSM(domain=spec["names"][0], name="ctl"):
            with fm.State("A"):
                fm.d.comb += o.eq(data)
                fm.d[dom] += p_.eq(p_ + 1)
                with fm.If(data[0]):
                    fm.next = "B"
            with fm.State("B"):
                fm.d.comb += o.eq(~data)
                fm.d["zz_extra"] += q_.eq(q_ ^ data)
                fm.next = "A"
        outs += [o, p_, q_]
    if spec["extra"] == "instonly":
        # the instance is the ONLY user of an implicitly created domain (nothing else in the design names it)
        from amaranth.hdl import ClockSignal, ResetSignal
        q = Signal(2, name="q")
        m.submodules.u = Instance("CLKBLK", i_clk=ClockSignal("ipix"), i_rst=ResetSignal("ipix"), i_d=data, o_q=q)
        o = Signal(2, name="oq")
        m.d.comb += o.eq(q)
        outs.append(o)
    if spec["extra"] == "instclk":
        # a foreign instance fed with the clock and reset of an implicitly created domain; the Instance object belongs to the design object
        # and is therefore elaborated again when the same design is converted again
        from amaranth.hdl import ClockSignal, ResetSignal
        q = Signal(2, name="q")
        dom = spec["names"][-1]
        m.submodules.u = Instance("CLKBLK", i_clk=ClockSignal(dom), i_rst=ResetSignal(dom), i_d=data, o_q=q)
        o = Signal(2, name="oq")
        m.d.comb += o.eq(q)
        outs.append(o)
    if spec["extra"] == "inst":
        q = Signal(2, name="q")
        m.submodules.u = Instance("BLK", p_A=3, i_d=data, o_q=q)
        o = Signal(2, name="oq")
        m.d.comb += o.eq(q)
        outs.append(o)
    return m, [data] + outs


def convert_spec(spec):
    from amaranth.back import rtlil
    with warnings.catch_warnings():
        warnings.simplefilter("ignore")
        m, ports = build_design(spec)
        return rtlil.convert(m, ports=ports, emit_src=False)


def inject(sched):
    """every set built with set() inside the elaborator becomes a ChoiceSet (module-level name injection, harness side only)"""
    import amaranth.hdl._ir as _ir
    import amaranth.hdl._xfrm as _xfrm

    def factory(it=()):
        return ChoiceSet(it, tag="elab", sched=sched)
    _ir.set = factory
    _xfrm.set = factory


def uninject():
    import amaranth.hdl._ir as _ir
    import amaranth.hdl._xfrm as _xfrm
    for mod in (_ir, _xfrm):
        if "set" in mod.__dict__:
            del mod.__dict__["set"]


def elab_work(task):
    specs, bound, max_runs = task
    out = {"cov": {"designs": 0, "states": 0, "transitions": 0, "elab_schedules": 0, "designs_with_choice": 0, "traces_validated_against_impl": 0},
           "samples": [], "violations": []}
    for spec in specs:
        sig = "elab:" + json.dumps(spec, sort_keys=True)
        try:
            t1 = convert_spec(spec)
            t2 = convert_spec(spec)
        except Exception as ex:
            out["violations"].append({"sig": sig + ":convert-raises", "what": f"{spec}: {type(ex).__name__}: {ex}", "payload": {"kind": "elab", "spec": spec}})
            continue
        # the SAME design object converted repeatedly (state left behind by an earlier conversion must not leak into a later one)
        try:
            from amaranth.back import rtlil
            with warnings.catch_warnings():
                warnings.simplefilter("ignore")
                m_, ports_ = build_design(spec)
                same = [rtlil.convert(m_, ports=ports_, emit_src=False) for _ in range(3)]
            if same[0] != t1 or same[1] != same[0] or same[2] != same[0]:
                k = 1 if same[1] != same[0] else (2 if same[2] != same[0] else 0)
                out["violations"].append({"sig": sig + ":same-object-reconverted", "what": f"{spec}: converting the same design object again gives different RTLIL: "
                                          f"{first_line_diff(same[0] if k else t1, same[k])}", "payload": {"kind": "elab", "spec": spec}})
        except Exception as ex:
            out["violations"].append({"sig": sig + ":reconvert-raises", "what": f"{spec}: converting the same design object twice raises {type(ex).__name__}: {ex}",
                                      "payload": {"kind": "elab", "spec": spec}})
        out["cov"]["designs"] += 1
        out["cov"]["traces_validated_against_impl"] += 1
        if t1 != t2:
            out["violations"].append({"sig": sig + ":twice-differs", "what": f"{spec}: two conversions in one interpreter differ: {first_line_diff(t1, t2)}",
                                      "payload": {"kind": "elab", "spec": spec}})

        def run(s):
            inject(s)
            try:
                return convert_spec(spec)
            finally:
                uninject()
        st = explore(run, bound, max_runs=max_runs)
        out["cov"]["elab_schedules"] += st["runs"]
        out["cov"]["states"] += st["runs"]
        out["cov"]["transitions"] += st["choice_points_max"] * st["runs"]
        if st["alts_max"] >= 2:
            out["cov"]["designs_with_choice"] += 1
        outs = st["outcomes"]
        if len(outs) > 1 or t1 not in outs:
            others = [o for o in outs if o != t1]
            out["violations"].append({"sig": sig + ":set-order-dependent", "what": f"{spec}: RTLIL depends on the iteration order of a set built during elaboration "
                                      f"({len(outs)} distinct texts over {st['runs']} orders): {first_line_diff(t1, others[0])}",
                                      "payload": {"kind": "elab", "spec": spec}})
        if len(out["samples"]) < 1:
            out["samples"].append({"design": spec, "set_orders_explored": st["runs"], "choice_points": st["choice_points_max"], "rtlil_sha1": hashlib.sha1(t1.encode()).hexdigest()[:12]})
    return out


def first_line_diff(a, b):
    la, lb = a.split("\n"), b.split("\n")
    for i, (x, y) in enumerate(zip(la, lb)):
        if x != y:
            return f"line {i}: {x.strip()!r} vs {y.strip()!r}"
    return f"lengths {len(la)} vs {len(lb)}"


HASHSEED_SCRIPT = r"""
import sys, json, hashlib
import os
sys.path.insert(0, os.environ.get("VERIF_ROOT", "/verif"))
from vf.props import c09
out = {}
for i, spec in enumerate(c09.catalogue()):
    try:
        out[i] = hashlib.sha256(c09.convert_spec(spec).encode()).hexdigest()
    except Exception as ex:
        out[i] = "raises " + type(ex).__name__
print(json.dumps(out))
"""


def hashseed_runs(seeds):
    """the unmodified implementation in fresh interpreters with different string-hash seeds"""
    results = {}
    procs = []
    for seed in seeds:
        env = dict(os.environ, PYTHONHASHSEED=str(seed))
        procs.append((seed, subprocess.Popen([sys.executable, "-W", "ignore", "-c", HASHSEED_SCRIPT], env=env, stdout=subprocess.PIPE, stderr=subprocess.PIPE, text=True)))
    for seed, p in procs:
        o, e = p.communicate(timeout=600)
        line = [l for l in o.splitlines() if l.startswith("{")]
        results[seed] = json.loads(line[-1]) if line else {"error": e[-300:]}
    return results


# ------------------------------------------------------------------ (b) simulation repeat / reset
def sim_scenario(cfg):
    """returns (log of a fresh run, list of problems) for one scenario; enumerates every reset point"""
    from amaranth.hdl import Module, Signal, ClockDomain, Period
    from amaranth.lib.memory import Memory
    from amaranth.sim import Simulator
    problems = []
    with warnings.catch_warnings():
        warnings.simplefilter("ignore")
        m = Module()
        a = ClockDomain("a")
        b = ClockDomain("b", clk_edge=cfg["edge_b"])
        m.domains.a, m.domains.b = a, b
        inp = Signal(2, name="inp", init=1)
        ca = Signal(3, name="ca", init=2)
        rb = Signal(3, name="rb")
        y = Signal(3, name="y")
        mem = Memory(shape=3, depth=4, init=[5, 6])
        m.submodules.mem = mem
        wp = mem.write_port(domain="a")
        rp = mem.read_port(domain="b")
        m.d.a += ca.eq(ca + inp)
        m.d.b += rb.eq(ca ^ rp.data)
        m.d.comb += [y.eq(ca + rb), wp.addr.eq(ca[:2]), wp.data.eq(ca ^ 5), wp.en.eq(inp[0]), rp.addr.eq(rb[:2])]
        pa = Signal(3, name="pa")
        pc = Signal(3, name="pc")
        state = {"log": None}

        async def comb_proc(ctx):
            # comb-replacement process (guide pattern): its reaction to the *initial* values differs from pc's init
            async for ca_v, rb_v in ctx.changed(ca, rb):
                ctx.set(pc, (ca_v ^ rb_v ^ 5) & 7)

        async def proc(ctx):
            async for clk_edge, rst, v in ctx.tick("a").sample(ca):
                if clk_edge:
                    ctx.set(pa, (v + 1) & 7)

        def make_tb(tid, script):
            async def tb(ctx):
                log = state["log"]
                for op in script:
                    if op[0] == "set":
                        ctx.set(inp, op[1])
                    elif op[0] == "tick":
                        await ctx.tick(op[1])
                    elif op[0] == "delay":
                        await ctx.delay(Period(fs=op[1]))
                    elif op[0] == "memset":
                        ctx.set(mem.data[op[1]], op[2])
                    log.append((tid, op[0], ctx.elapsed_time().femtoseconds, ctx.get(ca), ctx.get(rb), ctx.get(y), ctx.get(pa), ctx.get(pc), ctx.get(rp.data),
                                tuple(ctx.get(mem.data[i]) for i in range(4))))
            return tb
        sim = Simulator(m)
        sim.add_clock(Period(fs=cfg["pa"]), phase=Period(fs=cfg["fa"]), domain="a")
        sim.add_clock(Period(fs=cfg["pb"]), phase=Period(fs=cfg["fb"]), domain="b")
        sim.add_process(proc)
        sim.add_process(comb_proc)
        for tid, script in enumerate(cfg["scripts"]):
            sim.add_testbench(make_tb(tid, script))
        eng = sim._engine
        sigs = [inp, ca, rb, y, pa, pc, rp.data, a.clk, b.clk]
        init_vals = [s.init for s in sigs]
        init_rows = [5, 6, 0, 0]

        def full_run():
            state["log"] = []
            n = 0
            while sim.advance():
                n += 1
                if n > 400:
                    problems.append("simulation does not terminate")
                    break
            return tuple(state["log"]), n
        log0, steps = full_run()
        # reset and run again
        sim.reset()
        log1, _ = full_run()
        if log1 != log0:
            problems.append(("rerun-after-reset", f"run after reset() differs from the first run: {diff(log0, log1)}"))
        # every reset point of the history
        for k in range(0, steps + 1):
            sim.reset()
            state["log"] = []
            for _ in range(k):
                sim.advance()
            sim.reset()
            got = [eng.get_value(s) for s in sigs]
            rows = [eng.get_value(mem.data[i]) for i in range(4)]
            if got != init_vals or rows != init_rows:
                problems.append(("state-after-reset", f"after {k} steps + reset(): signals {got} (initial {init_vals}), memory {rows} (initial {init_rows})"))
                break
            logk, _ = full_run()
            if logk != log0:
                problems.append(("log-after-reset", f"after {k} steps + reset() the rerun differs from a fresh run: {diff(log0, logk)}"))
                break
    return log0, steps, problems


def diff(l0, l1):
    for i, (x, y) in enumerate(zip(l0, l1)):
        if x != y:
            return f"entry {i}: {x} vs {y}"
    return f"lengths {len(l0)} vs {len(l1)}"


SIM_OPS = [("set", 2), ("set", 3), ("tick", "a"), ("tick", "b"), ("delay", 3), ("memset", 1, 7)]


def sim_cfgs(quick):
    clocks = [(4, 2, 6, 1, "neg"), (4, 2, 4, 2, "pos"), (10, 0, 4, 3, "pos")]
    L = 3 if quick else 4
    for ci, (pa, fa, pb, fb, eb) in enumerate(clocks):
        for n in range(1, L + 1):
            for si, script in enumerate(itertools.product(SIM_OPS, repeat=n)):
                if not any(op[0] in ("tick", "delay") for op in script):
                    continue
                if n >= 3 and (si + ci) % (4 if quick else 2):
                    continue
                other = (("tick", "b"), ("set", 0), ("tick", "a"), ("tick", "a"))
                yield {"pa": pa, "fa": fa, "pb": pb, "fb": fb, "edge_b": eb, "scripts": (script, other) if si % 2 else (script,)}


def sim_work(cfgs):
    out = {"cov": {"sim_scenarios": 0, "reset_points": 0, "states": 0, "transitions": 0}, "samples": [], "violations": []}
    for cfg in cfgs:
        log_a, steps, problems = sim_scenario(cfg)
        log_b, _, _ = sim_scenario(cfg)           # a second, independent simulator of the same design and testbenches
        out["cov"]["sim_scenarios"] += 1
        out["cov"]["reset_points"] += steps + 1
        out["cov"]["states"] += steps + 1
        out["cov"]["transitions"] += (steps + 1) * (steps + 2) // 2
        sig = "sim:" + json.dumps(cfg, sort_keys=True)
        if log_a != log_b:
            problems.append(("twice", f"two runs differ: {diff(log_a, log_b)}"))
        for p in problems[:2]:
            kind, text = p if isinstance(p, tuple) else ("other", p)
            out["violations"].append({"sig": sig + ":" + kind, "what": f"{cfg}: {text}", "payload": {"kind": "sim", "cfg": cfg}})
        if not out["samples"]:
            out["samples"].append({"sim_scenario": cfg, "history_steps": steps, "log_entries": len(log_a)})
    return out


# ------------------------------------------------------------------ (c) build plans
def plan_work(kinds):
    from amaranth.hdl import Module, Signal, ClockDomain, Elaboratable
    from amaranth.build import Resource, Pins, Clock, Attrs, Subsignal
    from amaranth.lib import io
    out = {"cov": {"plans": 0, "plan_files": 0}, "samples": [], "violations": []}

    def make(kind):
        resources = [Resource("clk", 0, Pins("A1", dir="i"), Clock(1e6)), Resource("led", 0, Pins("B1 B2", dir="o"), Attrs(IO_TYPE="LVCMOS33")),
                     Resource("btn", 0, Subsignal("a", Pins("C1", dir="i")), Subsignal("b", Pins("C2", dir="i")))]
        if kind == "ice40":
            from amaranth.vendor import LatticeICE40Platform
            cls = type("P", (LatticeICE40Platform,), {"device": "iCE40HX1K", "package": "TQ144", "resources": resources, "connectors": [], "default_clk": "clk"})
            return cls(toolchain="IceStorm")
        if kind == "ecp5":
            from amaranth.vendor import LatticeECP5Platform
            cls = type("P", (LatticeECP5Platform,), {"device": "LFE5U-25F", "package": "BG381", "speed": "6", "resources": resources, "connectors": [],
                                                     "default_clk": "clk"})
            return cls(toolchain="Trellis")
        from amaranth.vendor import GowinPlatform
        cls = type("P", (GowinPlatform,), {"part": "GW1N-LV1QN48C6/I5", "family": "GW1N-1", "resources": resources, "connectors": [], "default_clk": "clk"})
        return cls(toolchain="Apicula")

    class Top(Elaboratable):
        def __init__(self, variant):
            self.variant = variant

        def elaborate(self, platform):
            m = Module()
            led = platform.request("led", 0, dir="-")
            btn = platform.request("btn", 0, dir="-")
            m.submodules.led = lb = io.Buffer("o", led)
            m.submodules.ba = ba = io.Buffer("i", btn.a)
            m.submodules.bb = bb = io.Buffer("i", btn.b)
            cnt = Signal(3 + self.variant)
            m.d.sync += cnt.eq(cnt + ba.i)
            m.d.comb += lb.o.eq(cnt[:2] ^ bb.i)
            return m
    with warnings.catch_warnings():
        warnings.simplefilter("ignore")
        for kind in kinds:
            sig = f"plan:{kind}"
            try:
                p1 = make(kind).build(Top(0), name="top", do_build=False)
                p2 = make(kind).build(Top(0), name="top", do_build=False)
            except Exception as ex:
                out["violations"].append({"sig": sig + ":prepare-raises", "what": f"{kind}: prepare raises {type(ex).__name__}: {ex}", "payload": {"kind": "plan", "plat": kind}})
                continue
            out["cov"]["plans"] += 1
            out["cov"]["plan_files"] += len(p1.files)
            if list(p1.files) != list(p2.files) or p1.digest() != p2.digest() or any(p1.files[k] != p2.files[k] for k in p1.files):
                bad = [k for k in p1.files if p1.files.get(k) != p2.files.get(k)]
                out["violations"].append({"sig": sig + ":prepare-twice", "what": f"{kind}: two prepared plans differ in {bad[:4]}", "payload": {"kind": "plan", "plat": kind}})
            b1, b2 = _io.BytesIO(), _io.BytesIO()
            p1.archive(b1)
            p2.archive(b2)
            if b1.getvalue() != b2.getvalue():
                out["violations"].append({"sig": sig + ":archive", "what": f"{kind}: archives of identical plans differ", "payload": {"kind": "plan", "plat": kind}})
            zf = zipfile.ZipFile(_io.BytesIO(b1.getvalue()))
            names = zf.namelist()
            if names != sorted(p1.files) or any(i.date_time != (1980, 1, 1, 0, 0, 0) for i in zf.infolist()):
                out["violations"].append({"sig": sig + ":archive-members", "what": f"{kind}: archive members not sorted / timestamps not fixed: {names[:5]}",
                                          "payload": {"kind": "plan", "plat": kind}})
            # archiving must not depend on the insertion order of the files
            from amaranth.build.run import BuildPlan
            p3 = BuildPlan(p1.script)
            for k in reversed(list(p1.files)):
                p3.add_file(k, p1.files[k])
            b3 = _io.BytesIO()
            p3.archive(b3)
            if b3.getvalue() != b1.getvalue() or p3.digest() != p1.digest():
                out["violations"].append({"sig": sig + ":insertion-order", "what": f"{kind}: archive/digest depend on the order files were added", "payload": {"kind": "plan", "plat": kind}})
            with tempfile.TemporaryDirectory(prefix="vf-c09-") as root:
                p1.extract(os.path.join(root, "build"))
                found = {}
                for d, _dirs, fs in os.walk(os.path.join(root, "build")):
                    for f in fs:
                        full = os.path.join(d, f)
                        found[os.path.relpath(full, os.path.join(root, "build")).replace(os.sep, "/")] = open(full, "rb").read()
                want = {k: (v.encode() if isinstance(v, str) else v) for k, v in p1.files.items()}
                if found != want:
                    out["violations"].append({"sig": sig + ":extract", "what": f"{kind}: extracted files differ from the plan: extra {sorted(set(found) - set(want))[:3]} "
                                              f"missing {sorted(set(want) - set(found))[:3]}", "payload": {"kind": "plan", "plat": kind}})
            out["samples"].append({"plan": kind, "files": sorted(p1.files)[:6], "digest": p1.digest().hex()[:16]})
    return out


def _dispatch(t):
    return {"elab": elab_work, "sim": sim_work, "plan": plan_work}[t[0]](t[1])


def run(rep):
    cat = catalogue()
    tasks = [("elab", (ch, rep.pick(2, 3), rep.pick(300, 3000))) for ch in chunks(cat, 8)]
    sc = list(sim_cfgs(rep.quick))
    tasks += [("sim", ch) for ch in chunks(sc, 8)]
    tasks += [("plan", [k]) for k in ("ice40", "ecp5", "gowin")]
    tasks = rotate(tasks, rep.seed)
    seeds = list(range(rep.pick(8, 40)))
    import threading
    box = {}
    th = threading.Thread(target=lambda: box.update(r=hashseed_runs(seeds)))
    th.start()
    for part in pmap(_dispatch, tasks, max(1, rep.procs - 4)):
        rep.merge(part)
    th.join()
    res = box.get("r", {})
    base = res.get(seeds[0], {})
    rep.setcov("hashseed_interpreters", len(res))
    for seed in seeds:
        r = res.get(seed, {})
        if "error" in r or not r:
            rep.violation("hashseed:interpreter-failed", f"fresh interpreter with PYTHONHASHSEED={seed} failed: {r.get('error')}", {"kind": "hashseed"})
            continue
        rep.add("traces_validated_against_impl", len(r))
        for i, h in r.items():
            if h != base.get(i):
                spec = cat[int(i)]
                rep.violation("elab:" + json.dumps(spec, sort_keys=True) + ":hashseed", f"{spec}: RTLIL under PYTHONHASHSEED={seed} differs from PYTHONHASHSEED={seeds[0]}",
                              {"kind": "elab", "spec": spec})
    rep.setcov("rule", "elaboration: 96 catalogue designs (1-4 implicitly created domains in two name orders, flat / named / anonymous submodules, memory across domains, "
               "instance, clashing register names) converted twice, under every deviation-bounded permutation of every set() built in hdl._ir/_xfrm, and by the "
               "unmodified code under PYTHONHASHSEED 0..7 (0..39); simulation: every script of length<=3 (4) over set/tick/delay/memory-row write on a two-domain design "
               "with a memory and a user process, run twice, and re-run after reset() at EVERY prefix length of the history; build plans on iCE40/ECP5/Gowin. "
               "states = executions (set orders + reset points), transitions = choice points / steps replayed")
    rep.setcov("exhaustive", True)
    rep.require(rep.cov.get("designs_with_choice", 0) >= 20, "elaboration choice points with >=2 alternatives observed")
    rep.require(rep.cov.get("reset_points", 0) > rep.cov.get("sim_scenarios", 0) * 3 and rep.cov.get("plans", 0) == 3, "reset points and plans")


def replay(payload):
    k = payload["kind"]
    if k == "elab":
        r = elab_work(([payload["spec"]], 2, 300))
        res = [v["what"] for v in r["violations"]]
        hs = hashseed_runs([0, 1, 2, 3, 4, 5])
        idx = str(catalogue().index(payload["spec"])) if payload["spec"] in catalogue() else None
        if idx is not None and len({hs[s].get(idx) for s in hs}) > 1:
            res.append("RTLIL differs between PYTHONHASHSEED values 0..5")
        return res
    if k == "sim":
        cfg = payload["cfg"]
        cfg["scripts"] = tuple(tuple(tuple(op) for op in s) for s in cfg["scripts"])
        return [v["what"] for v in sim_work([cfg])["violations"]]
    if k == "plan":
        return [v["what"] for v in plan_work([payload["plat"]])["violations"]]
    return []
