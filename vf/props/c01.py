"""C01 Operators compute exact integer results in shapes that never overflow -- bounded-exhaustive terms x all values."""
import itertools

from ..core.pool import pmap, rotate
from ..gen import terms as G
from ..ref import expr as R
from ..sim.exprs import eval_batch

ID = "C01"
LEVEL = "exploration"
BATCH = 400


def canonical(t, triple, base):
    """a term that does not use some leaf is enumerated only for the triple where that leaf has the base shape"""
    used = R.leaves(t)
    return all(i in used or triple[i] == base for i in range(3))


def gen_terms(task):
    kind, W, triple, opts = task
    base = G.shapes(W)[0]
    if kind == "d1":
        it = G.depth1_terms(triple, W)
    elif kind == "d2":
        it = G.depth2_terms(triple, W, inner_rich=opts.get("inner_rich", False), outer_rich=opts.get("outer_rich", False))
    elif kind == "const":
        return list(G.const_leaf_terms(W))
    elif kind == "d3":
        it = depth3_terms(triple, W)
    elif kind == "d2c":
        return list(G.const_inner_terms(triple[:2], W, full=opts.get("full", True)))
    elif kind == "proxy":
        return list(G.proxy_terms(triple, W))
    return [t for t in it if canonical(t, triple, base)]


REINTERP_U = ["inv", "neg", "as_signed", "as_unsigned", "abs"]


def depth3_terms(triple, W):
    """chains consumer(reinterp(op(a, b)), c): the inner node of depth-2 chains is a value-reinterpreting form"""
    a, b, c = (G.sig_leaf(i, sh) for i, sh in enumerate(triple))
    for op in ("+", "-", "&", "^", ">>", "*"):
        core = ("b", op, a, b)
        if G.try_shape(core) is None:
            continue
        mids = [("u", u, core) for u in REINTERP_U] + [("shr", core, 1), ("shl", core, -1), ("mux", c, core, a),
                                                        ("slice", core, 1, None, None), ("bsel", core, c, 2)]
        for mid in mids:
            sh = G.try_shape(mid)
            if sh is None or sh[0] > 7:
                continue
            for outer in G.forms1(mid, c, b, W, rich=False):
                if G.try_shape(outer) is not None and outer[0] not in ("match", "slice", "idx"):
                    yield outer


def work(task):
    terms = gen_terms(task)
    out = {"cov": {"evaluations": 0, "terms": 0, "distinct_nontrivial": 0}, "samples": [], "violations": []}
    # group by used-leaf set so that only the leaves a term reads are enumerated
    groups = {}
    for t in terms:
        groups.setdefault(tuple(sorted(R.leaves(t).items())), []).append(t)
    for key, ts in groups.items():
        for i in range(0, len(ts), BATCH):
            r = eval_batch(ts[i:i + BATCH], read_path=False, circuit_path=True)
            out["cov"]["evaluations"] += r["evaluations"]
            out["cov"]["terms"] += r["terms"]
            out["cov"]["distinct_nontrivial"] += r["nontrivial"]
            for kind, t, env, got, want in r["violations"]:
                out["violations"].append({
                    "sig": f"{kind}:{R.show(t)}",
                    "what": f"{kind}: {R.show(t)} with leaves {env}: implementation {got!r}, reference {want!r}",
                    "payload": {"term": t, "env": env, "kind": kind}})
    if terms:
        out["samples"].append({"term": R.show(terms[len(terms) // 2]), "task": [task[0], task[1], list(map(list, task[2]))]})
    return out


def run(rep):
    tasks = []
    W1 = rep.pick(3, 4)
    for tr in itertools.product(G.shapes(W1), repeat=3):
        tasks.append(("d1", W1, tr, {}))
    W2 = 2
    for tr in itertools.product(G.shapes(W2), repeat=3):
        tasks.append(("d2", W2, tr, {"inner_rich": not rep.quick, "outer_rich": False}))
    tasks.append(("const", 3, ((0, False),) * 3, {}))
    sub = [(0, False), (2, False), (2, True)]      # quick: the chain / constant families over a shape subset that keeps zero width and both signs
    for pair in itertools.product(sub if rep.quick else G.shapes(3), repeat=2):
        tasks.append(("d2c", 3, pair + ((0, False),), {"full": not rep.quick}))
    W3 = rep.pick(2, 3)
    for tr in itertools.product(sub if rep.quick else G.shapes(W3), repeat=3):
        tasks.append(("d3", W3, tr, {}))
    # array proxies used without a cast: elements a, b of every shape pair, index of width 1 and 2, other operand of a shape subset
    for tr in itertools.product(G.shapes(2), G.shapes(2), [(1, False), (2, False)], sub if rep.quick else G.shapes(2)):
        tasks.append(("proxy", 2, tr, {}))
    if not rep.quick:
        for tr in itertools.product(G.shapes(3), repeat=3):
            if (3, False) in tr or (3, True) in tr:
                tasks.append(("d2", 3, tr, {"inner_rich": False, "outer_rich": False}))
    tasks = rotate(tasks, rep.seed)
    for part in pmap(work, tasks, rep.procs, chunksize=2):
        rep.merge(part)
    rep.setcov("rule", f"every single-operator term over leaf shapes of width<={W1} (all 45 operator forms incl. constant shift/rotate "
               f"amounts, python slices, part selects past the MSB, patterns, arrays), every two-operator composition over width<={W2}, "
               f"constant operands of every value (width<=2), three-operator chains through reinterpreting forms, and every single-operator form "
               "with an uncast array proxy as either operand (width<=2); each term under ALL "
               "valuations of the leaves it reads; executed as `o.eq(term)` in a simulated comb circuit with o of exactly term.shape(). "
               "non-trivial: reference value varies with the inputs")
    rep.setcov("exhaustive", True)
    rep.require(rep.cov.get("terms", 0) > 1000, "term count")
    rep.assume("reference semantics vf/ref/expr.py transcribed from docs/guide.rst and the operator docstrings")


def _tup(x):
    return tuple(_tup(y) for y in x) if isinstance(x, list) else x


def replay(payload):
    t = _tup(payload["term"])
    r = eval_batch([t], read_path=False, circuit_path=True, max_viol=5)
    return [f"{k}: {R.show(tt)} env={env} got={got!r} want={want!r}" for k, tt, env, got, want in r["violations"]]
