"""C19 Resource requests map pins one-to-one and constraints name the right pin.

Explicit-state exploration of request histories on the REAL ResourceManager / vendor platforms, in product with
a reference allocator (granted set + pin->owner map, vf/ref/c19_alloc.py). The implementation's allocation is
observed only through the behaviour of later requests. Families (each enumerated completely inside its bounds):
  S  structures: all tables of <=3 resources over 7 shapes x injective pin tuples from a pool of 4 pins
     (modulo pin renaming / resource-list order; quick: pairs over 5 shapes, triples over P1/G11), every request history
     of length 3 over 4 actions per resource + a missing resource (thorough: also length 4 on the 1- and 2-resource tables)
  D1 decorations: one resource x (shape, pin order, dir, inversion, attrs, clock, connector depth 0..3/mixed)
     + one probe resource per pin; all histories of length 2 (3 thorough)
  D2 override algebra: shape x declared directions, full dir x xdr override alphabet; all histories of length 2
  X  dangling connector references inside a subsignal resource
  XC connector chains (string / dict forms, depth 1..3) whose entries dead-end in a gap of / past the end of / in an
     undefined pin of the parent or grandparent, used by Pins and DiffPairs (p / n side) of width 1..2: must be refused,
     allocation unchanged. General invariant on every granted request of every family: all pin names carried by the
     returned ports (and all constraint-file pins) are physical pins of the platform
  E  end to end: prepare() on iCE40/IceStorm (.pcf), ECP5/Trellis (.lpf), Gowin/Apicula (.cst): request sequences
     executed inside elaborate(), constraint files parsed, compared with the top-level ports of the emitted RTLIL
  EC every declared clock of G.CLOCKS (fractional / sub-MHz / period-given) + a clock on the internal net "vf$netclk"
  ET the EC tables + decoration tables on 15 further platform/toolchain template sets (MachXO2, Nexus Oxide/Radiant,
     Diamond, iCECube2, Gowin IDE, Quartus/Mistral, Vivado/Symbiflow/Xray/ISE, QuickLogic): pins, attributes, clocks,
     and every Tcl double-quoted word must decode without a live [ or $ substitution
"""
import copy
import itertools

from ..core.pool import pmap, rotate, chunks
from ..gen import c19_tables as G
from ..ref import c19_alloc as R

ID = "C19"
LEVEL = "model_checking"

MAX_V_PER_TABLE = 4


# ------------------------------------------------------------------ driving the real code
def _request(rm, a):
    from amaranth.build.res import ResourceError
    try:
        obj = rm.request(a["name"], a["number"], dir=copy.deepcopy(a.get("dir")), xdr=copy.deepcopy(a.get("xdr")))
        return True, obj, None, False
    except Exception as e:          # classes are compared, never texts
        return False, None, type(e).__name__, isinstance(e, ResourceError)


def _new_manager(table, objs=None):
    from amaranth.build.res import ResourceManager
    resources, connectors = objs if objs is not None else G.build_objects(table)
    return ResourceManager(resources, connectors)


def _has_special_attrs(node):
    """None-valued / callable attributes are rewritten by the code under test: such tables get fresh DSL objects per run"""
    if any(v is None or isinstance(v, dict) for v in (node.get("attrs") or {}).values()):
        return True
    return node["kind"] == "group" and any(_has_special_attrs(s["node"]) for s in node["subs"])


def _check_port(port, leaf, pins, errs, where):
    """port: SingleEndedPort / DifferentialPort returned (or recorded) for a leaf; pins from the reference"""
    from amaranth.lib import io
    n = len(leaf["names"]) if leaf["kind"] == "pins" else len(leaf["p"])
    want_inv = (bool(leaf["invert"]),) * n
    want_dir = R.PORT_DIR[leaf["dir"]]
    if leaf["kind"] == "pins":
        if not isinstance(port, io.SingleEndedPort):
            errs.append(f"{where}: expected a single-ended port, got {type(port).__name__}")
            return
        halves = [("io", port.io)]
    else:
        if not isinstance(port, io.DifferentialPort):
            errs.append(f"{where}: expected a differential port, got {type(port).__name__}")
            return
        halves = [("p", port.p), ("n", port.n)]
    if len(port) != n:
        errs.append(f"{where}: port has {len(port)} bits, {n} pins declared")
    for half, iop in halves:
        got = [None if m is None else m.name for m in iop.metadata]
        if len(iop) != n or got != pins[half]:
            errs.append(f"{where}.{half}: bits are pins {got}, declared (resolved) {pins[half]}")
    if tuple(port.invert) != want_inv:
        errs.append(f"{where}: invert={tuple(port.invert)}, declared {want_inv}")
    if port.direction.value != want_dir:
        errs.append(f"{where}: direction={port.direction.value!r}, declared {leaf['dir']!r}")


def _check_granted(rm, obj, node, merged, cmap, flags):
    """obj returned by a granted request against the declaration; -> (errs, [(path, leaf, port, eff_dir)])"""
    errs, ports = [], []
    pinmap = {id(pin): port for pin, port, _buf in rm.iter_pins()}

    def walk(o, nd, path):
        if nd["kind"] == "group":
            flags.add("port:group")
            names = [s["name"] for s in nd["subs"]]
            have = sorted(k for k in vars(o)) if hasattr(o, "__dict__") else None
            if have != sorted(names):
                errs.append(f"{'.'.join(path) or 'resource'}: members {have}, declared subsignals {names}")
                return
            for s in nd["subs"]:
                walk(getattr(o, s["name"]), s["node"], path + (s["name"],))
            return
        eff_d = next(m[2] for m in merged if m[0] == path)
        pins = R.leaf_pins(nd, cmap)
        where = ".".join(path) or "resource"
        if eff_d == "-":
            port = o
            flags.add("port:diff" if nd["kind"] == "diff" else "port:single")
        else:
            flags.add("port:pinpath")
            port = pinmap.get(id(o))
            if port is None:
                errs.append(f"{where}: no I/O port recorded for the pin object of a dir={eff_d!r} request")
                return
            n = len(pins.get("io", pins.get("p")))
            if getattr(o, "width", None) != n or getattr(o, "dir", None) != eff_d:
                errs.append(f"{where}: pin object width/dir {getattr(o, 'width', None)}/{getattr(o, 'dir', None)}, want {n}/{eff_d}")
        _check_port(port, nd, pins, errs, where)
        if nd["invert"]:
            flags.add("inverted")
        if nd.get("clock_mhz"):
            flags.add("clock")
        names = nd["names"] if nd["kind"] == "pins" else nd["p"]
        full = R.full_names(names, nd.get("conn"))
        for nm in full:
            flags.add("conn-depth-%d" % _depth(nm, cmap))
        ports.append((path, nd, port, eff_d))

    try:
        walk(obj, node, ())
    except Exception as e:
        errs.append(f"inspecting the returned object failed: {type(e).__name__}")
    return errs, ports


_PHYS = {}


def _phys_of(table):
    hit = _PHYS.get(id(table))
    if hit is None or hit[0] is not table:
        if len(_PHYS) > 4000:
            _PHYS.clear()
        hit = _PHYS[id(table)] = (table, R.physical_pins(table))
    return hit[1]


def _non_physical_names(rm, obj, phys):
    """general invariant, independent of the verdict: every pin name carried by any I/O port reachable from a granted
    object (port groups, single-ended / differential ports, pin objects through iter_pins) is a declared physical pin"""
    from amaranth.lib import io
    pinmap = None
    bad, stack, seen = [], [obj], 0
    while stack and seen < 64:
        o = stack.pop()
        seen += 1
        if isinstance(o, io.SingleEndedPort):
            iops = [o.io]
        elif isinstance(o, io.DifferentialPort):
            iops = [o.p, o.n]
        else:
            iops = []
            if pinmap is None:
                pinmap = {id(pin): port for pin, port, _buf in rm.iter_pins()}
            if id(o) in pinmap:
                stack.append(pinmap[id(o)])
            elif hasattr(o, "__dict__") and type(o).__name__ == "PortGroup":
                stack.extend(vars(o).values())
        for iop in iops:
            for m in iop.metadata:
                if m is not None and (m.name not in phys or ":" in m.name):
                    bad.append(m.name)
    return bad


def _depth(name, cmap):
    d = 0
    while ":" in name and name in cmap:
        name = cmap[name]
        d += 1
    return d


def run_history(table, history, rm=None, on_grant=None, objs=None, static=None):
    """Run one history on a fresh manager in lock step with the reference.
    -> dict(steps, keys, flags, mismatch (None | dict), port_errs [(step, [..])])"""
    ref = R.RefAlloc(table, static)
    if rm is None:
        rm = _new_manager(table, objs)
    out = {"steps": 0, "keys": [ref.key()], "flags": set(), "mismatch": None, "port_errs": [], "ports": 0}
    flags = out["flags"]
    refused = []           # (pins of the refused request, reason)
    for i, a in enumerate(history):
        verdict, why, merged = ref.expect(a)
        ok, obj, cls, is_re = _request(rm, a)
        out["steps"] += 1
        if ok:
            bad = _non_physical_names(rm, obj, _phys_of(table))
            if bad:
                out["port_errs"].append((i, [f"non-physical: granted port carries pin names {bad} that are not physical pins of the platform"]))
        if not R.verdict_ok(verdict, ok, is_re):
            out["mismatch"] = {"step": i, "want": verdict, "why": why, "got": "granted" if ok else cls}
            return out
        k = (a["name"], a["number"])
        if ok:
            mine = set(ref.pins[k])
            for pins, reason in refused:
                if pins & mine:
                    flags.add("grant-after-refused:" + reason)
            flags.add("grant" if verdict == R.GRANT else "either:granted")
            ref.commit(a)
            errs, ports = _check_granted(rm, obj, ref.res[k]["node"], merged, ref.cmap, flags)
            out["ports"] += len(ports)
            if errs:
                out["port_errs"].append((i, errs))
            if on_grant:
                on_grant(i, a, obj, ports)
        else:
            reason = {"already requested": "already", "no such resource": "missing", "illegal dir/xdr override": "illegal",
                      "connector pin does not exist": "dangling", "xdr > 2": "xdr"}.get(why, "conflict")
            flags.add("either:refused" if verdict == R.EITHER else "refuse:" + reason)
            if k in ref.res:
                refused.append(({p for p in ref.pins[k] if p is not None}, reason))
        out["keys"].append(ref.key())
    return out


def _sig(fam, table, prefix, kind):
    return f"{fam}|{G.table_tag(table)}|{'>'.join(G.action_tag(a) for a in prefix)}|{kind}"


def _actions_for(fam, table, quick):
    if fam == "S":
        return G.s_actions(table)
    if fam in ("D1", "X", "XC"):
        return G.d1_actions(table)
    if fam == "D2":
        return G.d2_actions(table, quick)
    raise ValueError(fam)


def w_histories(task):
    """all histories of length L over the action alphabet of each table"""
    fam, tables, L, quick = task
    cov = {"tables": 0, "histories": 0, "transitions": 0, "traces_validated_against_impl": 0, "states": 0,
           "mismatches": 0, "port_objects_checked": 0}
    out = {"cov": cov, "samples": [], "violations": [], "flags": set()}
    for table in tables:
        acts = _actions_for(fam, table, quick)
        cov["tables"] += 1
        keys, seen_prefix, nv = set(), set(), 0
        static = R.RefAlloc.prepare(table)
        objs = None if any(_has_special_attrs(r["node"]) for r in table["resources"]) else G.build_objects(table)
        for idx in itertools.product(range(len(acts)), repeat=L):
            hist = [acts[i] for i in idx]
            r = run_history(table, hist, objs=objs, static=static)
            cov["histories"] += 1
            cov["transitions"] += r["steps"]
            cov["port_objects_checked"] += r["ports"]
            keys.update(r["keys"])
            out["flags"] |= r["flags"]
            bad = False
            if r["mismatch"]:
                bad = True
                mm = r["mismatch"]
                pre = idx[:mm["step"] + 1]
                if pre not in seen_prefix:
                    seen_prefix.add(pre)
                    cov["mismatches"] += 1
                    if nv < MAX_V_PER_TABLE:
                        nv += 1
                        prefix = hist[:mm["step"] + 1]
                        kind = f"want={mm['want']},got={mm['got']}"
                        out["violations"].append({
                            "sig": _sig(fam, table, prefix, kind),
                            "what": f"request #{mm['step'] + 1} of the history {[G.action_tag(a) for a in prefix]} on table "
                                    f"{G.table_tag(table)}: reference says {mm['want']} ({mm['why']}), real code: {mm['got']}",
                            "payload": {"family": fam, "table": table, "history": prefix}})
            for step, errs in r["port_errs"]:
                bad = True
                pre = idx[:step + 1] + ("port",)
                if pre not in seen_prefix:
                    seen_prefix.add(pre)
                    cov["mismatches"] += 1
                    if nv < MAX_V_PER_TABLE:
                        nv += 1
                        prefix = hist[:step + 1]
                        out["violations"].append({
                            "sig": _sig(fam, table, prefix, "port:" + errs[0].split(":")[0]),
                            "what": f"object returned by request #{step + 1} of {[G.action_tag(a) for a in prefix]} on table "
                                    f"{G.table_tag(table)}: {errs}",
                            "payload": {"family": fam, "table": table, "history": prefix}})
            if not bad:
                cov["traces_validated_against_impl"] += 1
        cov["states"] += len(keys)
        if cov["tables"] == 1:
            out["samples"].append({"family": fam, "table": G.table_tag(table), "actions": [G.action_tag(a) for a in acts],
                                   "history_length": L, "reference_states": len(keys)})
    out["flags"] = sorted(out["flags"])
    return out


# ------------------------------------------------------------------ end to end
PLATFORMS = ("ice40", "ecp5", "gowin")          # the three open flows the full E table list runs on
NETCLK = "vf$netclk"                              # internal clock net; `$` must survive every quoting layer

# kind -> (vendor class, class attributes, toolchain, [(file suffix, format)], renders clocks, renders attrs,
#          needs the RTLIL->Verilog conversion (Yosys) to render its plan)
_ICE = ("LatticeICE40Platform", {"device": "iCE40HX1K", "package": "TQ144"})
_ECP = ("LatticeECP5Platform", {"device": "LFE5U-25F", "package": "BG381", "speed": "6"})
_XO2 = ("LatticeMachXO2Platform", {"device": "LCMXO2-1200HC", "package": "TG100", "speed": "4", "grade": "C"})
_NEX = ("LatticePlatform", {"device": "LIFCL-40", "package": "BG400", "speed": "8", "grade": "C"})
_GOW = ("GowinPlatform", {"part": "GW1N-LV1QN48C6/I5", "family": "GW1N-1"})
_ALT = ("AlteraPlatform", {"device": "5CSEMA4", "package": "U23", "speed": "C6"})
_X7 = ("XilinxPlatform", {"device": "xc7a35t", "package": "cpg236", "speed": "1"})
_X6 = ("XilinxPlatform", {"device": "xc6slx9", "package": "tqg144", "speed": "2"})
_QL = ("QuicklogicPlatform", {"device": "ql-eos-s3", "package": "wlcsp", "osc_freq": 10_000_000, "osc_div": 2})
PLATFORM_SPECS = {
    "ice40":             (*_ICE, "IceStorm", [(".pcf", "pcf")], True, False, False),
    "ecp5":              (*_ECP, "Trellis", [(".lpf", "lpf")], True, True, False),
    "gowin":             (*_GOW, "Apicula", [(".cst", "cst")], False, True, False),
    "machxo2-trellis":   (*_XO2, "Trellis", [(".lpf", "lpf")], True, True, False),
    "nexus-oxide":       (*_NEX, "Oxide", [(".pdc", "tcl")], True, True, False),
    "altera-mistral":    (*_ALT, "Mistral", [(".qsf", "tcl")], False, True, False),
    "ice40-lse":         (*_ICE, "LSE-iCECube2", [(".pcf", "pcf"), (".sdc", "tcl")], True, False, True),
    "ice40-synplify":    (*_ICE, "Synplify-iCECube2", [(".pcf", "pcf"), (".sdc", "tcl")], True, False, True),
    "ecp5-diamond":      (*_ECP, "Diamond", [(".lpf", "lpf"), (".sdc", "tcl-diamond")], True, True, True),
    "machxo2-diamond":   (*_XO2, "Diamond", [(".lpf", "lpf"), (".sdc", "tcl-diamond")], True, True, True),
    "nexus-radiant":     (*_NEX, "Radiant", [(".pdc", "tcl"), (".sdc", "tcl")], True, True, True),
    "gowin-gowin":       (*_GOW, "Gowin", [(".cst", "cst"), (".sdc", "tcl-gowin")], True, True, True),
    "altera-quartus":    (*_ALT, "Quartus", [(".qsf", "tcl"), (".sdc", "tcl")], True, True, True),
    "xilinx7-vivado":    (*_X7, "Vivado", [(".xdc", "tcl")], True, True, True),
    "xilinx7-symbiflow": (*_X7, "Symbiflow", [(".pcf", "pcf"), (".xdc", "tcl"), (".sdc", "tcl-escaped")], True, True, True),
    "xilinx7-xray":      (*_X7, "Xray", [(".xdc", "tcl")], False, True, True),
    "xilinx6-ise":       (*_X6, "ISE", [(".ucf", "ucf")], True, True, True),
    "quicklogic":        (*_QL, None, [(".pcf", "pcf"), (".xdc", "tcl"), (".sdc", "tcl-escaped")], True, True, True),
}
TEMPLATE_PLATFORMS = [k for k in PLATFORM_SPECS if k not in PLATFORMS]


def _extract(fmt, text):
    if fmt == "pcf":
        return R.extract_pcf(text)
    if fmt == "lpf":
        return R.extract_lpf(text)
    if fmt == "cst":
        return R.extract_cst(text)
    if fmt == "ucf":
        return R.extract_ucf(text)
    if fmt == "tcl":
        return R.extract_tcl(text)
    if fmt == "tcl-diamond":
        return R.extract_tcl(text, diamond=True)
    if fmt == "tcl-gowin":
        return R.extract_tcl(text, comment="//")
    if fmt == "tcl-escaped":
        return R.extract_tcl(text)
    raise ValueError(fmt)


class _Capture:
    """harness-side interception (nothing in /repo is touched): records the RTLIL text the platform generated (the
    vendor flows do not put it into the plan) and, where the plan needs Yosys only to turn that RTLIL into Verilog,
    replaces that conversion by a placeholder so that the constraint / script templates still render"""
    def __init__(self, stub_verilog):
        self.stub_verilog, self.rtlil = stub_verilog, None

    def __enter__(self):
        from amaranth.back import rtlil, verilog
        self._rtlil, self._verilog = rtlil, verilog
        self._orig_cf, self._orig_cv = rtlil.convert_fragment, verilog._convert_rtlil_text

        def convert_fragment(*args, **kwargs):
            out = self._orig_cf(*args, **kwargs)
            self.rtlil = out[0]
            return out
        rtlil.convert_fragment = convert_fragment
        if self.stub_verilog:
            verilog._convert_rtlil_text = lambda text, **kw: "/* Verilog not rendered: no Yosys in this environment */"
        return self

    def __exit__(self, *exc):
        self._rtlil.convert_fragment, self._verilog._convert_rtlil_text = self._orig_cf, self._orig_cv


def _make_platform(kind, table):
    import amaranth.vendor as vendor
    resources, connectors = G.build_objects(table)
    clsname, attrs, toolchain, files, has_clocks, has_attrs, needs_verilog = PLATFORM_SPECS[kind]
    cls = type("P", (getattr(vendor, clsname),), {**attrs, "resources": resources, "connectors": connectors})
    plat = cls(toolchain=toolchain) if toolchain else cls()
    return plat, files, has_clocks, has_attrs, needs_verilog


def run_e2e(kind, table, history, net_clock=None):
    """-> dict(errs [(kind, text)], counts)"""
    from amaranth.hdl import Module, Signal, Cat, Instance, Elaboratable
    from amaranth.lib import io
    plat, file_specs, has_clocks, has_attrs, needs_verilog = _make_platform(kind, table)
    box = {"granted": [], "hist": None}
    ice40 = kind.startswith("ice40")

    class Top(Elaboratable):
        def elaborate(self, platform):
            m = Module()
            ins, outs = [], []

            def on_grant(i, a, obj, ports):
                for path, leaf, port, eff_d in ports:
                    tag = f"b{i}_" + "_".join(path)
                    box["granted"].append((i, path, leaf, port, tag if eff_d == "-" else None))
                    if eff_d == "-":
                        d = R.PORT_DIR[leaf["dir"]]
                        if d == "io" and leaf["kind"] == "diff" and ice40:
                            d = "i"                     # iCE40 has no bidirectional differential buffer
                        buf = io.Buffer(d, port)
                        m.submodules[tag] = buf
                        if d in ("i", "io"):
                            ins.append(buf.i)
                        if d in ("o", "io"):
                            outs.append(buf.o)
                        if d == "io":
                            outs.append(buf.oe)
                    else:
                        pin = obj
                        for name in path:
                            pin = getattr(pin, name)
                        for f in ("i",):
                            if eff_d in ("i", "io"):
                                ins.append(getattr(pin, f))
                        if eff_d in ("o", "oe", "io"):
                            outs.append(pin.o)
                        if eff_d in ("oe", "io"):
                            outs.append(pin.oe)
            box["hist"] = run_history(table, history, rm=platform, on_grant=on_grant)
            src = Signal(max(1, sum(len(o) for o in outs)))
            m.submodules.src = Instance("VF_SRC", o_q=src)
            if net_clock is not None:       # a clock constraint on an internal net (not a resource)
                netclk = Signal(name=NETCLK)
                m.submodules.osc = Instance("VF_OSC", o_clk=netclk)
                ins.append(netclk)
                platform.add_clock_constraint(netclk, G.period_of(net_clock))
            off = 0
            for o in outs:
                m.d.comb += o.eq(src[off:off + len(o)])
                off += len(o)
            m.submodules.sink = Instance("VF_SINK", i_d=Cat(ins) if ins else Signal())
            return m

    res = {"errs": [], "bits": 0, "clocks": 0, "ports": 0, "attrs": 0, "quoted": 0, "quoted_special": 0, "hist": None}
    try:
        with _Capture(needs_verilog) as cap:
            plan = plat.build(Top(), name="top", do_build=False)
    except Exception as e:
        if box["hist"] is not None and (box["hist"]["mismatch"] or box["hist"]["port_errs"]):
            res["hist"] = box["hist"]
            return res
        res["hist"] = box["hist"]
        res["errs"].append(("prepare-raises", f"prepare() raised {type(e).__name__}"))
        return res
    res["hist"] = box["hist"]
    files = {k: (v if isinstance(v, str) else v.decode()) for k, v in plan.files.items()}
    loc, attrs_got, freq, escaped_names = [], [], [], False
    try:
        for suffix, fmt in file_specs:
            ex = _extract(fmt, files["top" + suffix])
            loc += ex["loc"]
            attrs_got += ex["attrs"]
            freq += ex["freq"]
            escaped_names |= fmt == "tcl-escaped"
            res["quoted"] += len(ex.get("quoted", ()))
            res["quoted_special"] += sum(1 for q in ex.get("quoted", ()) if "[" in q or "$" in q)
            for raw in ex["quote_errs"]:
                res["errs"].append(("tcl-quote", f"top{suffix}: the quoted word {raw} contains a live substitution "
                                                 f"(unescaped [ or $ after decoding the backslash escapes)"))
        top_ports = R.parse_top_ports(cap.rtlil)
        top_cells = R.parse_top_cells(cap.rtlil)
    except (R.ParseError, KeyError, TypeError, ValueError) as e:
        res["errs"].append(("unparsable", f"constraint file / netlist not parsable: {type(e).__name__}: {str(e)[:80]}"))
        return res
    if not has_clocks:
        freq = None
    phys = _phys_of(table)                  # general invariant: a constraint file only ever names physical pins
    for bit, pin in loc:
        if pin not in phys or ":" in pin:
            res["errs"].append(("non-physical-pin", f"constraint file assigns {bit} to {pin!r}, which is not a physical pin of the platform"))
    if box["hist"]["mismatch"]:
        return res
    # observed: name of the IOPort objects handed out for granted leaves; declared: their pins (reference)
    cmap = R.connector_map(table)
    # Which top-level port of the platform's own RTLIL (names as the netlist has them, `$N` suffixes included) belongs to
    # which granted leaf: through the netlist structure for dir="-" leaves (the top-level wires connected to the buffer
    # submodule this design instantiated for that leaf; a wire is the leaf's io / p / n half if it carries that I/O
    # port's name, possibly made unique), by name for the deprecated pin path (names must then be unique).
    decl, clocks, decl_attrs = {}, {}, {}
    resnode = {(r["name"], r["number"]): r["node"] for r in table["resources"]}
    top_names_all = {n for n, _w in top_ports}
    for i, path, leaf, port, tag in box["granted"]:
        pins = R.leaf_pins(leaf, cmap)
        halves = [("io", port.io)] if leaf["kind"] == "pins" else [("p", port.p), ("n", port.n)]
        want_attrs_leaf = R.expected_attrs(resnode[history[i]["name"], history[i]["number"]], path)
        first_wire = None
        for half, iop in halves:
            if tag is not None:
                wires = sorted({w for w in top_cells.get(tag, []) if w in top_names_all and R.strip_dedup(w) == iop.name})
                if len(wires) > 1:
                    res["errs"].append(("port-mapping", f"buffer {tag} is connected to several top-level ports {wires}"))
                    continue
                if not wires:
                    continue                    # this half is not a top-level port on this platform (e.g. n side of an input pair)
                wire = wires[0]
            else:
                wire = iop.name
            if wire in decl:
                res["errs"].append(("duplicate-port-name", f"two granted ports are both called {wire} in the netlist"))
            decl[wire] = pins[half]
            decl_attrs[wire] = want_attrs_leaf
            first_wire = first_wire or wire
        if leaf.get("clock_mhz") and first_wire is not None and (tag is None or halves[0][1].name == R.strip_dedup(first_wire)):
            clocks[first_wire] = R.clock_hz(leaf["clock_mhz"])
    want, want_attrs = {}, {}
    for name, width in top_ports:
        if name not in decl:
            res["errs"].append(("unknown-top-port", f"top-level port {name} does not belong to a granted request"))
            continue
        res["ports"] += 1
        if width != len(decl[name]):
            res["errs"].append(("port-width", f"top-level port {name} is {width} wide, {len(decl[name])} pins declared"))
            continue
        for bit, pin in zip(R.bit_names(name, width), decl[name]):
            want[bit] = pin
            want_attrs[bit] = decl_attrs[name]
    got = {}
    for bit, pin in loc:
        got.setdefault(bit, []).append(pin)
    for bit, pin in want.items():
        res["bits"] += 1
        g = got.get(bit, [])
        if g != [pin]:
            res["errs"].append(("pin", f"port bit {bit} is declared on pin {pin}, constraint file assigns {g}"))
    for bit in got:
        if bit not in want:
            res["errs"].append(("extra-pin-constraint", f"constraint for {bit} -> {got[bit]} but no such top-level port bit"))
    if has_attrs:
        got_attrs = {}
        for bit, k, v in attrs_got:
            got_attrs.setdefault(bit, []).append((k, v))
        for bit, wa in want_attrs.items():
            res["attrs"] += 1
            ga = got_attrs.get(bit, [])
            if sorted(ga) != sorted(wa.items()):
                res["errs"].append(("attrs", f"port bit {bit} declares attributes {wa}, constraint files carry {ga}"))
        for bit in got_attrs:
            if bit not in want_attrs:
                res["errs"].append(("extra-attr-constraint", f"attributes {got_attrs[bit]} for {bit} but no such top-level port bit"))
    esc = R.ascii_escape if escaped_names else (lambda x: x)
    if freq is not None:
        top_names = {esc(n) for n, _w in top_ports}
        clocks = {esc(n): hz for n, hz in clocks.items()}
        gotf = {}
        for name, hz in freq:
            gotf.setdefault(name, []).append(hz)
        for name, hz in clocks.items():
            if name not in top_names:
                continue
            res["clocks"] += 1
            g = gotf.get(name, [])
            if len(g) != 1 or abs(g[0] - hz) > 1e-6 * hz:
                res["errs"].append(("clock", f"clock port {name} declared {hz} Hz, constraint file has {g}"))
        net_seen = 0
        for name in gotf:
            if net_clock is not None and name not in top_names and name == esc(NETCLK):
                net_seen += 1
                hz = R.clock_hz(net_clock)
                res["clocks"] += 1
                if len(gotf[name]) != 1 or abs(gotf[name][0] - hz) > 1e-6 * hz:
                    res["errs"].append(("net-clock", f"clock net {name} constrained to {hz} Hz, constraint file has {gotf[name]}"))
            elif name not in clocks or name not in top_names:
                res["errs"].append(("extra-clock-constraint",
                                    f"clock constraint {gotf[name]} Hz on {name}, which is not a declared clock of a granted port of the design"))
        if net_clock is not None and net_seen != 1:
            res["errs"].append(("net-clock", f"{net_seen} constraints name the constrained clock net {NETCLK}"))
    return res


def e_histories(kind, table, maxlen, pin_path):
    """every permutation of every subset (size <= maxlen) of the resources, once with dir="-" everywhere and once
    alternating the deprecated default-direction (Pin + automatic buffer) path with dir="-" """
    keys = [(r["name"], r["number"]) for r in table["resources"]]
    no_pin = set()
    if kind.startswith("ice40"):   # iCE40 has no bidirectional differential buffer: keep those resources on the port path
        for r in table["resources"]:
            if any(l["kind"] == "diff" and l["dir"] == "io" for _p, l in R.leaves(r["node"])):
                no_pin.add((r["name"], r["number"]))
    out = []
    for n in range(1, min(maxlen, len(keys)) + 1):
        for perm in itertools.permutations(keys, n):
            out.append([{"name": k[0], "number": k[1], "dir": "-", "xdr": None} for k in perm])
            if pin_path:
                out.append([{"name": k[0], "number": k[1], "dir": None if j % 2 == 0 and k not in no_pin else "-", "xdr": None}
                            for j, k in enumerate(perm)])
    return out


def w_e2e(task):
    kind, tables, pin_path = task
    cov = {"e2e_builds": 0, "e2e_port_bits_checked": 0, "e2e_clock_constraints_checked": 0, "e2e_top_ports": 0,
           "e2e_attr_sets_checked": 0, "e2e_tcl_quoted_words_checked": 0, "e2e_tcl_quoted_words_with_bracket_or_dollar": 0,
           "e2e_builds_with_refused_request": 0, "transitions": 0, "mismatches": 0, "traces_validated_against_impl": 0}
    out = {"cov": cov, "samples": [], "violations": [], "flags": set()}
    for table, maxlen, *rest in tables:
        nv = 0
        net_clock = rest[0] if rest else None
        table_pin_path = pin_path and not (len(rest) > 1 and rest[1].get("no_pin_path"))
        for hist in e_histories(kind, table, maxlen, table_pin_path):
            r = run_e2e(kind, table, hist, net_clock)
            cov["e2e_builds"] += 1
            cov["e2e_port_bits_checked"] += r["bits"]
            cov["e2e_clock_constraints_checked"] += r["clocks"]
            cov["e2e_top_ports"] += r["ports"]
            cov["e2e_attr_sets_checked"] += r["attrs"]
            cov["e2e_tcl_quoted_words_checked"] += r["quoted"]
            cov["e2e_tcl_quoted_words_with_bracket_or_dollar"] += r["quoted_special"]
            h = r["hist"]
            viol = []
            if h is not None:
                cov["transitions"] += h["steps"]
                out["flags"] |= h["flags"]
                if any(f.startswith("refuse:") for f in h["flags"]):
                    cov["e2e_builds_with_refused_request"] += 1
                if h["mismatch"]:
                    mm = h["mismatch"]
                    viol.append((f"want={mm['want']},got={mm['got']}", f"request #{mm['step'] + 1}: reference says {mm['want']} ({mm['why']}), real code: {mm['got']}"))
                for step, errs in h["port_errs"]:
                    viol.append(("port:" + errs[0].split(":")[0], f"request #{step + 1}: {errs}"))
            for k, text in r["errs"]:
                viol.append((k, text))
            if not viol:
                cov["traces_validated_against_impl"] += 1
            for k, text in viol[:3]:
                cov["mismatches"] += 1
                if nv < MAX_V_PER_TABLE:
                    nv += 1
                    out["violations"].append({
                        "sig": _sig("E:" + kind, table, hist, k),
                        "what": f"{kind} prepare() with requests {[G.action_tag(a) for a in hist]} on table {G.table_tag(table)}: {text}",
                        "payload": {"family": "E", "platform": kind, "table": table, "history": hist, "net_clock": net_clock}})
        if cov["e2e_builds"] and not out["samples"]:
            out["samples"].append({"family": "E", "platform": kind, "table": G.table_tag(table),
                                   "history": [G.action_tag(a) for a in hist], "port_bits_checked": r["bits"]})
    out["flags"] = sorted(out["flags"])
    return out


# ------------------------------------------------------------------ driver
def _dispatch(t):
    import time
    t0 = time.process_time()
    tag, part = ("hist:" + t[1][0], w_histories(t[1])) if t[0] == "hist" else ("e2e:" + t[1][0], w_e2e(t[1]))
    part["cpu"] = time.process_time() - t0
    return tag, part


def _self_test():
    """the hand-written inverse connector tables of the generator agree with the reference resolution"""
    cmap = R.connector_map({"connectors": G.CONNECTORS})
    for lv, (conn, inv) in G.VIA.items():
        for phys, cpin in inv.items():
            assert R.resolve_name(f"{conn[0]}_{conn[1]}:{cpin}", cmap) == phys, (lv, phys)


def families(rep):
    """-> {family: (tables, history length)}; E: [(table, max history length)]"""
    q = rep.quick
    fam = {}
    s1 = G.structures(1, G.SHAPES)
    s2 = G.structures(2, G.SHAPES[:5] if q else G.SHAPES)      # quick: pairs over P1/P2/D1/G11/G12
    s3small = G.structures(3, ["P1", "G11"])
    if q:
        s3 = s3small
    else:       # all 3-resource tables over P1/P2/D1/G11 + those with one 3-pin shape (G12, G1D, nested) and two single pins
        s3 = G.structures(3, ["P1", "P2", "D1", "G11"]) + \
             [s for big in ("G12", "G1D", "N") for s in G.structures(3, ["P1", big]) if sum(sh == big for sh, _ in s) == 1]
    structs = s1 + s2 + s3
    fam["S"] = ([G.s_table(s, i) for i, s in enumerate(structs)], 3)
    if not q:
        fam["S4"] = ([G.s_table(s, i) for i, s in enumerate(s1 + s2)], 4)
    d1 = G.d1_tables()
    fam["D1"] = (d1, rep.pick(2, 3))
    fam["D2"] = (G.d2_tables(), 2)
    fam["X"] = (G.x_tables(), 3)
    fam["XC"] = (G.xc_tables(), rep.pick(2, 3))          # connector chains (string / dict forms) with dead ends at every hop
    # end to end: 1-/2-resource structures and the 3-resource ones over P1/G11 (every permutation of every subset of
    # the resources), plus decoration tables (clocks / attrs / connector depth / inversion; permutations of <=2 of
    # r and its probes). The quick tier takes every 12th / 450th table of these lists (fixed stride, no randomness).
    e_structs = s1 + s2 + s3small
    e_tables = [(G.s_table(s, i + 1), 3) for i, s in enumerate(e_structs)]
    e_d1 = [(t, 2) for t in d1]
    # EC (both tiers, complete): every declared clock of G.CLOCKS (fractional / sub-MHz / period-given) on a single pin,
    # a diff pair and a subsignal, plus a clock constraint on an internal net; one request, both request paths
    ec = [(t, 1, G.CLOCKS[(k + 7) % len(G.CLOCKS)]) for k, t in enumerate(G.ec_tables())]
    # ET (templates): every other platform / toolchain whose plan renders offline (see PLATFORM_SPECS): the EC tables and
    # every 300th (40th thorough) decoration table without its probes (multi-bit ports, attributes at both levels,
    # connector depths, diff pairs), each with a clock on the internal net "vf$netclk"; one request, both request paths
    et = ec + [({**t, "resources": t["resources"][:1]}, 1, G.CLOCKS[k % len(G.CLOCKS)]) for k, t in enumerate(d1[::300 if q else 40])]
    fam["ET"] = (et, None)
    fam["E"] = ((e_tables[::12] + e_d1[::450] if q else e_tables + e_d1[::40]) + ec, None)
    # dead-end connector chains end to end (every 37th XC table; thorough: every 7th): the refused resource must leave no
    # trace in the constraint files, which may only name physical pins
    fam["E"] = (fam["E"][0] + [(t, 2) for t in fam["XC"][0][5::37 if q else 7]], None)
    # EN (both tiers, complete): different resources whose ports get the same generated name, requested in every order
    # (dir="-"), on every platform / toolchain that renders
    fam["EN"] = ([(t, 2, None, {"no_pin_path": True}) for t in G.en_tables()], None)
    return fam


def run(rep):
    _self_test()
    fam = families(rep)
    tasks = []
    for name in ("S", "S4", "D1", "D2", "X", "XC"):
        if name not in fam:
            continue
        tables, L = fam[name]
        f = "S" if name == "S4" else name
        per = {"S": 8, "S4": 2, "D1": 100, "D2": 1, "X": 4, "XC": 80}[name]
        for ch in chunks(tables, per):
            tasks.append(("hist", (f, ch, L, rep.quick)))
    e_tables, _ = fam["E"]
    for kind in PLATFORMS:
        for ch in chunks(e_tables, 3):
            tasks.append(("e2e", (kind, ch, True)))
    for kind in TEMPLATE_PLATFORMS:
        for ch in chunks(fam["ET"][0], 15):
            tasks.append(("e2e", (kind, ch, True)))
    for kind in PLATFORM_SPECS:
        tasks.append(("e2e", (kind, fam["EN"][0], True)))
    tasks = rotate(tasks, rep.seed)
    allflags, by_family, viols, samples = set(), {}, [], {}
    for tag, part in pmap(_dispatch, tasks, rep.procs):
        allflags.update(part.pop("flags"))
        d = by_family.setdefault(tag, {})
        d["cpu_s"] = round(d.get("cpu_s", 0) + part.pop("cpu"), 1)
        for k, v in part["cov"].items():
            d[k] = d.get(k, 0) + v
        viols += part.pop("violations")
        for smp in part.pop("samples"):
            samples.setdefault((smp.get("family"), smp.get("platform")), smp)
        rep.merge(part)
    for smp in samples.values():
        rep.sample(smp, limit=20)
    # report one violation of every kind first (the runner prints the first 8 distinct signatures)
    bykind = {}
    for v in sorted(viols, key=lambda v: (len(v["sig"]), v["sig"])):
        bykind.setdefault(v["sig"].split("|")[0].split(":")[0] + "|" + v["sig"].rsplit("|", 1)[1], []).append(v)
    order = []
    for rank in range(max([len(x) for x in bykind.values()] + [0])):
        for k in sorted(bykind):
            if rank < len(bykind[k]):
                order.append(bykind[k][rank])
    for v in order[:400]:
        rep.violation(v["sig"], v["what"], v["payload"])
    rep.setcov("violation_kinds", {k: len(v) for k, v in bykind.items()})
    rep.setcov("by_family", by_family)
    rep.setcov("flags_seen", sorted(allflags))
    rep.setcov("exhaustive", True)
    rep.setcov("exhaustive_note", "history families S/D1/D2/X: complete inside the bounds below in both tiers; E: complete set of "
               "request permutations per table; the E table list is the full structure list + every 40th decoration table "
               "(thorough) or every 12th / 450th entry of those lists (quick), a fixed stride, never random")
    rep.setcov("rule", "every request history of the stated length over the action alphabet of every table of the families "
               "S (<=3 resources over 7 shapes x injective pin tuples from 4 pins, modulo pin renaming), D1 (all decorations of one "
               "resource + probes), D2 (all dir x xdr overrides), X (dangling connector pins) is executed on a fresh real "
               "ResourceManager in lock step with the reference allocator; states = distinct (table, granted set, pin->owner map); "
               "E: every permutation of every subset of the resources requested inside elaborate() of a design prepared for "
               "iCE40 (.pcf), ECP5 (.lpf), Gowin (.cst), constraint files parsed and compared with the top-level ports of the RTLIL; "
               "ET: the same oracle (pins, attributes, clocks, exactly once) on 15 further platform/toolchain template sets, whose Tcl "
               "files are read with a Tcl word reader: every double-quoted word must decode without a live [ or $ substitution; "
               "clock constraints (port and internal net) are parsed as numbers and compared with the declared frequency to 1e-6 relative")
    rep.setcov("bounds", {"pins": 4, "resources_per_table": 3, "history_length": {k: v[1] for k, v in fam.items() if v[1]},
                          "tables": {k: len(v[0]) for k, v in fam.items()}, "connector_chain_depth": 3})
    need = ["grant", "refuse:already", "refuse:conflict", "refuse:illegal", "refuse:missing", "refuse:dangling",
            "grant-after-refused:conflict", "grant-after-refused:illegal",
            "port:single", "port:diff", "port:group", "port:pinpath", "inverted", "clock",
            "conn-depth-0", "conn-depth-1", "conn-depth-2", "conn-depth-3"]
    for f in need:
        rep.require(f in allflags, f"antecedent {f} never exercised")
    rep.require("either:granted" in allflags or "either:refused" in allflags, "xdr>2 requests never exercised")
    rep.require(rep.cov.get("e2e_port_bits_checked", 0) > 0 and rep.cov.get("e2e_clock_constraints_checked", 0) > 0,
                "end-to-end: no constraint bits / clock constraints were compared")
    rep.require(any(R.clock_hz(c) % 1e6 for c in G.CLOCKS) and any(R.clock_hz(c) < 1e6 for c in G.CLOCKS),
                "declared clocks contain no fractional-MHz / sub-MHz frequency")
    rep.setcov("declared_clocks_hz", sorted(round(R.clock_hz(c), 3) for c in G.CLOCKS))
    rep.require(rep.cov.get("e2e_builds_with_refused_request", 0) > 0, "end-to-end: no build contained a refused request")
    rep.require(rep.cov.get("e2e_attr_sets_checked", 0) > 0, "end-to-end: no attribute sets were compared")
    rep.require(rep.cov.get("e2e_tcl_quoted_words_with_bracket_or_dollar", 0) > 0,
                "end-to-end: no Tcl-quoted name containing [ or $ was decoded")
    rep.setcov("platforms", {k: {"toolchain": v[2], "files": [f for f, _ in v[3]], "clocks_rendered": v[4], "attrs_rendered": v[5],
                                 "verilog_conversion_stubbed": v[6]} for k, v in PLATFORM_SPECS.items()})
    rep.assume("toolchains whose plan contains Verilog (iCECube2, Diamond, Radiant, Gowin IDE, Quartus, Vivado, ISE, Symbiflow, "
               "Xray, QuickLogic) need Yosys to *run* (RTLIL -> Verilog); the harness replaces that one conversion by a placeholder "
               "so that their constraint / script templates render; the RTLIL the platform generated is captured for the port list")
    rep.assume("Diamond reads SDC names with one extra level of backslash escaping (quirk stated in build/plat.py): its quoted "
               "words are un-doubled before Tcl decoding")
    rep.assume("the Apicula flow renders no timing constraint file, so declared clocks are compared for iCE40 and ECP5 only; "
               "the vendor (non open) toolchain templates need Yosys to render and are not covered")
    rep.assume("data rates above 2 are platform specific: both outcomes are accepted, the allocation must follow the outcome")


def replay(payload):
    table, hist = payload["table"], payload["history"]
    msgs = []
    if payload.get("family") == "E":
        r = run_e2e(payload["platform"], table, hist, payload.get("net_clock"))
        h = r["hist"]
        msgs += [f"{k}: {t}" for k, t in r["errs"]]
    else:
        h = run_history(table, hist)
    if h is not None:
        if h["mismatch"]:
            mm = h["mismatch"]
            msgs.append(f"request #{mm['step'] + 1} {G.action_tag(hist[mm['step']])}: reference says {mm['want']} ({mm['why']}), real code: {mm['got']}")
        for step, errs in h["port_errs"]:
            msgs.append(f"request #{step + 1}: {errs}")
    return msgs
