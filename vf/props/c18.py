"""C18 I/O buffers apply direction, inversion and registering exactly per bit.

Four legs, all bounded-exhaustive on the real code:
  A  port algebra: every expression of depth <= 2 over `~`, `[k]`, `[a:b:c]`, `+` on SimulationPort /
     SingleEndedPort / DifferentialPort against a tuple algebra (width, direction, inversion, wire per bit)
  B  Buffer on simulation ports: every (o, oe, pad input) valuation in the real simulator
  C  FFBuffer on simulation ports: BFS over (o, oe, pad, clock pulses[, reset]) in product with one register per direction
  D  real I/O ports: netlist (hdl._nir) and RTLIL text evaluated for every (o, oe, pad) valuation, every port
     bit used by exactly one buffer cell, double use -> DriverConflict
"""
import itertools
import warnings

from ..core.pool import pmap, rotate, chunks
from ..ref.c18_ref import (ref, term_str, slice_keys, apply_key, legal_buffer, term_width)
from ..gen.c18_ports import make_bases, build, observe, expected_observation, wire_index

ID = "C18"
LEVEL = "exploration"

KINDS = ("sim", "se", "diff")
DIRS = ("i", "o", "io")


def all_bases(maxw=3, minw=0):
    return [[w, mask, d] for w in range(minw, maxw + 1) for mask in range(1 << w) for d in DIRS]


def _new_out():
    return {"cov": {"evaluations": 0, "distinct_nontrivial": 0}, "samples": [], "violations": []}


def _viol(out, sig, what, payload):
    if len(out["violations"]) < 40:
        out["violations"].append({"sig": sig, "what": what, "payload": payload})
    out["cov"]["violating_cases"] = out["cov"].get("violating_cases", 0) + 1


def _inc(out, key, n=1):
    out["cov"][key] = out["cov"].get(key, 0) + n


# =============================================================================================== leg A
def check_term(term, bases, kind, out, objs=None, widx=None):
    """one port expression: exception class / (type, len, direction, invert, wires) against the reference"""
    if objs is None:
        objs = make_bases(bases, kind)
        widx = wire_index(objs)
    want = ref(term, bases)
    out["cov"]["evaluations"] += 1
    try:
        port = build(term, objs)
        got = ("ok", observe(port, objs, widx))
    except Exception as e:      # noqa: BLE001 -- the class is what is compared
        got = ("exc", type(e).__name__)
    if want[0] == "exc":
        _inc(out, "algebra_rejections")
        ok = got == want
        exp = want
    else:
        exp = ("ok", expected_observation(_term_kind(term, bases, kind), want[1], want[2]))
        ok = got == exp
        if len(want[2]) >= 1 and term[0] != "b":
            out["cov"]["distinct_nontrivial"] += 1
        if any(inv for _b, _j, inv in want[2]) and not all(inv for _b, _j, inv in want[2]):
            _inc(out, "algebra_mixed_inversion_results")
    if not ok:
        ts = term_str(term, bases)
        _viol(out, f"algebra:{kind}:{ts}", f"port expression {ts} on {kind} ports: got {got}, reference {exp}",
              {"leg": "algebra", "kind": kind, "bases": bases, "term": term})
    return want


def _term_kind(term, bases, kind):
    while term[0] != "b":
        term = term[1]
    b = bases[term[1]]
    return b[3] if len(b) > 3 else kind


def algebra_terms(family, bases, sel, steps, small):
    """generator of the terms of one task. `sel` = indices of the outer base(s) handled by this task;
    `small` = indices of the reduced base pool used for the d1 + d1' family."""
    B = range(len(bases))
    W = lambda t: term_width(t, bases)

    quick = len(steps) <= 2

    def unary(t, margin=1):
        w = W(t)
        if w is None:
            return
        yield ["inv", t]
        for key in slice_keys(w, steps, margin):
            yield apply_key(t, key)

    if family == "u":          # b, u(b), u(u(b))
        for k in sel:
            b = ["b", k]
            yield b
            for d1 in unary(b):
                yield d1
                yield from unary(d1, 0 if quick else 1)     # quick tier: out-of-range clipping only at depth 1
    elif family == "a":        # b1+b2, u(b1+b2), (b1+b2)+b3, b3+(b1+b2)
        for k1 in sel:
            for k2 in B:
                t = ["add", ["b", k1], ["b", k2]]
                yield t
                yield from unary(t, 0 if quick else 1)
                for k3 in (small if len(steps) == 1 else B):      # quick tier: third operand from the reduced pool
                    yield ["add", t, ["b", k3]]
                    yield ["add", ["b", k3], t]
    elif family == "m":        # u(b1)+b2, b2+u(b1)
        for k1 in sel:
            for d1 in unary(["b", k1]):
                for k2 in (small if len(steps) == 1 else B):      # quick tier: second operand from the reduced pool
                    yield ["add", d1, ["b", k2]]
                    yield ["add", ["b", k2], d1]
    elif family == "dd":       # d1 + d1' with both operands of depth 1, over the reduced base pool
        def d1s(ks):
            for k in ks:
                yield from unary(["b", k])
            for k in ks:
                for k2 in small:
                    yield ["add", ["b", k], ["b", k2]]
        right = list(d1s(small))
        for l in d1s(sel):
            for r in right:
                yield ["add", l, r]
    else:
        raise ValueError(family)


def w_algebra(task):
    kind, family, sel, maxw, steps, small = task
    warnings.simplefilter("ignore")
    out = _new_out()
    bases = all_bases(maxw)
    objs = make_bases(bases, kind)
    widx = wire_index(objs)
    n = 0
    for term in algebra_terms(family, bases, sel, steps, small):
        check_term(term, bases, kind, out, objs, widx)
        n += 1
    _inc(out, "algebra_expressions", n)
    _inc(out, f"algebra_{kind}", n)
    return out


def w_algebra_mixed(task):
    """`+` between different port classes is a TypeError (PortLike.__add__ docs), at depth 1 and 2"""
    (maxw,) = task
    warnings.simplefilter("ignore")
    out = _new_out()
    n = 0
    shapes = [[w, mask, d] for w in range(0, maxw + 1) for mask in sorted({0, (1 << w) - 1}) for d in DIRS]
    for ka, kb in itertools.permutations(KINDS, 2):
        for a in shapes:
            for b in shapes:
                bases = [a + [ka], b + [kb]]
                for t in (["add", ["b", 0], ["b", 1]], ["add", ["inv", ["b", 0]], ["b", 1]],
                          ["add", ["b", 0], ["sl", ["b", 1], None, None, None]], ["inv", ["add", ["b", 0], ["b", 1]]]):
                    check_term(t, bases, ka, out)
                    n += 1
    _inc(out, "algebra_expressions", n)
    _inc(out, "algebra_mixed_kind", n)
    return out


def algebra_tasks(rep):
    steps = rep.pick((None, -1), (None, 1, -1, 2, -2, 3))
    maxw = 3
    nb = len(all_bases(maxw))
    small_w = rep.pick(1, 2)
    small = [k for k, b in enumerate(all_bases(maxw)) if b[0] <= small_w]
    tasks = []
    for kind in KINDS:
        for k in range(nb):
            tasks.append(("A", (kind, "u", [k], maxw, steps, small)))
            tasks.append(("A", (kind, "m", [k], maxw, (None,) if rep.quick else steps, small)))
            tasks.append(("A", (kind, "a", [k], maxw, (None,) if rep.quick else steps, small)))
        for k in small:
            tasks.append(("A", (kind, "dd", [k], maxw, (None,) if rep.quick else (None, -1, 2), small)))
    tasks.append(("Amix", (2,)))
    return tasks


# =============================================================================================== leg B
def _bit(v, k):
    return (v >> k) & 1


def _sim_case(case, out):
    """Buffer on a simulation-port expression: construction legality, then every (o, oe, pad) valuation"""
    from amaranth.hdl import Module, Cat
    from amaranth.lib import io
    from ..sim.driver import elaborate, run_in_testbench
    bases, term, bufdir = case["bases"], case["term"], case["bufdir"]
    want = ref(term, bases)
    assert want[0] == "ok"
    _ok, pdir, bits = want
    n = len(bits)
    ts = term_str(term, bases)
    tag = f"Buffer({bufdir}) on sim {ts}"
    objs = make_bases(bases, "sim")
    port = build(term, objs)
    out["cov"]["evaluations"] += 1
    try:
        buf = io.Buffer(bufdir, port)
        got = "ok"
    except Exception as e:      # noqa: BLE001
        got = type(e).__name__
    legal = legal_buffer(pdir, bufdir)
    if not legal:
        _inc(out, "sim_illegal_pairs")
    if got != ("ok" if legal else "ValueError"):
        _viol(out, f"simbuf:construct:{bufdir}:{ts}", f"{tag}: construction gave {got}, docs say "
              f"{'accepted' if legal else 'ValueError'} (port direction {pdir})", case)
        return
    if not legal:
        return
    _inc(out, "sim_buffers_simulated")
    sigerr = []
    for name, present, width in (("i", bufdir != "o", n), ("o", bufdir != "i", n), ("oe", bufdir != "i", 1)):
        has = name in buf.signature.members
        if has != present or (has and len(getattr(buf, name)) != width):
            sigerr.append(name)
    if sigerr:
        _viol(out, f"simbuf:signature:{bufdir}:{ts}", f"{tag}: members {sigerr} do not match Signature(direction, {n})", case)
        return
    m = Module()
    m.submodules.buf = buf
    frag = elaborate(m)
    drive = bufdir != "i"
    sense = bufdir != "o"
    ins, outs = [], []          # (label, signal, width)
    if drive:
        ins += [("o", buf.o, n), ("oe", buf.oe, 1)]
    pads = [(k, objs[k].i, bases[k][0]) for k in range(len(bases)) if bases[k][2] in ("i", "io")] if sense else []
    for k, s, w in pads:
        ins.append((f"pad{k}", s, w))
    if sense:
        outs.append(("i", buf.i, n))
    if drive:
        for k in range(len(bases)):
            if bases[k][2] in ("o", "io"):
                outs.append((f"pad_o{k}", objs[k].o, bases[k][0]))
                outs.append((f"pad_oe{k}", objs[k].oe, bases[k][0]))
    in_w = sum(w for _l, _s, w in ins)
    in_cat = Cat(*[s for _l, s, _w in ins])
    out_cat = Cat(*[s for _l, s, _w in outs])
    out_w = sum(w for _l, _s, w in outs)
    if any(inv for _b, _j, inv in bits):
        _inc(out, "sim_cases_with_inversion")
    if n == 0:
        _inc(out, "sim_zero_width_cases")

    def body(ctx):
        res = []
        for v in range(1 << in_w):
            if in_w:
                ctx.set(in_cat, v)
            res.append(ctx.get(out_cat) if out_w else 0)
        return res
    res = run_in_testbench(frag, body)
    nval = 0
    bad = None
    loop = 0
    for v, got_v in enumerate(res):
        nval += 1
        # unpack inputs
        off, val = 0, {}
        for l, _s, w in ins:
            val[l] = (v >> off) & ((1 << w) - 1)
            off += w
        off, gotd = 0, {}
        for l, _s, w in outs:
            gotd[l] = (got_v >> off) & ((1 << w) - 1)
            off += w
        o, oe = val.get("o", 0), val.get("oe", 0)
        for r, (b, j, inv) in enumerate(bits):
            inv = int(inv)
            if drive:
                exp_o = _bit(o, r) ^ inv                 # the port's output is o XOR the inversion mask
                if _bit(gotd[f"pad_o{b}"], j) != exp_o and bad is None:
                    bad = ("pad_o", r, v, val, f"port output bit (base {b} bit {j}) = {_bit(gotd[f'pad_o{b}'], j)}, want o[{r}]^{inv} = {exp_o}")
                if _bit(gotd[f"pad_oe{b}"], j) != oe and bad is None:
                    bad = ("pad_oe", r, v, val, f"port oe bit (base {b} bit {j}) = {_bit(gotd[f'pad_oe{b}'], j)}, want oe = {oe}")
            if sense:
                pad = _bit(val[f"pad{b}"], j)
                if bufdir == "io" and oe:
                    port_in = _bit(o, r) ^ inv           # the driven value is looped back while enabled
                    if port_in != pad:
                        loop += 1
                else:
                    port_in = pad
                exp_i = port_in ^ inv                    # i is the port's input XOR the mask
                if _bit(gotd["i"], r) != exp_i and bad is None:
                    bad = ("i", r, v, val, f"buffer i[{r}] = {_bit(gotd['i'], r)}, want {exp_i}")
    _inc(out, "sim_valuations", nval)
    out["cov"]["evaluations"] += nval
    if n and any(inv for _b, _j, inv in bits):
        out["cov"]["distinct_nontrivial"] += 1
    _inc(out, "sim_loopback_valuations", loop)
    if bad:
        member, r, v, val, text = bad
        _viol(out, f"simbuf:{bufdir}:{ts}:{member}", f"{tag}: with inputs {val}: {text}", case)


def _dedupe(gen):
    """keep every depth<=1 case; of the depth-2 cases keep one representative per distinct reference value
    (direction + per-bit (base, bit, inversion) list): leg A already ties every spelling to that value"""
    seen = set()
    for item in gen:
        bases, term, deep = item[-3:]
        key = (item[0] if len(item) > 3 else None, repr(bases), repr(ref(term, bases)))
        if deep and key in seen:
            continue
        seen.add(key)
        yield item[:-1]


def _unary(t, bases, st, margin=1):
    w = term_width(t, bases)
    yield ["inv", t]
    for key in slice_keys(w, st, margin):
        yield apply_key(t, key)


def sim_cases(rep_quick, steps, maxsum, depth2):
    """(bases, term) pairs for the simulation legs: distinct base objects on the two sides of `+`"""
    return list(_dedupe(_sim_cases(rep_quick, steps, maxsum, depth2)))


def _sim_cases(rep_quick, steps, maxsum, depth2):
    for b in all_bases(3):
        bases = [b]
        t0 = ["b", 0]
        yield bases, t0, False
        for d1 in _unary(t0, bases, steps):
            yield bases, d1, False
            if b[0] <= depth2:
                for d2 in _unary(d1, bases, (None, -1)):
                    yield bases, d2, True
    allb = all_bases(3)
    for b1 in allb:
        for b2 in allb:
            if b1[0] + b2[0] > maxsum or {b1[2], b2[2]} == {"i", "o"}:
                continue
            bases = [b1, b2]
            t = ["add", ["b", 0], ["b", 1]]
            yield bases, t, False
            if b1[0] + b2[0] <= (3 if rep_quick else 4):
                for d2 in _unary(t, bases, (None, -1) if rep_quick else steps):
                    yield bases, d2, True
                for d1 in _unary(["b", 0], bases, (None, -1)):
                    yield bases, ["add", d1, ["b", 1]], True
                    yield bases, ["add", ["b", 1], d1], True


def w_sim(cases):
    warnings.simplefilter("ignore")
    out = _new_out()
    for bases, term in cases:
        for bufdir in DIRS:
            sim_case({"leg": "simbuf", "bases": bases, "term": term, "bufdir": bufdir}, out)
    return out


# =============================================================================================== leg C
class FFSpec:
    """FFBuffer on a simulation port in product with one register per direction (i_reg | o_reg, oe_reg)."""
    def __init__(self, cfg):
        self.cfg = cfg
        self.bases, self.term, self.bufdir = cfg["bases"], cfg["term"], cfg["bufdir"]
        self.i_dom, self.o_dom = cfg["i_domain"], cfg["o_domain"]       # None -> default "sync"
        self.edges = cfg["edges"]                                        # {domain name: "pos"|"neg"}
        self.with_rst = cfg["with_rst"]
        _ok, self.pdir, self.bits = ref(self.term, self.bases)
        self.n = len(self.bits)
        self.sense, self.drive = self.bufdir != "o", self.bufdir != "i"
        self.doms = []
        if self.sense:
            self.doms.append(self.i_dom or "sync")
        if self.drive and (self.o_dom or "sync") not in self.doms:
            self.doms.append(self.o_dom or "sync")
        self.pad_bases = [k for k in range(len(self.bases)) if self.bases[k][2] in ("i", "io")] if self.sense else []
        padw = sum(self.bases[k][0] for k in self.pad_bases)
        self.actions = [(o, oe, pad, mask, rst)
                        for o in (range(1 << self.n) if self.drive else [0])
                        for oe in ((0, 1) if self.drive else [0])
                        for pad in range(1 << padw)
                        for mask in range(1, 1 << len(self.doms))
                        for rst in ((0, 1) if self.with_rst else [0])]

    def describe(self):
        return self.cfg

    def build(self):
        from amaranth.hdl import Module, ClockDomain
        from amaranth.lib import io
        from ..sim.driver import System, elaborate
        objs = make_bases(self.bases, "sim")
        port = build(self.term, objs)
        m = Module()
        cds = []
        for name in self.doms:
            cd = ClockDomain(name, clk_edge=self.edges.get(name, "pos"))
            m.domains += cd
            cds.append(cd)
        kw = {}
        if self.sense:
            kw["i_domain"] = self.i_dom
        if self.drive:
            kw["o_domain"] = self.o_dom
        self.buf = buf = io.FFBuffer(self.bufdir, port, **kw)
        m.submodules.buf = buf
        frag = elaborate(m)
        self.objs = objs
        inputs = ([buf.o, buf.oe] if self.drive else []) + [objs[k].i for k in self.pad_bases] + \
                 ([cd.rst for cd in cds] if self.with_rst else [])
        return System(frag, clocks=[cd.clk for cd in cds], inputs=inputs)

    # -- observations
    def _observe(self, sysm):
        ctx = sysm.ctx
        obs = {}
        if self.sense:
            obs["i"] = ctx.get(self.buf.i)
        if self.drive:
            for k in range(len(self.bases)):
                if self.bases[k][2] in ("o", "io"):
                    obs[f"o{k}"] = ctx.get(self.objs[k].o)
                    obs[f"oe{k}"] = ctx.get(self.objs[k].oe)
        return obs

    def model_init(self, sysm):
        """the statement does not fix the power-on contents of the registers: read them off the outputs"""
        obs = self._observe(sysm)
        i_reg = obs.get("i", 0)
        o_reg = oe_reg = 0
        if self.drive:
            for r, (b, j, inv) in enumerate(self.bits):
                o_reg |= (_bit(obs[f"o{b}"], j) ^ int(inv)) << r
                oe_reg = _bit(obs[f"oe{b}"], j)
        return (i_reg, o_reg, oe_reg)

    def _sample(self, o_reg, oe_reg, pads):
        v = 0
        for r, (b, j, inv) in enumerate(self.bits):
            inv = int(inv)
            port_in = (_bit(o_reg, r) ^ inv) if (self.bufdir == "io" and oe_reg) else _bit(pads[b], j)
            v |= (port_in ^ inv) << r
        return v

    def step(self, sysm, m, a):
        o, oe, pad, mask, rst = a
        i_reg, o_reg, oe_reg = m
        vals = ([o, oe] if self.drive else [])
        pads, off = {}, 0
        for k in self.pad_bases:
            w = self.bases[k][0]
            pads[k] = (pad >> off) & ((1 << w) - 1)
            off += w
            vals.append(pads[k])
        if self.with_rst:
            vals += [rst] * len(self.doms)
        sysm.set_inputs(sysm.pack_inputs(vals))
        obs = self._observe(sysm)
        errs, flags = [], []
        if self.sense and obs["i"] != i_reg:
            errs.append(f"i={obs['i']:0{max(self.n,1)}b} but the input register model holds {i_reg:0{max(self.n,1)}b}")
        if self.drive:
            for r, (b, j, inv) in enumerate(self.bits):
                if _bit(obs[f"o{b}"], j) != _bit(o_reg, r) ^ int(inv):
                    errs.append(f"port o bit {r} (base {b} bit {j}) = {_bit(obs[f'o{b}'], j)}, output register model bit {_bit(o_reg, r)} inv {int(inv)}")
                if _bit(obs[f"oe{b}"], j) != oe_reg:
                    errs.append(f"port oe bit {r} (base {b} bit {j}) = {_bit(obs[f'oe{b}'], j)}, enable register model {oe_reg}")
            flags.append("oe_reg1" if oe_reg else "oe_reg0")
        # the edges: posedge domains capture at the rise (old values), negedge domains at the fall
        sysm.pulse(mask)
        for phase in ("pos", "neg"):
            ni, no, noe = i_reg, o_reg, oe_reg
            for d, name in enumerate(self.doms):
                if not (mask >> d) & 1 or self.edges.get(name, "pos") != phase:
                    continue
                if self.sense and (self.i_dom or "sync") == name:
                    ni = self._sample(o_reg, oe_reg, pads)
                    flags.append("i_edge")
                    if self.bufdir == "io" and oe_reg:
                        flags.append("loopback")
                if self.drive and (self.o_dom or "sync") == name:
                    no, noe = o, oe
                    flags.append("o_edge")
            i_reg, o_reg, oe_reg = ni, no, noe
        if mask == (1 << len(self.doms)) - 1 and len(self.doms) > 1:
            flags.append("both_clocks")
        if rst:
            flags.append("rst_edge")
        return (i_reg, o_reg, oe_reg), errs, tuple(flags)


def ff_configs(rep):
    cfgs = []
    doms_all = [(None, None, {}), ("a", "b", {}), ("a", None, {"a": "neg"}), (None, "b", {"b": "neg"})]
    for w in rep.pick((1, 2), (1, 2, 3)):
        for mask in range(1 << w):
            for pdir, bufdir in (("i", "i"), ("o", "o"), ("io", "i"), ("io", "o"), ("io", "io")):
                for di, (i_dom, o_dom, edges) in enumerate(doms_all):
                    if rep.quick and w == 2 and (di >= 2 or (bufdir != "io" and mask in (0, 3))):
                        continue
                    if bufdir == "i":
                        o_dom2, i_dom2 = None, i_dom
                    elif bufdir == "o":
                        o_dom2, i_dom2 = o_dom, None
                    else:
                        o_dom2, i_dom2 = o_dom, i_dom
                    ed = {k: v for k, v in edges.items() if k in (i_dom2, o_dom2)}
                    cfgs.append({"leg": "ffbuf", "bases": [[w, mask, pdir]], "term": ["b", 0], "bufdir": bufdir,
                                 "i_domain": i_dom2, "o_domain": o_dom2, "edges": ed,
                                 "with_rst": (di == 0 and (w == 1 or not rep.quick))})
    # composite port expressions (slice / reverse / invert / concatenation of two simulation ports)
    comp = [([[2, 0b01, "io"]], ["inv", ["sl", ["b", 0], None, None, -1]]),
            ([[1, 1, "io"], [1, 0, "io"]], ["add", ["b", 0], ["inv", ["b", 1]]]),
            ([[3, 0b010, "io"]], ["sl", ["b", 0], 1, None, None]),
            ([[1, 0, "io"], [1, 1, "o"]], ["add", ["b", 0], ["b", 1]]),
            ([[2, 0b10, "i"], [1, 1, "io"]], ["add", ["idx", ["b", 0], 1], ["b", 1]])]
    for bases, term in comp:
        pdir = ref(term, bases)[1]
        for bufdir in DIRS:
            if not legal_buffer(pdir, bufdir):
                continue
            for i_dom, o_dom, edges in (doms_all[:2] if rep.quick else doms_all):
                i2 = i_dom if bufdir != "o" else None
                o2 = o_dom if bufdir != "i" else None
                ed = {k: v for k, v in edges.items() if k in (i2, o2)}
                cfgs.append({"leg": "ffbuf", "bases": bases, "term": term, "bufdir": bufdir, "i_domain": i2,
                             "o_domain": o2, "edges": ed, "with_rst": False})
    # de-duplicate (direction-restricted domain tuples may coincide)
    seen, outc = set(), []
    for c in cfgs:
        key = repr(sorted(c.items()))
        if key not in seen:
            seen.add(key)
            outc.append(c)
    return outc


def ff_tag(cfg):
    e = ",".join(f"{k}:{v}" for k, v in sorted(cfg["edges"].items()))
    return (f"FFBuffer({cfg['bufdir']},i_domain={cfg['i_domain']},o_domain={cfg['o_domain']}{',' + e if e else ''}"
            f"{',rst' if cfg['with_rst'] else ''}) on sim {term_str(cfg['term'], cfg['bases'])}")


def w_ff(cfg):
    from ..explore.bfs import explore
    warnings.simplefilter("ignore")
    out = _new_out()
    tag = ff_tag(cfg)
    try:
        spec = FFSpec(cfg)
        res = explore(spec, procs=1, replay_n=cfg.get("replay_n", 10), cap_states=200_000)
    except Exception as e:      # noqa: BLE001
        import traceback
        if not any("/amaranth/" in f.filename for f in traceback.extract_tb(e.__traceback__)):
            raise
        _viol(out, f"ffbuf:{tag}:exception:{type(e).__name__}", f"{tag}: unexpected {type(e).__name__}: {e}", dict(cfg, path=[]))
        out["flags"] = []
        return out
    out["cov"].update({"ff_states": res.states, "ff_transitions": res.transitions, "ff_traces_validated": res.traces_validated,
                       "ff_configurations": 1, "ff_capped": int(res.capped)})
    out["cov"]["evaluations"] += res.transitions
    out["cov"]["distinct_nontrivial"] += res.states
    out["flags"] = sorted(res.flags)
    for errs, path in res.errors[:2]:
        acts = [list(spec.actions[i]) for i in path]
        _viol(out, f"ffbuf:{tag}:{errs[0].split(' = ')[0].split('=')[0][:40]}",
              f"{tag}: {errs} after actions (o,oe,pad,clock mask,rst) {acts}", dict(cfg, path=acts))
    for path, wantk, gotk in res.replay_mismatch[:1]:
        acts = [list(spec.actions[i]) for i in path]
        _viol(out, f"ffbuf:{tag}:replay-mismatch", f"{tag}: BFS state injection differs from replay from reset: {wantk} vs {gotk}",
              dict(cfg, path=acts))
    out["samples"].append({"config": tag, "states": res.states, "transitions": res.transitions, "depth": res.max_depth})
    return out


def ff_zero_width(out):
    """width 0: FFBuffer must elaborate and simulate (nothing to observe)"""
    from amaranth.hdl import Module, ClockDomain
    from amaranth.lib import io
    from ..sim.driver import elaborate, run_in_testbench
    for pdir in DIRS:
        for bufdir in DIRS:
            if not legal_buffer(pdir, bufdir):
                continue
            case = {"leg": "ffzero", "pdir": pdir, "bufdir": bufdir}
            out["cov"]["evaluations"] += 1
            try:
                m = Module()
                m.domains.sync = cd = ClockDomain("sync")
                m.submodules.buf = buf = io.FFBuffer(bufdir, io.SimulationPort(pdir, 0, name="z"))
                frag = elaborate(m)

                def body(ctx):
                    ctx.set(cd.clk, 1)
                    ctx.set(cd.clk, 0)
                    return (ctx.get(buf.i) if bufdir != "o" else 0)
                r = run_in_testbench(frag, body)
                if r != 0:
                    raise AssertionError("non-zero value on a zero-width member")
            except Exception as e:      # noqa: BLE001
                _viol(out, f"ffbuf:zero-width:{pdir}:{bufdir}", f"FFBuffer({bufdir}) on a zero-width {pdir} simulation port: {type(e).__name__}: {e}", case)


# =============================================================================================== leg D
NIR_DIR = {"i": "input", "o": "output", "io": "inout"}


def _net_case(case, out):
    """Buffer / FFBuffer on SingleEndedPort / DifferentialPort expressions: fine netlist + RTLIL text"""
    from amaranth.hdl import Module, ClockDomain, DriverConflict
    from amaranth.hdl._ir import Fragment, build_netlist
    from amaranth.back import rtlil
    from amaranth.lib import io
    from ..ref.c18_netlist import NirEval, RtlilEval, parse_rtlil
    kind, bases, term, bufdir, cls = case["kind"], case["bases"], case["term"], case["bufdir"], case["cls"]
    want = ref(term, bases)
    assert want[0] == "ok"
    _ok, pdir, bits = want
    n = len(bits)
    ts = term_str(term, bases)
    tag = f"{cls}({bufdir}) on {kind} {ts}"
    objs = make_bases(bases, kind)
    port = build(term, objs)
    out["cov"]["evaluations"] += 1
    legal = legal_buffer(pdir, bufdir)
    try:
        buf = getattr(io, cls)(bufdir, port)
        got = "ok"
    except Exception as e:      # noqa: BLE001
        got = type(e).__name__
    if not legal:
        _inc(out, "net_illegal_pairs")
    if got != ("ok" if legal else "ValueError"):
        _viol(out, f"net:construct:{cls}:{bufdir}:{kind}:{ts}", f"{tag}: construction gave {got}, docs say "
              f"{'accepted' if legal else 'ValueError'} (port direction {pdir})", case)
        return
    if not legal:
        return
    m = Module()
    cd = None
    if cls == "FFBuffer":
        m.domains.sync = cd = ClockDomain("sync")
    m.submodules.buf = buf
    drive, sense = bufdir != "i", bufdir != "o"
    ports = ([buf.i] if sense else []) + ([buf.o, buf.oe] if drive else []) + ([cd.clk, cd.rst] if cd is not None else [])
    dup = len({(b, j) for b, j, _v in bits}) < n
    try:
        frag = Fragment.get(m, None)
        nl = build_netlist(frag, ports=ports, name="top")
        got = "ok"
    except DriverConflict:
        got = "DriverConflict"
    except Exception as e:      # noqa: BLE001
        got = type(e).__name__
    if dup:
        _inc(out, "net_double_use_designs")
    if got != ("DriverConflict" if dup else "ok"):
        _viol(out, f"net:build:{cls}:{bufdir}:{kind}:{ts}", f"{tag}: building the netlist gave {got}, want "
              f"{'DriverConflict (a port bit is used twice)' if dup else 'a netlist'}", case)
        return
    if dup:
        return
    _inc(out, "net_netlists")
    ev = NirEval(nl)
    # ---- structure: which buffer cells use which port bits
    pidx = {id(p): i for i, p in enumerate(nl.io_ports)}
    halves = ("io",) if kind == "se" else ("p", "n")
    uses = ev.uses()
    expected_uses = {}
    for r, (b, j, _inv) in enumerate(bits):
        for h in halves:
            ioport = getattr(objs[b], h)
            if h == "n" and bufdir == "i":
                want_dir = None        # the generic differential input buffer senses the true half only
            else:
                want_dir = NIR_DIR[bufdir] if h != "n" else "output"
            expected_uses[(id(ioport), j)] = want_dir
    problems = []
    seen_keys = set()
    for (b_id, j), want_dir in expected_uses.items():
        key = (pidx.get(b_id), j)
        seen_keys.add(key)
        u = uses.get(key, [])
        if want_dir is None:
            if len(u) > 1:
                problems.append(f"port bit {key} used {len(u)} times")
        elif len(u) != 1:
            problems.append(f"port bit {key} is used by {len(u)} buffer cells, want exactly one")
        elif u[0][1] != want_dir:
            problems.append(f"port bit {key} used by a {u[0][1]} cell, want {want_dir}")
    for key, u in uses.items():
        if key not in seen_keys:
            problems.append(f"port bit {key} is not part of the port expression but is used by {len(u)} cells")
    if problems:
        _viol(out, f"net:uses:{cls}:{bufdir}:{kind}:{ts}", f"{tag}: {problems[:3]}", case)
        return
    # ---- semantics on the fine netlist, every valuation (FFBuffer: one register model in lock step)
    text = None
    if case.get("rtlil", True):
        m2, ports2 = _rebuild(case)
        try:
            text, _names = rtlil.convert_fragment(Fragment.get(m2, None), ports=ports2, name="top", emit_src=False)
        except Exception as e:      # noqa: BLE001
            # every design whose buffer touches a zero-width IOPort fails alike: one signature per (class, direction)
            where = "zero-width-IOPort" if min(b[0] for b in bases) == 0 else ts
            _viol(out, f"net:rtlil-convert:{type(e).__name__}:{where}:{kind}:{cls}:{bufdir}",
                  f"{tag}: the fine netlist is built, but RTLIL conversion raises {type(e).__name__}: {e}", case)
            text = None
    bad = _net_semantics(case, bits, objs, buf, cd, ev, pidx, None, out)
    if bad:
        _viol(out, f"net:nir:{cls}:{bufdir}:{kind}:{ts}:{bad[0]}", f"{tag}: fine netlist: {bad[1]}", case)
        return
    if text is not None:
        _inc(out, "net_rtlil_texts")
        if (term[0] == "add" and term[1][0] == "sl" and term[2][0] == "sl" and term[1][1][0] == "b" and term[2][1][0] == "b"
                and term[1][1] != term[2][1] and term[1][4] is None and term[2][4] is None and term[2][2] == term[1][3]):
            _inc(out, "net_rtlil_two_port_continuing_index_concats")     # a[x:y] + b[y:z] with a is not b
        # The text comes from the code under test: a reference that does not parse, names an unknown wire, runs
        # past the end of a wire, connects different widths or drives a bit twice is a finding about the emitted
        # RTLIL (the fine netlist of the same design was just evaluated successfully), never a harness error.
        try:
            mods = parse_rtlil(text)
            rv = RtlilEval(mods, "\\top")
            bad = _net_semantics(case, bits, objs, buf, cd, None, None, rv, out)
        except Exception as e:      # noqa: BLE001
            _viol(out, f"net:rtlil-malformed:{type(e).__name__}:{cls}:{bufdir}:{kind}:{ts}",
                  f"{tag}: the emitted RTLIL cannot be interpreted: {type(e).__name__}: {e}", case)
            return
        if bad:
            _viol(out, f"net:rtlil:{cls}:{bufdir}:{kind}:{ts}:{bad[0]}", f"{tag}: RTLIL: {bad[1]}", case)
    if n and any(inv for _b, _j, inv in bits):
        out["cov"]["distinct_nontrivial"] += 1


def _rebuild(case):
    """a second, fresh design of the same case (a Fragment cannot be converted twice)"""
    from amaranth.hdl import Module, ClockDomain
    from amaranth.lib import io
    objs = make_bases(case["bases"], case["kind"])
    port = build(case["term"], objs)
    buf = getattr(io, case["cls"])(case["bufdir"], port)
    m = Module()
    cd = None
    if case["cls"] == "FFBuffer":
        m.domains.sync = cd = ClockDomain("sync")
    m.submodules.buf = buf
    drive, sense = case["bufdir"] != "i", case["bufdir"] != "o"
    return m, ([buf.i] if sense else []) + ([buf.o, buf.oe] if drive else []) + ([cd.clk, cd.rst] if cd is not None else [])


def _net_semantics(case, bits, objs, buf, cd, ev, pidx, rv, out):
    """drive every (o, oe, pad) valuation through the netlist (ev) or the RTLIL text (rv)"""
    kind, bases, bufdir, cls = case["kind"], case["bases"], case["bufdir"], case["cls"]
    n = len(bits)
    drive, sense = bufdir != "i", bufdir != "o"
    true_half = "io" if kind == "se" else "p"
    used = sorted({(b, j) for b, j, _v in bits})
    padw = len(used) if sense else 0
    i_reg = o_reg = oe_reg = 0
    ff = cls == "FFBuffer"
    nval = 0
    for o in (range(1 << n) if drive else [0]):
        for oe in ((0, 1) if drive else [0]):
            for padv in range(1 << padw):
                nval += 1
                pad = {bj: _bit(padv, x) for x, bj in enumerate(used)} if sense else {}
                # apply
                if ev is not None:
                    if drive:
                        ev.set_signal(buf.o, o)
                        ev.set_signal(buf.oe, oe)
                    for (b, j), v in pad.items():
                        ev.set_pad(pidx[id(getattr(objs[b], true_half))], j, v)
                    if cd is not None:
                        ev.set_signal(cd.clk, 0)
                        ev.set_signal(cd.rst, 0)
                else:
                    if drive:
                        rv.set_top("\\o", o)
                        rv.set_top("\\oe", oe)
                    for (b, j), v in pad.items():
                        name = "\\" + getattr(objs[b], true_half).name
                        rv.ext[rv.find(((), name, j))] = v
                o_eff, oe_eff = (o_reg, oe_reg) if ff else (o, oe)
                memo = {}
                drv = ev.drivers(memo) if ev is not None else None
                got_i = None
                if sense:
                    got_i = ev.value(ev.sig_nets(buf.i), memo) if ev is not None else rv.top_value("\\i", memo)
                exp_i_comb = 0
                for r, (b, j, inv) in enumerate(bits):
                    inv = int(inv)
                    halves = (("io", 0),) if kind == "se" else (("p", 0), ("n", 1))
                    for h, neg in halves:
                        iop = getattr(objs[b], h)
                        if ev is not None:
                            d = drv.get((pidx.get(id(iop)), j), [])
                        else:
                            d = rv.pad_drivers("\\" + iop.name, j, memo)
                        if drive:
                            expd = [((_bit(o_eff, r) ^ inv) ^ neg, oe_eff)]
                        else:
                            expd = []
                        if d != expd:
                            return (f"drive_{h}", f"o={o:b} oe={oe} pad={pad}: port {iop.name} bit {j} is driven by (value, enable) {d}, want {expd}"
                                    f" (result bit {r}, inversion {inv}{', registered' if ff else ''})")
                    port_in = (_bit(o_eff, r) ^ inv) if (bufdir == "io" and oe_eff) else pad.get((b, j), 0)
                    exp_i_comb |= (port_in ^ inv) << r
                if sense:
                    exp_i = i_reg if ff else exp_i_comb
                    if got_i != exp_i:
                        return ("i", f"o={o:b} oe={oe} pad={pad}: buffer i = {got_i:b}, want {exp_i:b}{' (input register model)' if ff else ''}")
                if ff:
                    k = ev.tick(cd.clk) if ev is not None else rv.tick("\\clk")
                    want_k = (1 if sense else 0) + (2 if drive else 0)
                    if n and k != want_k:
                        return ("registers", f"{k} register cells are clocked by the domain clock, want {want_k} (one per direction: i | o, oe)")
                    i_reg, o_reg, oe_reg = exp_i_comb, o, oe
    _inc(out, "net_valuations", nval)
    out["cov"]["evaluations"] += nval
    return None


def net_cases(rep_quick, steps, maxsum):
    """(kind, bases, term): depth <= 1 everywhere (+ depth-2 families), `+` also of a port with itself"""
    return list(_dedupe(_net_cases(rep_quick, steps, maxsum)))


def _net_cases(rep_quick, steps, maxsum):
    allb = all_bases(3)
    for kind in ("se", "diff"):
        for b in allb:
            bases = [b]
            yield kind, bases, ["b", 0], False
            for d1 in _unary(["b", 0], bases, steps):
                yield kind, bases, d1, False
            yield kind, bases, ["sl", ["b", 0], None, None, -1], False
            # the same port twice: every concatenation of two depth<=1 slices of one port overlaps or not
            for k1 in slice_keys(b[0], (None, -1), margin=0):
                for k2 in slice_keys(b[0], (None, -1), margin=0):
                    yield kind, bases, ["add", apply_key(["b", 0], k1), apply_key(["b", 0], k2)], True
            yield kind, bases, ["add", ["b", 0], ["b", 0]], False
            yield kind, bases, ["add", ["inv", ["b", 0]], ["b", 0]], False
        # slices of two DIFFERENT ports, both orders: includes every pair whose bit indices continue each other
        # (a[0:2] + b[2:3], b[1:3] + a[0:1], ...), which a back end may wrongly merge into one wire slice
        for w1, w2 in ((2, 2), (2, 3), (3, 2), (3, 3)):
            bases = [[w1, 0b101 & ((1 << w1) - 1), "io"], [w2, 0b010 & ((1 << w2) - 1), "io"]]
            for a1 in range(w1):
                for e1 in range(a1 + 1, w1 + 1):
                    for a2 in range(w2):
                        for e2 in range(a2 + 1, w2 + 1):
                            if (e1 - a1) + (e2 - a2) > 4:
                                continue
                            s1, s2 = ["sl", ["b", 0], a1, e1, None], ["sl", ["b", 1], a2, e2, None]
                            yield kind, bases, ["add", s1, s2], False
                            yield kind, bases, ["add", s2, s1], False
        for b1 in allb:
            for b2 in allb:
                if b1[0] + b2[0] > maxsum or {b1[2], b2[2]} == {"i", "o"}:
                    continue
                bases = [b1, b2]
                t = ["add", ["b", 0], ["b", 1]]
                yield kind, bases, t, False
                if b1[0] + b2[0] <= 3:
                    for d2 in _unary(t, bases, (None, -1)):
                        yield kind, bases, d2, True


def w_net(cases):
    warnings.simplefilter("ignore")
    out = _new_out()
    for kind, bases, term, clss in cases:
        for cls in clss:
            for bufdir in DIRS:
                net_case({"leg": "net", "kind": kind, "bases": bases, "term": term, "bufdir": bufdir, "cls": cls}, out)
    return out


def w_two_buffers(task):
    """two buffers on two slices of one real port: DriverConflict iff the slices share a bit"""
    from amaranth.hdl import Module, DriverConflict
    from amaranth.hdl._ir import Fragment, build_netlist
    from amaranth.lib import io
    from ..ref.c18_netlist import NirEval
    kind, w = task
    warnings.simplefilter("ignore")
    out = _new_out()
    keys, seen = [], set()
    for k in slice_keys(w, (None, -1), margin=0):      # one spelling per distinct selection of bits
        r = repr(ref(apply_key(["b", 0], k), [[w, 0, "io"]])[2])
        if r not in seen:
            seen.add(r)
            keys.append(k)
    for mask in (0, (1 << w) - 1):
        for k1 in keys:
            for k2 in keys:
                for d1, d2 in (("i", "i"), ("o", "o"), ("io", "i"), ("o", "io")):
                    bases = [[w, mask, "io"]]
                    t1, t2 = apply_key(["b", 0], k1), apply_key(["b", 0], k2)
                    s1 = {(b, j) for b, j, _v in ref(t1, bases)[2]}
                    s2 = {(b, j) for b, j, _v in ref(t2, bases)[2]}
                    overlap = bool(s1 & s2)
                    case = {"leg": "two", "kind": kind, "bases": bases, "t1": t1, "t2": t2, "d1": d1, "d2": d2}
                    objs = make_bases(bases, kind)
                    m = Module()
                    m.submodules.a = a = io.Buffer(d1, build(t1, objs))
                    m.submodules.b = b = io.Buffer(d2, build(t2, objs))
                    out["cov"]["evaluations"] += 1
                    try:
                        nl = build_netlist(Fragment.get(m, None), ports=[], name="top")
                        got = "ok"
                    except DriverConflict:
                        got = "DriverConflict"
                    except Exception as e:      # noqa: BLE001
                        got = type(e).__name__
                    # a differential *input* buffer does not touch the complement half, the true half still conflicts
                    exp = "DriverConflict" if overlap else "ok"
                    _inc(out, "two_buffers_conflict" if overlap else "two_buffers_disjoint")
                    if overlap:
                        out["cov"]["distinct_nontrivial"] += 1
                    if got != exp:
                        _viol(out, f"net:two-buffers:{kind}:{term_str(t1, bases)}:{d1}:{term_str(t2, bases)}:{d2}",
                              f"Buffer({d1}) on {term_str(t1, bases)} and Buffer({d2}) on {term_str(t2, bases)} of one {kind} port: "
                              f"{got}, want {exp}", case)
                    elif got == "ok":
                        u = NirEval(nl).uses()
                        if any(len(v) != 1 for v in u.values()):
                            _viol(out, f"net:two-buffers-uses:{kind}:{term_str(t1, bases)}:{term_str(t2, bases)}",
                                  f"a port bit is used by several cells: {u}", case)
    return out


# --------------------------------------------------------------------------- leg D3: several buffers, one port
DIR_JOIN = {frozenset(["i"]): "input", frozenset(["o"]): "output"}       # anything else that is used: inout


def dir_designs(w):
    """every partition of a width-w port into 1..3 contiguous slices x every assignment of
    {unused '-', i, o, io} to the slices (at least one slice used)"""
    out = []
    for k in (1, 2, 3):
        for cuts in itertools.combinations(range(1, w), k - 1):
            edges = (0,) + cuts + (w,)
            for dirs in itertools.product(("-", "i", "o", "io"), repeat=k):
                if all(d == "-" for d in dirs):
                    continue
                out.append([[edges[x], edges[x + 1], dirs[x]] for x in range(k)])
    return out


def _dirs_build(case):
    """-> (module, top-level port signals, per-slice records, IOPorts by half, clock domain or None)"""
    from amaranth.hdl import Module, ClockDomain, IOPort, Signal
    from amaranth.lib import io
    kind, w, mask, parts, cls = case["kind"], case["w"], case["mask"], case["parts"], case["cls"]
    inv = tuple(bool((mask >> j) & 1) for j in range(w))
    if kind == "se":
        iop = {"io": IOPort(w, name="pd")}
        port = io.SingleEndedPort(iop["io"], invert=inv)
    else:
        iop = {"p": IOPort(w, name="pdp"), "n": IOPort(w, name="pdn")}
        port = io.DifferentialPort(iop["p"], iop["n"], invert=inv)
    m = Module()
    cd = None
    if cls == "FFBuffer":
        m.domains.sync = cd = ClockDomain("sync")
    recs, ports = [], []
    for x, (a, e, d) in enumerate(parts):
        if d == "-":
            continue
        buf = getattr(io, cls)(d, port[a:e])
        m.submodules[f"s{x}"] = buf
        rec = {"a": a, "e": e, "dir": d, "x": x}
        # uniquely named top-level signals, so that the RTLIL port wires can be addressed by name
        if d != "o":
            rec["i"] = Signal(e - a, name=f"s{x}_i")
            m.d.comb += rec["i"].eq(buf.i)
            ports.append(rec["i"])
        if d != "i":
            rec["o"] = Signal(e - a, name=f"s{x}_o")
            rec["oe"] = Signal(1, name=f"s{x}_oe")
            m.d.comb += [buf.o.eq(rec["o"]), buf.oe.eq(rec["oe"])]
            ports += [rec["o"], rec["oe"]]
        recs.append(rec)
    if cd is not None:
        ports += [cd.clk, cd.rst]
    return m, ports, recs, iop, cd


def _dirs_case(case, out):
    from amaranth.hdl._ir import Fragment, build_netlist
    from amaranth.back import rtlil
    from ..ref.c18_netlist import NirEval, RtlilEval, parse_rtlil
    kind, w, mask, parts, cls = case["kind"], case["w"], case["mask"], case["parts"], case["cls"]
    pstr = "+".join(f"[{a}:{e}]={d}" for a, e, d in parts)
    tag = f"{cls} per slice {pstr} of one {kind} port (width {w}, invert mask {mask:0{w}b})"
    sigbase = f"{kind}:w{w}:m{mask:0{w}b}:{pstr}:{cls}"
    out["cov"]["evaluations"] += 1
    _inc(out, "dirs_designs")
    used = [d for _a, _e, d in parts if d != "-"]
    # expected declared direction of each half: the join of the directions of the buffers using any of its bits
    true_half = "io" if kind == "se" else "p"
    want = {true_half: DIR_JOIN.get(frozenset(used), "inout")}
    if kind == "diff":
        want["n"] = "output" if any(d != "i" for d in used) else None      # input buffers do not touch the complement half
    if len(set(used)) > 1 and "io" not in used:
        _inc(out, "dirs_mixed_i_o_designs")
        out["cov"]["distinct_nontrivial"] += 1
    m, ports, recs, iop, cd = _dirs_build(case)
    nl = build_netlist(Fragment.get(m, None), ports=ports, name="top")
    names = {h: p.name for h, p in iop.items()}
    top_io = {name: d.value for name, (_v, d) in nl.modules[0].io_ports.items()}
    for h, exp in want.items():
        got = top_io.get(names[h])
        if exp is None:
            continue            # a half no buffer uses: nothing is claimed about it
        if got != exp:
            _viol(out, f"net:port-dir:nir:{sigbase}:{names[h]}", f"{tag}: the netlist declares top-level I/O port {names[h]} as {got}, "
                  f"the buffers using its bits need {exp}", case)      # no return: the RTLIL text is judged on its own
    ev = NirEval(nl)
    pidx = {id(p): k for k, p in enumerate(nl.io_ports)}
    uses = ev.uses()
    for rec in recs:
        for j in range(rec["a"], rec["e"]):
            for h in iop:
                u = uses.get((pidx.get(id(iop[h])), j), [])
                exp_n = 0 if (h == "n" and rec["dir"] == "i") else 1
                exp_d = "output" if h == "n" else NIR_DIR[rec["dir"]]
                if len(u) != exp_n or (u and u[0][1] != exp_d):
                    _viol(out, f"net:port-dir:uses:{sigbase}:{names[h]}[{j}]", f"{tag}: port {names[h]} bit {j} is used by {u}, want {exp_n} x {exp_d}", case)
                    return
    m2, ports2, recs2, iop2, cd2 = _dirs_build(case)
    text, _n = rtlil.convert_fragment(Fragment.get(m2, None), ports=ports2, name="top", emit_src=False)
    _inc(out, "dirs_rtlil_texts")
    try:
        mods = parse_rtlil(text)
        rv = RtlilEval(mods, "\\top")
    except Exception as e:      # noqa: BLE001
        _viol(out, f"net:rtlil-malformed:{type(e).__name__}:{sigbase}", f"{tag}: the emitted RTLIL cannot be interpreted: {type(e).__name__}: {e}", case)
        return
    for h, exp in want.items():
        if exp is None:
            continue
        got = mods["\\top"].wires.get("\\" + names[h], (None, None))[1]
        if got != exp:
            _viol(out, f"net:port-dir:rtlil:{sigbase}:{names[h]}", f"{tag}: the RTLIL declares top-level wire \\{names[h]} as {got}, "
                  f"the buffers using its bits need {exp}", case)
            return
    for which, e in (("nir", ev), ("rtlil", rv)):
        try:
            bad = _dirs_semantics(case, recs, iop, cd, e, pidx, which, out)
        except Exception as ex:      # noqa: BLE001
            if which == "nir":
                raise
            bad = ("malformed", f"evaluation fails with {type(ex).__name__}: {ex}")
        if bad:
            _viol(out, f"net:multi:{which}:{sigbase}:{bad[0]}", f"{tag}: {which}: {bad[1]}", case)
            return


def _dirs_semantics(case, recs, iop, cd, e, pidx, which, out):
    """all valuations of every buffer's (o, oe) and of every sensed pad bit; FFBuffer: register models in lock step"""
    kind, w, mask, cls = case["kind"], case["w"], case["mask"], case["cls"]
    ff = cls == "FFBuffer"
    nir = which == "nir"
    true_half = "io" if kind == "se" else "p"
    fields = []          # (record index, member, width)
    for k, rec in enumerate(recs):
        n = rec["e"] - rec["a"]
        if rec["dir"] != "i":
            fields += [(k, "o", n), (k, "oe", 1)]
        if rec["dir"] != "o":
            fields.append((k, "pad", n))
    total = sum(x[2] for x in fields)
    regs = [{"i": 0, "o": 0, "oe": 0} for _ in recs]
    if nir and cd is not None:
        e.set_signal(cd.clk, 0)
        e.set_signal(cd.rst, 0)
    for v in range(1 << total):
        val, off = [dict(o=0, oe=0, pad=0) for _ in recs], 0
        for k, mem, n in fields:
            val[k][mem] = (v >> off) & ((1 << n) - 1)
            off += n
        for k, rec in enumerate(recs):
            if rec["dir"] != "i":
                if nir:
                    e.set_signal(rec["o"], val[k]["o"])
                    e.set_signal(rec["oe"], val[k]["oe"])
                else:
                    e.set_top(f"\\s{rec['x']}_o", val[k]["o"])
                    e.set_top(f"\\s{rec['x']}_oe", val[k]["oe"])
            if rec["dir"] != "o":
                for r in range(rec["e"] - rec["a"]):
                    j = rec["a"] + r
                    if nir:
                        e.set_pad(pidx[id(iop[true_half])], j, _bit(val[k]["pad"], r))
                    else:
                        e.ext[e.find(((), "\\" + iop[true_half].name, j))] = _bit(val[k]["pad"], r)
        memo = {}
        drv = e.drivers(memo) if nir else None
        nxt = []
        for k, rec in enumerate(recs):
            o_eff, oe_eff = (regs[k]["o"], regs[k]["oe"]) if ff else (val[k]["o"], val[k]["oe"])
            exp_i = 0
            for r in range(rec["e"] - rec["a"]):
                j = rec["a"] + r
                inv = (mask >> j) & 1
                for h, neg in ((("io", 0),) if kind == "se" else (("p", 0), ("n", 1))):
                    d = drv.get((pidx.get(id(iop[h])), j), []) if nir else e.pad_drivers("\\" + iop[h].name, j, memo)
                    expd = [((_bit(o_eff, r) ^ inv) ^ neg, oe_eff)] if rec["dir"] != "i" else []
                    if d != expd:
                        return (f"drive_{h}", f"inputs {val}: port {iop[h].name} bit {j} is driven by (value, enable) {d}, want {expd}")
                port_in = (_bit(o_eff, r) ^ inv) if (rec["dir"] == "io" and oe_eff) else _bit(val[k]["pad"], r)
                exp_i |= (port_in ^ inv) << r
            if rec["dir"] != "o":
                got_i = e.value(e.sig_nets(rec["i"]), memo) if nir else e.top_value(f"\\s{rec['x']}_i", memo)
                want_i = regs[k]["i"] if ff else exp_i
                if got_i != want_i:
                    return ("i", f"inputs {val}: buffer on [{rec['a']}:{rec['e']}] i = {got_i:b}, want {want_i:b}")
            nxt.append({"i": exp_i, "o": val[k]["o"], "oe": val[k]["oe"]})
        if ff:
            e.tick(cd.clk) if nir else e.tick("\\clk")
            regs = nxt
    _inc(out, "dirs_valuations", 1 << total)
    out["cov"]["evaluations"] += 1 << total
    return None


def w_port_dirs(task):
    kind, w, quick = task
    warnings.simplefilter("ignore")
    out = _new_out()
    mask = 0b0110 & ((1 << w) - 1)
    for x, parts in enumerate(dir_designs(w)):
        for cls in (("Buffer", "FFBuffer") if (not quick or x % 4 == 0) else ("Buffer",)):
            dirs_case({"leg": "dirs", "kind": kind, "w": w, "mask": mask, "parts": parts, "cls": cls}, out)
    return out


# --------------------------------------------------------------------------- leg D4: wrapped buffers
WRAPPERS = ("en", "rst", "ren")      # EnableInserter(en_k), ResetInserter(rst_k), DomainRenamer({"sync": "other"})


def wrap_combos():
    """one wrapper, or two nested (innermost first); renaming twice is the same as once"""
    return [[a] for a in WRAPPERS] + [[a, b] for a in WRAPPERS for b in WRAPPERS if (a, b) != ("ren", "ren")]


def wrap_model(wrappers):
    """-> (domain the FFBuffer registers end up in, indices of the enables that gate them).
    docs/guide `lang-controlinserter`: controls are keyed by domain name ("sync" here) and apply to the logic that is in
    that domain at the point of application; EnableInserter: registers change only while every enable is 1;
    ResetInserter: reset-less signals (the FFBuffer registers are) are not affected; DomainRenamer moves the logic."""
    cur, enables, k = "sync", [], {"en": 0, "rst": 0}
    for wname in wrappers:
        if wname == "ren":
            if cur == "sync":
                cur = "other"
        else:
            if wname == "en" and cur == "sync":
                enables.append(k["en"])
            k[wname] += 1
    return cur, enables


def _wrap_build(case):
    from amaranth.hdl import Module, ClockDomain, IOPort, Signal, EnableInserter, ResetInserter, DomainRenamer
    from amaranth.lib import io
    kind, w, mask, cls, bufdir = case["kind"], case["w"], case["mask"], case["cls"], case["bufdir"]
    inv = tuple(bool((mask >> j) & 1) for j in range(w))
    if kind == "se":
        iop = {"io": IOPort(w, name="pw")}
        port = io.SingleEndedPort(iop["io"], invert=inv)
    else:
        iop = {"p": IOPort(w, name="pwp"), "n": IOPort(w, name="pwn")}
        port = io.DifferentialPort(iop["p"], iop["n"], invert=inv)
    m = Module()
    cds = {"sync": ClockDomain("sync"), "other": ClockDomain("other")}
    m.domains += cds.values()
    ctl = {"en": [], "rst": []}
    wrapfns = []
    for wname in case["wrappers"]:
        if wname == "ren":
            wrapfns.append(DomainRenamer({"sync": "other"}))
        else:
            sig = Signal(name=f"{wname}{len(ctl[wname])}")
            ctl[wname].append(sig)
            wrapfns.append((EnableInserter if wname == "en" else ResetInserter)(sig))
    buf = getattr(io, cls)(bufdir, port)
    inner_w, outer_w = wrapfns[:-1], wrapfns[-1]
    x = buf
    if case["place"] == "c":
        mid = Module()
        mid.submodules.buf = x
        x = mid
    for f in (inner_w if case["place"] != "a" else []):
        x = f(x)
    if case["place"] == "a":
        for f in inner_w:
            x = f(x)
    else:
        box = Module()
        box.submodules.inner = x
        x = box
    m.submodules.wrapped = outer_w(x)
    sig = {}
    ports = []
    if bufdir != "o":
        sig["i"] = Signal(w, name="s_i")
        m.d.comb += sig["i"].eq(buf.i)
        ports.append(sig["i"])
    if bufdir != "i":
        sig["o"], sig["oe"] = Signal(w, name="s_o"), Signal(1, name="s_oe")
        m.d.comb += [buf.o.eq(sig["o"]), buf.oe.eq(sig["oe"])]
        ports += [sig["o"], sig["oe"]]
    ports += ctl["en"] + ctl["rst"] + [cds["sync"].clk, cds["sync"].rst, cds["other"].clk, cds["other"].rst]
    return m, ports, sig, ctl, iop, cds


class _Adapter:
    """uniform access to the netlist evaluator / the RTLIL evaluator of one wrapped-buffer design"""
    def __init__(self, which, e, sig, ctl, iop, cds, pidx, kind):
        self.which, self.e, self.sig, self.ctl, self.iop, self.cds, self.pidx = which, e, sig, ctl, iop, cds, pidx
        self.true_half = "io" if kind == "se" else "p"
        self.nir = which == "nir"
        for cd in cds.values():
            self.set(cd.clk, 0)
            self.set(cd.rst, 0)

    def set(self, signal, v):
        if self.nir:
            if signal in self.e.nl.signals:
                self.e.set_signal(signal, v)
        else:
            self.e.set_top("\\" + signal.name, v)

    def apply(self, val, w):
        for name in ("o", "oe"):
            if name in self.sig:
                self.set(self.sig[name], val[name])
        for k, s_ in enumerate(self.ctl["en"]):
            self.set(s_, val["en"][k])
        for k, s_ in enumerate(self.ctl["rst"]):
            self.set(s_, val["rst"][k])
        for j in range(w):
            if self.nir:
                self.e.set_pad(self.pidx.get(id(self.iop[self.true_half])), j, _bit(val["pad"], j))
            else:
                self.e.ext[self.e.find(((), "\\" + self.iop[self.true_half].name, j))] = _bit(val["pad"], j)

    def observe(self, w):
        memo = {}
        drv = self.e.drivers(memo) if self.nir else None
        d = {}
        for h, p in self.iop.items():
            for j in range(w):
                d[(h, j)] = drv.get((self.pidx.get(id(p)), j), []) if self.nir else self.e.pad_drivers("\\" + p.name, j, memo)
        i = None
        if "i" in self.sig:
            i = self.e.value(self.e.sig_nets(self.sig["i"]), memo) if self.nir else self.e.top_value("\\s_i", memo)
        return d, i

    def tick(self, dom):
        cd = self.cds[dom]
        if self.nir:
            return self.e.tick(cd.clk) if cd.clk in self.e.nl.signals else 0
        return self.e.tick("\\" + cd.clk.name)


def _wrap_case(case, out):
    from amaranth.hdl._ir import Fragment, build_netlist
    from amaranth.back import rtlil
    from ..ref.c18_netlist import NirEval, RtlilEval, parse_rtlil
    kind, w, mask, cls, bufdir = case["kind"], case["w"], case["mask"], case["cls"], case["bufdir"]
    wr = ">".join(case["wrappers"])
    tag = f"{cls}({bufdir}) on a {kind} port (width {w}, invert mask {mask:0{w}b}) wrapped [{wr}] (innermost first), placement {case['place']}"
    sigbase = f"{cls}:{bufdir}:{kind}:w{w}:{case['place']}:{wr}"
    out["cov"]["evaluations"] += 1
    _inc(out, "wrap_designs")
    if bufdir != "i" and any(x in ("en", "rst") for x in case["wrappers"]):
        _inc(out, "wrap_driving_designs_under_control_inserters")
        out["cov"]["distinct_nontrivial"] += 1
    m, ports, sig, ctl, iop, cds = _wrap_build(case)
    nl = build_netlist(Fragment.get(m, None), ports=ports, name="top")
    ev = NirEval(nl)
    pidx = {id(p): k for k, p in enumerate(nl.io_ports)}
    bad = _wrap_explore(case, _Adapter("nir", ev, sig, ctl, iop, cds, pidx, kind), out)
    if bad:
        _viol(out, f"net:wrapped:nir:{sigbase}:{bad[0]}", f"{tag}: fine netlist: {bad[1]}", case)     # the RTLIL is judged on its own
    m2, ports2, sig2, ctl2, iop2, cds2 = _wrap_build(case)
    text, _n = rtlil.convert_fragment(Fragment.get(m2, None), ports=ports2, name="top", emit_src=False)
    _inc(out, "wrap_rtlil_texts")
    try:
        rv = RtlilEval(parse_rtlil(text), "\\top")
        bad = _wrap_explore(case, _Adapter("rtlil", rv, sig2, ctl2, iop2, cds2, None, kind), out)
    except Exception as e:      # noqa: BLE001
        bad = ("malformed", f"the emitted RTLIL cannot be interpreted: {type(e).__name__}: {e}")
    if bad:
        _viol(out, f"net:wrapped:rtlil:{sigbase}:{bad[0]}", f"{tag}: RTLIL: {bad[1]}", case)


def _wrap_explore(case, ad, out):
    """Buffer: every (o, oe, pad, controls) valuation.  FFBuffer: BFS over (evaluator registers x register model),
    every valuation followed by an edge of either clock."""
    kind, w, mask, cls, bufdir = case["kind"], case["w"], case["mask"], case["cls"], case["bufdir"]
    ff = cls == "FFBuffer"
    drive, sense = bufdir != "i", bufdir != "o"
    dom, enables = wrap_model(case["wrappers"])
    n_en, n_rst = case["wrappers"].count("en"), case["wrappers"].count("rst")
    vals = []
    for o in (range(1 << w) if drive else [0]):
        for oe in ((0, 1) if drive else [0]):
            for pad in (range(1 << w) if sense else [0]):
                for c in range(1 << (n_en + n_rst)):
                    vals.append({"o": o, "oe": oe, "pad": pad, "en": [_bit(c, k) for k in range(n_en)],
                                 "rst": [_bit(c, n_en + k) for k in range(n_rst)]})
    halves = (("io", 0),) if kind == "se" else (("p", 0), ("n", 1))
    e = ad.e
    root = (e.get_state(), (0, 0, 0))
    seen, frontier, trans = {root}, [root], 0
    while frontier:
        nxt = []
        for st, regs in frontier:
            i_reg, o_reg, oe_reg = regs
            for val in vals:
                e.set_state(st)
                ad.apply(val, w)
                drv, got_i = ad.observe(w)
                o_eff, oe_eff = (o_reg, oe_reg) if ff else (val["o"], val["oe"])
                samp = 0
                for j in range(w):
                    inv = (mask >> j) & 1
                    for h, neg in halves:
                        expd = [((_bit(o_eff, j) ^ inv) ^ neg, oe_eff)] if drive else []
                        if drv[(h, j)] != expd:
                            return (f"drive_{h}", f"inputs {val}, register model (i,o,oe)={regs}: port {ad.iop[h].name} bit {j} is driven by "
                                    f"(value, enable) {drv[(h, j)]}, want {expd}")
                    port_in = (_bit(o_eff, j) ^ inv) if (bufdir == "io" and oe_eff) else _bit(val["pad"], j)
                    samp |= (port_in ^ inv) << j
                if sense and got_i != (i_reg if ff else samp):
                    return ("i", f"inputs {val}, register model (i,o,oe)={regs}: buffer i = {got_i:b}, want {(i_reg if ff else samp):b}")
                trans += 1
                if not ff:
                    continue
                for clock in ("sync", "other"):
                    e.set_state(st)
                    ad.tick(clock)
                    if clock == dom and all(val["en"][k] for k in enables):
                        regs2 = (samp if sense else 0, val["o"] if drive else 0, val["oe"] if drive else 0)
                    else:
                        regs2 = regs
                    key = (e.get_state(), regs2)
                    trans += 1
                    if key not in seen:
                        seen.add(key)
                        nxt.append(key)
        frontier = nxt
    _inc(out, "wrap_states", len(seen))
    _inc(out, "wrap_transitions", trans)
    out["cov"]["evaluations"] += trans
    return None


def wrap_cases(quick):
    cases = []
    for kind in ("se", "diff"):
        for cls in ("Buffer", "FFBuffer"):
            for w in ((1, 2) if (cls == "Buffer" or not quick) else (1,)):
                for bufdir in DIRS:
                    for place in ("a", "b", "c"):
                        for wr in wrap_combos():
                            cases.append({"leg": "wrap", "kind": kind, "w": w, "mask": 0b01 if w == 2 else 1, "cls": cls,
                                          "bufdir": bufdir, "place": place, "wrappers": wr})
    return cases


def w_wrap(cases):
    warnings.simplefilter("ignore")
    out = _new_out()
    for case in cases:
        wrap_case(case, out)
    return out


# --------------------------------------------------------------------------- leg D5: where oe comes from
OE_SOURCES = ("default", "free", "c0", "c1", "s0", "s1")     # Const(0,1), Const(1,1), C(2,2)[0] (=0), C(2,2)[1] (=1)


def _oe_build(case):
    from amaranth.hdl import Module, ClockDomain, IOPort, Signal, Const, IOBufferInstance
    from amaranth.lib import io
    kind, w, mask, cls, bufdir, src = case["kind"], case["w"], case["mask"], case["cls"], case["bufdir"], case["oe"]
    inv = tuple(bool((mask >> j) & 1) for j in range(w))
    if kind == "se":
        iop = {"io": IOPort(w, name="po")}
    else:
        iop = {"p": IOPort(w, name="pop"), "n": IOPort(w, name="pon")}
    m = Module()
    m.domains.sync = cd = ClockDomain("sync")
    sig = {"o": Signal(w, name="s_o")}
    if bufdir == "io":
        sig["i"] = Signal(w, name="s_i")
    oe_val = {"c0": Const(0, 1), "c1": Const(1, 1), "s0": Const(2, 2)[0], "s1": Const(2, 2)[1]}.get(src)
    if src == "free":
        sig["oe"] = oe_val = Signal(1, name="s_oe")
    if cls == "IOBufferInstance":
        kw = {"o": sig["o"]}
        if oe_val is not None:
            kw["oe"] = oe_val
        if bufdir == "io":
            kw["i"] = sig["i"]
        m.submodules.buf = IOBufferInstance(iop["io"], **kw)
    else:
        port = (io.SingleEndedPort(iop["io"], invert=inv) if kind == "se" else io.DifferentialPort(iop["p"], iop["n"], invert=inv))
        buf = getattr(io, cls)(bufdir, port)
        m.submodules.buf = buf
        m.d.comb += buf.o.eq(sig["o"])
        if oe_val is not None:
            m.d.comb += buf.oe.eq(oe_val)
        if bufdir == "io":
            m.d.comb += sig["i"].eq(buf.i)
    ports = [sig["o"]] + ([sig["i"]] if "i" in sig else []) + ([sig["oe"]] if "oe" in sig else []) + [cd.clk, cd.rst]
    return m, ports, sig, iop, cd


def _oe_case(case, out):
    from amaranth.hdl._ir import Fragment, build_netlist
    from amaranth.back import rtlil
    from ..ref.c18_netlist import NirEval, RtlilEval, parse_rtlil
    kind, w, mask, cls, bufdir, src = case["kind"], case["w"], case["mask"], case["cls"], case["bufdir"], case["oe"]
    tag = f"{cls}({bufdir}) on a {kind} port (width {w}, invert mask {mask:0{w}b}) with oe from '{src}'"
    sigbase = f"{cls}:{bufdir}:{kind}:w{w}:m{mask:0{w}b}:oe={src}"
    out["cov"]["evaluations"] += 1
    _inc(out, "oe_designs")
    if src in ("c0", "s0") or (src == "default" and bufdir == "io" and cls != "IOBufferInstance"):
        _inc(out, "oe_constant_zero_designs")
        out["cov"]["distinct_nontrivial"] += 1
    if src in ("c1", "s1", "default") and bufdir == "o":
        _inc(out, "oe_constant_one_output_designs")
    m, ports, sig, iop, cd = _oe_build(case)
    nl = build_netlist(Fragment.get(m, None), ports=ports, name="top")
    ev = NirEval(nl)
    for s_ in (cd.clk, cd.rst):
        if s_ in nl.signals:
            ev.set_signal(s_, 0)
    pidx = {id(p): k for k, p in enumerate(nl.io_ports)}
    bad = _oe_semantics(case, "nir", ev, sig, iop, cd, pidx, out)
    if bad:
        _viol(out, f"net:oe-source:nir:{sigbase}:{bad[0]}", f"{tag}: fine netlist: {bad[1]}", case)
    m2, ports2, sig2, iop2, cd2 = _oe_build(case)
    text, _n = rtlil.convert_fragment(Fragment.get(m2, None), ports=ports2, name="top", emit_src=False)
    _inc(out, "oe_rtlil_texts")
    try:
        rv = RtlilEval(parse_rtlil(text), "\\top")
        bad = _oe_semantics(case, "rtlil", rv, sig2, iop2, cd2, None, out)
    except Exception as e:      # noqa: BLE001
        bad = ("malformed", f"the emitted RTLIL cannot be interpreted: {type(e).__name__}: {e}")
    if bad:
        _viol(out, f"net:oe-source:rtlil:{sigbase}:{bad[0]}", f"{tag}: RTLIL: {bad[1]}", case)


def _oe_semantics(case, which, e, sig, iop, cd, pidx, out):
    """every (o, pad[, free oe]) valuation: with the enable 0 no pad bit is driven by the design, with the enable 1
    every bit is driven with o ^ invert (complement half: its negation); i as for any buffer"""
    kind, w, mask, cls, bufdir, src = case["kind"], case["w"], case["mask"], case["cls"], case["bufdir"], case["oe"]
    nir = which == "nir"
    ff = cls == "FFBuffer"
    if cls == "IOBufferInstance":
        mask = 0
    true_half = "io" if kind == "se" else "p"
    fixed = {"c0": 0, "s0": 0, "c1": 1, "s1": 1}.get(src)
    if src == "default":      # IOBufferInstance: oe defaults to 1; Buffer/FFBuffer signature: init 1 for Output, 0 for Bidir
        fixed = 1 if (cls == "IOBufferInstance" or bufdir == "o") else 0
    regs = {"i": 0, "o": 0, "oe": 0}
    nval = 0
    for oe in ((0, 1) if fixed is None else (fixed,)):
        for o in range(1 << w):
            for pad in (range(1 << w) if bufdir == "io" else [0]):
                nval += 1
                if nir:
                    e.set_signal(sig["o"], o)
                    if "oe" in sig:
                        e.set_signal(sig["oe"], oe)
                else:
                    e.set_top("\\s_o", o)
                    e.set_top("\\s_oe", oe)
                for j in range(w):
                    if nir:
                        e.set_pad(pidx.get(id(iop[true_half])), j, _bit(pad, j))
                    else:
                        e.ext[e.find(((), "\\" + iop[true_half].name, j))] = _bit(pad, j)
                o_eff, oe_eff = (regs["o"], regs["oe"]) if ff else (o, oe)
                memo = {}
                drv = e.drivers(memo) if nir else None
                samp = 0
                for j in range(w):
                    inv = (mask >> j) & 1
                    for h, neg in ((("io", 0),) if kind == "se" else (("p", 0), ("n", 1))):
                        d = drv.get((pidx.get(id(iop[h])), j), []) if nir else e.pad_drivers("\\" + iop[h].name, j, memo)
                        active = [v for v, en in d if en]
                        want = [(_bit(o_eff, j) ^ inv) ^ neg] if oe_eff else []
                        if active != want or len(d) != 1:
                            return (f"drive_{h}", f"o={o:0{w}b} enable={oe_eff}{' (registered)' if ff else ''}: port {iop[h].name} bit {j} has drivers "
                                    f"(value, enable) {d}; active values {active}, want {want} from exactly one driver")
                    port_in = (_bit(o_eff, j) ^ inv) if oe_eff else _bit(pad, j)
                    samp |= (port_in ^ inv) << j
                if bufdir == "io":
                    got = e.value(e.sig_nets(sig["i"]), memo) if nir else e.top_value("\\s_i", memo)
                    want_i = regs["i"] if ff else samp
                    if got != want_i:
                        return ("i", f"o={o:0{w}b} enable={oe_eff} pad={pad:0{w}b}: i = {got:0{w}b}, want {want_i:0{w}b}")
                if ff:
                    e.tick(cd.clk) if nir else e.tick("\\clk")
                    regs = {"i": samp, "o": o, "oe": oe}
    _inc(out, "oe_valuations", nval)
    out["cov"]["evaluations"] += nval
    return None


def oe_cases():
    cases = []
    for cls in ("Buffer", "FFBuffer", "IOBufferInstance"):
        for kind in (("se", "diff") if cls != "IOBufferInstance" else ("se",)):
            for w in (1, 2):
                for bufdir in ("o", "io"):
                    for src in OE_SOURCES:
                        cases.append({"leg": "oe", "kind": kind, "w": w, "mask": 0b01 if w == 2 else 1, "cls": cls,
                                      "bufdir": bufdir, "oe": src})
    return cases


def w_oe(cases):
    warnings.simplefilter("ignore")
    out = _new_out()
    for case in cases:
        oe_case(case, out)
    return out


# --------------------------------------------------------------------------- leg E: vendor get_io_buffer overrides
VENDOR_PLATFORMS = {
    # name: (attribute of amaranth.vendor, class attributes of a minimal concrete subclass)
    "ice40": ("SiliconBluePlatform", {"device": "iCE40HX8K", "package": "CT256", "default_clk": None}),
    "ecp5": ("LatticePlatform", {"device": "LFE5U-25F", "package": "BG256", "speed": "6"}),
    "machxo2": ("LatticePlatform", {"device": "LCMXO2-1200HC", "package": "TG100", "speed": "6"}),
    "nexus": ("LatticePlatform", {"device": "LIFCL-40", "package": "BG400", "speed": "9"}),
    "xilinx7": ("XilinxPlatform", {"device": "xc7a35t", "package": "csg324", "speed": "1"}),
    "altera": ("AlteraPlatform", {"device": "5CSEMA5", "package": "F31", "speed": "C6"}),
    "gowin": ("GowinPlatform", {"part": "GW1N-LV1QN48C6/I5", "family": "GW1N-1", "parse_part": lambda self: None}),
}


def vendor_platform(name):
    from amaranth import vendor
    base, attrs = VENDOR_PLATFORMS[name]
    cls = type("C18" + name, (getattr(vendor, base),), dict(attrs, resources=[], connectors=[]))
    return cls()


def _vendor_build(case, plat):
    from amaranth.hdl import Module, ClockDomain, IOPort
    from amaranth.build.res import PortMetadata
    from amaranth.lib import io
    kind, w, mask, cls, bufdir = case["kind"], case["w"], case["mask"], case["cls"], case["bufdir"]
    inv = tuple(bool((mask >> j) & 1) for j in range(w))
    md = lambda pre: tuple(PortMetadata(f"{pre}{j}", {}) for j in range(w))
    if kind == "se":
        iop = {"io": IOPort(w, name="pv", metadata=md("pv"))}
        port = io.SingleEndedPort(iop["io"], invert=inv)
    else:
        iop = {"p": IOPort(w, name="pvp", metadata=md("pvp")), "n": IOPort(w, name="pvn", metadata=md("pvn"))}
        port = io.DifferentialPort(iop["p"], iop["n"], invert=inv)
    m = Module()
    m.domains.sync = cd = ClockDomain("sync")
    buf = getattr(io, cls)(bufdir, port)
    m.submodules.buf = buf
    ports = ([buf.i] if bufdir != "o" else []) + ([buf.o, buf.oe] if bufdir != "i" else []) + [cd.clk, cd.rst]
    return m, ports, buf, iop, cd


def _vendor_case(case, out):
    """the plain-Amaranth logic around the vendor pad cells of a platform's get_io_buffer lowering"""
    from amaranth.hdl._ir import Fragment, build_netlist
    from amaranth.back import rtlil
    from ..ref.c18_netlist import NirEval, RtlilEval, parse_rtlil
    plat_name, kind, w, mask, cls, bufdir = case["plat"], case["kind"], case["w"], case["mask"], case["cls"], case["bufdir"]
    tag = f"{plat_name}: {cls}({bufdir}) on a {kind} port (width {w}, invert mask {mask:0{w}b})"
    sigbase = f"{plat_name}:{cls}:{bufdir}:{kind}:w{w}:m{mask:0{w}b}"
    plat = vendor_platform(plat_name)
    out["cov"]["evaluations"] += 1
    m, ports, buf, iop, cd = _vendor_build(case, plat)
    try:
        frag = Fragment.get(m, plat)
    except (TypeError, NotImplementedError, ValueError) as e:
        import traceback
        if "/amaranth/vendor/" not in traceback.extract_tb(e.__traceback__)[-1].filename:
            raise
        # a combination the vendor lowering declines (e.g. iCE40 bidirectional differential): nothing to judge
        _inc(out, "vendor_declined")
        out.setdefault("declined", []).append(f"{plat_name}:{cls}:{bufdir}:{kind}")
        return
    nl = build_netlist(frag, ports=ports, name="top")
    _inc(out, "vendor_designs")
    if mask not in (0, (1 << w) - 1):
        _inc(out, "vendor_mixed_mask_designs")
        out["cov"]["distinct_nontrivial"] += 1
    ev = NirEval(nl, vendor=True)
    for s_ in (cd.clk, cd.rst):
        if s_ in nl.signals:
            ev.set_signal(s_, 0)
    pidx = {id(p): k for k, p in enumerate(nl.io_ports)}
    pads = [(ci, spec, touch, (lambda k, memo, ci=ci, c=c, spec=spec: ev.vendor_pins(ci, c, spec, k, memo)))
            for ci, c, spec, touch in ev.vendor_pads()]
    keyof = {h: {j: (pidx.get(id(p)), j) for j in range(w)} for h, p in iop.items()}
    bad = _vendor_semantics(case, pads, keyof, ev.vfree,
                            lambda o, oe: (ev.set_signal(buf.o, o), ev.set_signal(buf.oe, oe)) if bufdir != "i" else None,
                            lambda memo: ev.value(ev.sig_nets(buf.i), memo), out)
    if bad:
        _viol(out, f"vendor:nir:{sigbase}:{bad[0]}", f"{tag}: fine netlist: {bad[1]}", case)
    m2, ports2, buf2, iop2, _cd2 = _vendor_build(case, plat)
    text, _n = rtlil.convert_fragment(Fragment.get(m2, plat), ports=ports2, name="top", emit_src=False)
    _inc(out, "vendor_rtlil_texts")
    try:
        rv = RtlilEval(parse_rtlil(text), "\\top")
        rv.transparent_ff = True
        pads = [(cid, spec, touch, (lambda k, memo, cid=cid, spec=spec, cn=cn, path=path: rv.vendor_pins(cid, spec, cn, path, k, memo)))
                for cid, _typ, spec, cn, path, touch in rv.vendor_pads()]
        keyof = {h: {j: rv.terminal(((), "\\" + p.name, j)) for j in range(w)} for h, p in iop2.items()}
        bad = _vendor_semantics(case, pads, keyof, rv.vfree,
                                lambda o, oe: (rv.set_top("\\o", o), rv.set_top("\\oe", oe)) if bufdir != "i" else None,
                                lambda memo: rv.top_value("\\i", memo), out)
    except Exception as e:      # noqa: BLE001
        bad = ("malformed", f"the emitted RTLIL cannot be interpreted: {type(e).__name__}: {e}")
    if bad:
        _viol(out, f"vendor:rtlil:{sigbase}:{bad[0]}", f"{tag}: RTLIL: {bad[1]}", case)


def _vendor_semantics(case, pads, keyof, vfree, set_inputs, get_i, out):
    """pads: [(cell id, spec, {pad bit key: (role, channel)}, pins(channel, memo) -> (din, enable, dout key))]"""
    kind, w, mask, bufdir = case["kind"], case["w"], case["mask"], case["bufdir"]
    drive, sense = bufdir != "i", bufdir != "o"
    true_half = "io" if kind == "se" else "p"
    # ---- which vendor cell handles which port bit
    plan = []           # (j, pins of the true-half cell, channel, [(pins, channel) of separate complement-half cells])
    claimed = set()
    for j in range(w):
        users = [(cid, touch[keyof[true_half][j]], pins) for cid, _s, touch, pins in pads if keyof[true_half][j] in touch]
        if len(users) != 1 or users[0][1][0] != "pad":
            return ("uses", f"bit {j} of the port is handled by {len(users)} vendor pad cells {[u[0] for u in users]}, want exactly one (true pin)")
        cid, (_role, k), pins = users[0]
        claimed.add((cid, keyof[true_half][j]))
        extra = []
        if kind == "diff":
            nusers = [(c2, touch[keyof["n"][j]], p2) for c2, _s, touch, p2 in pads if keyof["n"][j] in touch]
            if len(nusers) > 1:
                return ("uses", f"complement bit {j} is handled by {len(nusers)} vendor cells")
            for c2, (role2, k2), p2 in nusers:
                claimed.add((c2, keyof["n"][j]))
                if role2 == "padn":
                    if c2 != cid or k2 != k:
                        return ("uses", f"complement bit {j} sits on the complement pin of another cell / channel than the true bit")
                else:
                    extra.append((p2, k2))
        plan.append((j, pins, k, extra))
    for cid, _s, touch, _p in pads:
        for key in touch:
            if (cid, key) not in claimed:
                return ("uses", f"vendor cell {cid} also touches {key}, which is not the port bit it serves")
    # ---- values: every (o, oe, value delivered by each pad cell)
    nval = 0
    for o in (range(1 << w) if drive else [0]):
        for oe in ((0, 1) if drive else [0]):
            for x in (range(1 << w) if sense else [0]):
                nval += 1
                set_inputs(o, oe)
                memo = {}
                # the free outputs of the pad cells must be in place before anything is evaluated
                pre = [(j, pins(k, {})) for j, pins, k, _e in plan]
                vfree.clear()
                for j, (_d, _e, dkey) in pre:
                    if dkey is not None:
                        vfree[dkey] = _bit(x, j)
                for j, pins, k, extra in plan:
                    inv = (mask >> j) & 1
                    din, en, dkey = pins(k, memo)
                    if drive:
                        if din != _bit(o, j) ^ inv:
                            return ("o", f"o={o:0{w}b} oe={oe}: the data reaching the pad cell of bit {j} is {din}, want o[{j}]^{inv} = {_bit(o, j) ^ inv}")
                        if en != oe:
                            return ("oe", f"o={o:0{w}b} oe={oe}: the (active-high) enable reaching the pad cell of bit {j} is {en}")
                        for p2, k2 in extra:
                            d2, e2, dk2 = p2(k2, memo)
                            if d2 != 1 - (_bit(o, j) ^ inv) or e2 != oe or dk2 is not None:
                                return ("o_n", f"o={o:0{w}b} oe={oe}: the complement pad cell of bit {j} gets data {d2}, enable {e2}, "
                                        f"want {1 - (_bit(o, j) ^ inv)}, {oe} and no input path")
                    elif din is not None or extra:
                        return ("uses", f"an input buffer has a pad cell with a data input / a complement cell for bit {j}")
                    if sense and dkey is None:
                        return ("i", f"the pad cell of bit {j} has no output towards the fabric")
                if sense:
                    got = get_i(memo)
                    want = x ^ mask
                    if got != want:
                        return ("i", f"pad cells deliver {x:0{w}b}: buffer i = {got:0{w}b}, want {want:0{w}b} (mask {mask:0{w}b})")
    _inc(out, "vendor_valuations", nval)
    out["cov"]["evaluations"] += nval
    return None


def vendor_cases():
    cases = []
    for plat in VENDOR_PLATFORMS:
        for kind in ("se", "diff"):
            for w in (1, 2, 3):
                for mask in range(1 << w):
                    for cls in ("Buffer", "FFBuffer"):
                        for bufdir in DIRS:
                            cases.append({"leg": "vendor", "plat": plat, "kind": kind, "w": w, "mask": mask, "cls": cls, "bufdir": bufdir})
    return cases


def w_vendor(cases):
    warnings.simplefilter("ignore")
    out = _new_out()
    for case in cases:
        vendor_case(case, out)
    return out


def _guarded(fn, prefix):
    """anything the legs do to a legal design must work: an exception escaping from amaranth is a finding,
    not a harness error (the exception class is part of the signature)"""
    def run_case(case, out):
        try:
            fn(case, out)
        except Exception as e:      # noqa: BLE001
            import traceback
            tb = traceback.extract_tb(e.__traceback__)
            inside = [f for f in tb if "/amaranth/" in f.filename]
            if not inside:
                raise               # a bug of the check itself stays a harness error
            if "oe" in case:
                ts = f"w{case['w']}:oe={case['oe']}"
            elif "plat" in case:
                ts = f"{case['plat']}:w{case['w']}:m{case['mask']:b}"
            elif "wrappers" in case:
                ts = f"w{case['w']}:{case['place']}:{'>'.join(case['wrappers'])}"
            elif "term" not in case:
                ts = "+".join(f"[{a}:{e}]={d}" for a, e, d in case["parts"]) + f":w{case['w']}"
                case = dict(case, bufdir="per-slice")
            else:
                ts = term_str(case["term"], case["bases"])
            _viol(out, f"{prefix}:exception:{type(e).__name__}:{case.get('cls', 'Buffer')}:{case['bufdir']}:{case.get('kind', 'sim')}:{ts}",
                  f"{case.get('cls', 'Buffer')}({case['bufdir']}) on {case.get('kind', 'sim')} {ts}: unexpected {type(e).__name__}: {e} "
                  f"(at {inside[-1].filename.split('/amaranth/')[-1]}:{inside[-1].lineno})", case)
    return run_case


sim_case = _guarded(_sim_case, "simbuf")
net_case = _guarded(_net_case, "net")
dirs_case = _guarded(_dirs_case, "net:multi")
wrap_case = _guarded(_wrap_case, "net:wrapped")
vendor_case = _guarded(_vendor_case, "vendor")
oe_case = _guarded(_oe_case, "net:oe-source")


# =============================================================================================== driver
WORKERS = {"A": w_algebra, "Amix": w_algebra_mixed, "B": w_sim, "C": w_ff, "D": w_net, "D2": w_two_buffers, "D3": w_port_dirs, "D4": w_wrap, "E": w_vendor, "D5": w_oe}


def _dispatch(t):
    import time
    t0 = time.process_time()
    out = WORKERS[t[0]](t[1])
    out["leg"] = t[0]
    out["cov"]["cpu_s_leg_" + t[0][0]] = round(time.process_time() - t0, 3)
    return out


def run(rep):
    tasks = algebra_tasks(rep)
    # leg B
    sim_steps = rep.pick((None, -1, 2), (None, 1, -1, 2, -2, 3))
    sc = sim_cases(rep.quick, sim_steps, rep.pick(4, 6), rep.pick(2, 3))
    for ch in chunks(sc, rep.pick(60, 40)):
        tasks.append(("B", ch))
    # leg C
    ffc = ff_configs(rep)
    for c in ffc:
        tasks.append(("C", dict(c, replay_n=rep.pick(6, 20))))
    # leg D
    nc = net_cases(rep.quick, rep.pick((None,), (None, -1, 2, -2)), rep.pick(4, 6))
    ncs = []
    for x, (kind, bases, term) in enumerate(nc):
        # FFBuffer wraps Buffer: in the quick tier it is converted for every third expression
        clss = ("Buffer", "FFBuffer") if (not rep.quick or x % 3 == 0) else ("Buffer",)
        ncs.append((kind, bases, term, clss))
    for ch in chunks(ncs, 40):
        tasks.append(("D", ch))
    for kind in ("se", "diff"):
        for w in rep.pick((1, 2, 3), (1, 2, 3, 4)):
            tasks.append(("D2", (kind, w)))
    for kind in ("se", "diff"):
        for w in (2, 3, 4):
            tasks.append(("D3", (kind, w, rep.quick)))
    for ch in chunks(wrap_cases(rep.quick), 24):
        tasks.append(("D4", ch))
    for ch in chunks(oe_cases(), 30):
        tasks.append(("D5", ch))
    for ch in chunks(vendor_cases(), 48):
        tasks.append(("E", ch))
    tasks = rotate(tasks, rep.seed)
    flags = set()
    declined = set()
    for part in pmap(_dispatch, tasks, rep.procs):
        flags.update(part.pop("flags", []))
        declined.update(part.pop("declined", []))
        leg = part.pop("leg")
        if leg == "C":
            for s in part["samples"]:
                rep.sample(s, limit=16)
            part["samples"] = []
        rep.merge(part)
    out = _new_out()
    ff_zero_width(out)
    rep.merge(out)
    cov = rep.cov
    for k in list(cov):
        if k.startswith("cpu_s_leg_"):
            cov[k] = round(cov[k], 1)
    rep.setcov("sim_expressions", len(sc))
    rep.setcov("net_expressions", len(nc))
    rep.setcov("ff_flags_seen", sorted(flags))
    rep.setcov("vendor_platforms", sorted(VENDOR_PLATFORMS))
    rep.setcov("vendor_declined_combinations", sorted(declined))
    rep.setcov("exhaustive", cov.get("ff_capped", 0) == 0)
    rep.setcov("rule",
               "A: every port expression of depth<=2 over ~, [k], [a:b:step], + on the 45 base ports (width 0..3 x every inversion mask x i/o/io) "
               "of each of SimulationPort/SingleEndedPort/DifferentialPort (binary families over reduced pools as listed in `bounds`), compared "
               "with a tuple algebra: class, len, direction, per-bit inversion and per-bit wire identity, or the documented exception class. "
               "B: Buffer(i/o/io) on every simulation-port expression of depth<=1 (+depth-2 families): illegal pairs must raise ValueError, "
               "legal ones are simulated for every (o, oe, pad input) valuation. C: FFBuffer BFS over all (o, oe, pad, clock subset, rst) inputs "
               "in product with one register per direction, pos/neg edge and split domains. D: Buffer/FFBuffer on SingleEnded/Differential "
               "port expressions (incl. every concatenation, in both orders, of contiguous slices of two different I/O ports of width 2..3, "
               "result width<=4): fine netlist and RTLIL text evaluated for every valuation; RTLIL that cannot be parsed/resolved "
               "(unknown wire, slice past the end of a wire, width mismatch, double driver) is a violation; exactly one buffer cell per port bit, "
               "double use -> DriverConflict. D3: real ports of width 2..4 partitioned into 1..3 contiguous slices, every assignment of "
               "{unused, i, o, io} Buffers (FFBuffers for every 4th design in quick) to the slices: the direction declared for the top-level port "
               "in the netlist and in the RTLIL text is the join of the using buffers' directions (all i -> input, all o -> output, otherwise inout; "
               "complement half: output iff some o/io buffer), one cell per bit, and every valuation through netlist and RTLIL. D4: Buffer (width 1..2) / "
               "FFBuffer (width 1; thorough 1..2) i/o/io on real ports wrapped directly / one / two modules up by EnableInserter, ResetInserter, "
               "DomainRenamer(sync->other) and every nesting of two: netlist and RTLIL, every (o, oe, pad, en/rst) valuation; Buffer behaviour is "
               "independent of the controls, FFBuffer by BFS with an edge of either clock after every valuation against the documented rules "
               "(enable gates the registers, reset-less registers ignore inserted resets, the renamer moves them to the other clock). D5: Buffer / FFBuffer / "
               "bare IOBufferInstance of direction o and io (width 1..2) with oe taken from: the default, a free signal, Const(0,1), Const(1,1), "
               "C(2,2)[0], C(2,2)[1]: netlist and RTLIL for every (o, pad[, oe]) valuation: enable 0 -> no pad bit is actively driven (a plain RTLIL "
               "`connect` onto the port wire counts as an unconditional driver), enable 1 -> every bit driven with o^invert by exactly one driver. E: every platform "
               "overriding get_io_buffer (iCE40, ECP5, MachXO2, Nexus, Xilinx 7-series, Altera, Gowin): Buffer/FFBuffer i/o/io on SingleEnded/Differential "
               "ports of width 1..3 with every inversion mask, lowered through the platform; vendor pad cells are opaque per-bit boxes, registers and "
               "register cells transparent, LUT4 by its INIT: for every (o, oe, pad-cell output) valuation, in netlist and RTLIL, the data reaching the "
               "pad cell of wire j is o[j]^invert[j] (complement cell: its negation), its enable is oe, i[j] is the cell output ^invert[j], and every "
               "port bit is served by exactly one pad cell. non-trivial = derived (non-base) non-empty expression / simulated or converted case with a "
               "non-zero inversion mask / reachable FFBuffer product state / overlapping two-buffer pair")
    rep.setcov("bounds", {
        "base_ports": "width 0..3, all masks, directions i/o/io (45 per port class)",
        "slice_alphabet": f"all in-range ints; start/stop in {{None}} u [-w-1, w+1]; steps {list(sim_steps)}; slices normalising to start>stop "
                          "with positive step excluded (core Value/IOValue slicing raises IndexError for them)",
        "algebra_families": "u(u(b)); b1+b2, u(b1+b2), (b1+b2)+b3, b3+(b1+b2); u(b1)+b2, b2+u(b1); d1+d1' over bases of width<=%d" % rep.pick(1, 2),
        "sim_add_width_sum_max": rep.pick(4, 6), "net_add_width_sum_max": rep.pick(4, 6),
        "ff_widths": list(rep.pick((1, 2), (1, 2, 3)))})
    for case in ({"leg": "simbuf", "bases": [[3, 0b011, "io"]], "term": ["inv", ["sl", ["b", 0], None, None, -1]], "bufdir": "io"},
                 {"leg": "net", "kind": "diff", "bases": [[2, 0b01, "io"], [1, 1, "o"]], "term": ["add", ["b", 0], ["b", 1]],
                  "bufdir": "o", "cls": "FFBuffer"}):
        one = _new_out()
        (sim_case if case["leg"] == "simbuf" else net_case)(case, one)
        rep.sample({"case": f"{case.get('cls', 'Buffer')}({case['bufdir']}) on {case.get('kind', 'sim')} {term_str(case['term'], case['bases'])}",
                    "measured": {k: v for k, v in one["cov"].items() if v}, "violations": len(one["violations"])}, limit=20)
    rep.sample({"expression": "~b0[::-1] on SimulationPort(io, 3, invert=0b011)",
                "reference": list(map(list, ref(["inv", ["sl", ["b", 0], None, None, -1]], [[3, 0b011, "io"]])[2]))}, limit=20)
    # ---- vacuity guards: every antecedent the invariants rely on was exercised
    need = {"algebra_rejections": "port expressions that must raise", "algebra_mixed_inversion_results": "results with a mixed inversion tuple",
            "algebra_mixed_kind": "`+` across port classes", "sim_illegal_pairs": "illegal port/buffer direction pairs",
            "sim_cases_with_inversion": "simulated buffers with a non-zero mask", "sim_zero_width_cases": "zero-width buffers",
            "sim_loopback_valuations": "bidirectional valuations where the looped-back value differs from the pad input",
            "net_double_use_designs": "expressions using a port bit twice", "net_netlists": "netlists built",
            "net_rtlil_texts": "RTLIL texts interpreted",
            "net_rtlil_two_port_continuing_index_concats": "RTLIL of a[x:y]+b[y:z] over two different I/O ports", "net_illegal_pairs": "illegal pairs on real ports",
            "dirs_mixed_i_o_designs": "one real port buffered as input on one slice and output on another",
            "dirs_rtlil_texts": "multi-buffer RTLIL texts", "dirs_valuations": "multi-buffer valuations",
            "wrap_driving_designs_under_control_inserters": "o/io buffers on real ports under EnableInserter/ResetInserter",
            "wrap_rtlil_texts": "RTLIL texts of wrapped buffers", "wrap_transitions": "wrapped-buffer valuations / edges",
            "vendor_mixed_mask_designs": "vendor lowerings of ports with a mixed inversion mask",
            "vendor_rtlil_texts": "RTLIL texts of vendor lowerings", "vendor_valuations": "vendor lowering valuations",
            "oe_constant_zero_designs": "o/io buffers whose enable is the constant 0",
            "oe_constant_one_output_designs": "output buffers whose enable is the constant 1",
            "oe_rtlil_texts": "RTLIL texts of the oe-source designs", "oe_valuations": "oe-source valuations",
            "two_buffers_conflict": "overlapping two-buffer designs", "two_buffers_disjoint": "disjoint two-buffer designs",
            "ff_states": "FFBuffer product states", "ff_traces_validated": "BFS traces replayed from reset"}
    # a run that already reports violations is not a pass; guards whose counters sit behind a failing step
    # (e.g. RTLIL texts after a conversion crash) must not turn that report into a harness error
    vac = (lambda cond, text: None) if rep.violations else rep.require
    for k, text in need.items():
        vac(cov.get(k, 0) > 0, f"{text} ({k}) never exercised")
    for f in ("i_edge", "o_edge", "both_clocks", "loopback", "oe_reg0", "oe_reg1", "rst_edge"):
        vac(f in flags, f"FFBuffer BFS flag {f} never observed")
    rep.assume("the power-on contents of the FFBuffer registers are not fixed by the statement: the model reads them off the outputs at reset")
    rep.assume("FFBuffer BFS state injection through ctx.set is validated by replaying shortest paths from reset on fresh simulators")
    rep.assume("slices that Python normalises to start>stop (x[2:1]) are outside the alphabet: core slicing rejects them with IndexError")
    rep.assume("the generic differential input buffer senses only the true half: the complement half may stay unused")


def replay(payload):
    warnings.simplefilter("ignore")
    leg = payload["leg"]
    out = _new_out()
    if leg == "algebra":
        check_term(payload["term"], payload["bases"], payload["kind"], out)
    elif leg == "simbuf":
        sim_case(payload, out)
    elif leg == "net":
        net_case(payload, out)
    elif leg == "oe":
        oe_case(payload, out)
    elif leg == "vendor":
        vendor_case(payload, out)
    elif leg == "wrap":
        wrap_case(payload, out)
    elif leg == "dirs":
        dirs_case(payload, out)
    elif leg == "ffzero":
        ff_zero_width(out)
        out["violations"] = [v for v in out["violations"] if v["payload"] == payload]
    elif leg == "two":
        full = w_two_buffers((payload["kind"], payload["bases"][0][0]))
        out["violations"] = [v for v in full["violations"] if v["payload"] == payload]
    elif leg == "ffbuf":
        from ..explore.bfs import replay_path
        cfg = {k: v for k, v in payload.items() if k not in ("path", "replay_n")}
        try:
            spec = FFSpec(cfg)
            idx = [spec.actions.index(tuple(a)) for a in payload["path"]]
            _key, errs = replay_path(spec, idx)
        except Exception as e:      # noqa: BLE001
            return [f"unexpected {type(e).__name__}: {e}"]
        return [f"step {i}: {e}" for i, e in errs]
    return [v["what"] for v in out["violations"]]
