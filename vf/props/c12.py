"""C12 Synchronous FIFOs refine a bounded queue for every strobe sequence -- full reachable graph (BFS)."""
import itertools

from ..core.pool import pmap, rotate
from ..explore.bfs import explore, replay_path
from ..sim.driver import System, elaborate

ID = "C12"
LEVEL = "model_checking"


class FifoSpec:
    def __init__(self, cls, depth, width, with_reset=False):
        self.cls, self.depth, self.width, self.with_reset = cls, depth, width, with_reset
        data = range(1 << width)
        self.actions = [(w_en, w_data, r_en, 0) for w_en in (0, 1) for w_data in (data if w_en else [0]) for r_en in (0, 1)]
        if with_reset:
            self.actions.append((0, 0, 0, 1))

    def describe(self):
        return {"cls": self.cls, "depth": self.depth, "width": self.width, "with_reset": self.with_reset}

    def build(self):
        from amaranth.hdl import Module, ClockDomain, Signal
        from amaranth.lib import fifo as F
        cls = getattr(F, self.cls)
        f = cls(width=self.width, depth=self.depth)
        m = Module()
        cd = ClockDomain("sync")
        m.domains.sync = cd
        m.submodules.fifo = f
        self.f = f
        frag = elaborate(m)
        sysm = System(frag, clocks=[cd.clk], inputs=[f.w_en, f.w_data, f.r_en, cd.rst])
        self.levels = [getattr(f, n) for n in ("level", "r_level", "w_level") if hasattr(f, n)]
        return sysm

    def model_init(self, sysm):
        return ((), 0)     # (entries oldest first, age of the head as oldest)

    def step(self, sysm, m, a):
        w_en, w_data, r_en, rst = a
        entries, age = m
        f = self.f
        ctx = sysm.ctx
        sysm.set_inputs(sysm.pack_inputs([w_en, w_data, r_en, rst]))
        w_rdy, r_rdy, r_data = ctx.get(f.w_rdy), ctx.get(f.r_rdy), ctx.get(f.r_data)
        errs, flags = [], []
        n = len(entries)
        if r_rdy:
            flags.append("r_rdy")
            if n == 0:
                errs.append("r_rdy asserted while the queue model is empty")
            elif r_data != entries[0]:
                errs.append(f"r_rdy with r_data={r_data}, oldest unread entry is {entries[0]}")
        else:
            flags.append("not_r_rdy")
        if w_rdy:
            flags.append("w_rdy")
            if n >= self.depth:
                errs.append(f"w_rdy asserted while {n} entries are held (depth {self.depth})")
        else:
            flags.append("not_w_rdy")
        for sig in self.levels:
            v = ctx.get(sig)
            if v != n:
                errs.append(f"{sig.name}={v} but {n} entries are held")
        need_free = 2 if self.cls == "SyncFIFOBuffered" else 1
        if self.depth - n >= need_free and self.depth > 0 and not w_rdy:
            errs.append(f"liveness: w_rdy low with {self.depth - n} free slots")
        if n > 0 and age >= 2 and not r_rdy:
            errs.append(f"liveness: head has been the oldest entry for {age} cycles and r_rdy is still low")
        if n == self.depth and self.depth:
            flags.append("full")
        if n == 0:
            flags.append("empty")
        # the edge
        sysm.pulse(1)
        if rst:
            return ((), 0), errs, tuple(flags + ["reset"])
        new = entries
        popped = False
        if r_en and r_rdy and new:
            new = new[1:]
            popped = True
            flags.append("read")
        if w_en and w_rdy:
            new = new + (w_data,)
            flags.append("write")
            if popped:
                flags.append("read+write")
        if not new:
            age2 = 0
        elif popped or not entries:
            age2 = 0
        else:
            age2 = min(age + 1, 2)
        return (new, age2), errs, tuple(flags)


def configs(rep):
    out = []
    for cls in ("SyncFIFO", "SyncFIFOBuffered"):
        if rep.quick:
            grid = [(d, w) for d in range(0, 6) for w in (0, 1, 2) if (w < 2 or d <= 4)]
        else:
            # sized so that the whole thorough tier stays around 10 minutes on 16 cores (the largest graphs have ~150k states)
            grid = [(d, 0) for d in range(0, 13)] + [(d, 1) for d in range(0, 9)] + [(d, 2) for d in range(0, 6)]
        for d, w in grid:
            out.append((cls, d, w, False))
        # domain reset as an extra action on a few configurations (re-start from any reachable state)
        for d, w in ((2, 1), (3, 1)) if rep.quick else ((1, 1), (2, 1), (3, 1), (4, 1), (3, 2)):
            out.append((cls, d, w, True))
    return out


def run_config(task):
    cfg, replay_n, procs = task
    spec = FifoSpec(*cfg)
    res = explore(spec, procs=procs, replay_n=replay_n, cap_states=3_000_000)
    out = {"cfg": spec.describe(), "states": res.states, "transitions": res.transitions, "depth": res.max_depth,
           "flags": sorted(res.flags), "capped": res.capped, "validated": res.traces_validated, "wall": round(res.wall, 2),
           "errors": [], "mismatch": []}
    for errs, path in res.errors:
        out["errors"].append({"errs": errs, "path": [spec.actions[i] for i in path]})
    for path, want, got in res.replay_mismatch[:3]:
        out["mismatch"].append({"path": [spec.actions[i] for i in path], "bfs": repr(want), "replayed": repr(got)})
    return out


def run(rep):
    cfgs = configs(rep)
    big = [c for c in cfgs if c[1] * max(c[2], 1) >= 8]
    small = [c for c in cfgs if c not in big]
    replay_n = rep.pick(20, 100)
    results = []
    tasks = rotate([(c, replay_n, 1) for c in small], rep.seed)
    # the big graphs first get the whole machine one by one (frontier-parallel), the small ones run one per core
    for r in pmap(run_config, tasks, rep.procs):
        results.append(r)
    for c in big:
        results.append(run_config((c, replay_n, rep.procs)))
    allflags = set()
    for r in results:
        rep.add("states", r["states"])
        rep.add("transitions", r["transitions"])
        rep.add("traces_validated_against_impl", r["validated"])
        rep.add("configurations", 1)
        allflags.update(r["flags"])
        if r["capped"]:
            rep.add("capped_configurations", 1)
        d = r["cfg"]
        tag = f"{d['cls']}(depth={d['depth']},width={d['width']}{',rst' if d['with_reset'] else ''})"
        for e in r["errors"]:
            rep.violation(f"{tag}:{e['errs'][0].split(' with ')[0][:60]}", f"{tag}: {e['errs']} after actions (w_en,w_data,r_en,rst) {e['path']}",
                          {"cfg": d, "path": e["path"]})
        for mm in r["mismatch"]:
            rep.violation(f"{tag}:replay-mismatch", f"{tag}: state reached by BFS state injection differs from replay from reset: {mm}",
                          {"cfg": d, "path": mm["path"]})
        rep.sample({"config": tag, "states": r["states"], "transitions": r["transitions"], "bfs_depth": r["depth"], "wall_s": r["wall"]}, limit=60)
    rep.setcov("exhaustive", rep.cov.get("capped_configurations", 0) == 0)
    rep.setcov("actions", "all (w_en, w_data, r_en) valuations per clock edge (+ a domain-reset edge on the rst configurations)")
    rep.setcov("flags_seen", sorted(allflags))
    rep.setcov("rule", "full reachable product graph of (real simulated FIFO registers+memory rows) x (tuple queue model); every state "
               "expanded with every input valuation; invariants and bounded-response liveness evaluated on every transition")
    for need in ("r_rdy", "not_r_rdy", "w_rdy", "not_w_rdy", "full", "empty", "read", "write", "read+write"):
        rep.require(need in allflags, f"flag {need} never observed")
    rep.assume("state injection through ctx.set is validated by replaying shortest paths from reset on fresh simulators")


def replay(payload):
    spec = FifoSpec(payload["cfg"]["cls"], payload["cfg"]["depth"], payload["cfg"]["width"], payload["cfg"].get("with_reset", False))
    idx = [spec.actions.index(tuple(a)) for a in payload["path"]]
    _key, errs = replay_path(spec, idx)
    return [f"step {i}: {e}" for i, e in errs]
