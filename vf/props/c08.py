"""C08 Simulation results do not depend on process scheduling order -- stateless schedule exploration (SCHED).

The hash-ordered sets the engine iterates over (PySimEngine._processes, _active_triggers, the pending-commit set)
are replaced from the harness by ChoiceSets whose iteration order the explorer decides. Every scenario is executed
under every resolution with at most `bound` deviations from the default order; the observation logs must be
identical (differential oracle), and absolute oracles on ordering / settling / sampling / exact time are checked in
every execution.
"""
import itertools
import warnings

from ..core.pool import pmap, rotate, chunks
from ..explore.sched import ChoiceSet, Scheduler, explore

ID = "C08"
LEVEL = "model_checking"

FS = 1  # scenario time unit in femtoseconds
PERM_ITEMS = 6   # every transposition of two of the (first 6) runnable items of a set is an alternative at a choice point


def period(n):
    from amaranth.hdl import Period
    return Period(fs=n * FS)


class Scenario:
    """cfg: pa, fa, pb, fb (period / phase of clocks a, b in fs), edge_b, scripts (tuple of op tuples per testbench), procs"""
    def __init__(self, cfg):
        self.cfg = cfg

    def build(self):
        from amaranth.hdl import Module, Signal, ClockDomain, Cat, signed
        cfg = self.cfg
        m = Module()
        self.a = a = ClockDomain("a")
        self.b = b = ClockDomain("b", clk_edge=cfg["edge_b"])
        m.domains.a = a
        m.domains.b = b
        self.inp = inp = Signal(2, name="inp")
        # ca_init != 0 makes the comb-replacement process's output differ from its own initial value at time 0
        self.ca = ca = Signal(2, name="ca", init=cfg.get("ca_init", 0))
        self.rb = rb = Signal(2, name="rb")
        self.x = x = Signal(2, name="x")
        self.y = y = Signal(3, name="y")
        self.qa = qa = Signal(2, name="qa")           # circuit: registered ca + 1 in domain a
        self.qc = qc = Signal(2, name="qc")           # circuit: comb ca & ~rb
        self.qb = qb = Signal(2, name="qb")           # circuit: registered ~ca in domain a
        self.pp = Signal(4, name="pp")                # Cat(qa, qb) computed by TWO sync-replacement processes, each writing its own half
        self.pa = Signal(2, name="pa")                # the same, computed by a sync-replacement process
        self.pc = Signal(2, name="pc")                # the same, computed by a comb-replacement process
        # a signed signal whose halves are driven combinationally from two different fragments (two processes of one delta cycle)
        self.sg = sg = Signal(signed(4), name="sg", init=-3)
        sub = Module()
        sub.d.comb += x.eq(ca ^ rb)
        sub.d.comb += sg[2:].eq(ca)
        m.d.comb += sg[:2].eq(rb)
        m.submodules.sub = sub
        m.d.a += ca.eq(ca + 1 + inp[0])
        m.d.b += rb.eq(ca ^ inp)
        m.d.comb += y.eq(x + inp)
        m.d.a += qa.eq(ca + 1)
        m.d.a += qb.eq(~ca)
        m.d.comb += qc.eq(ca & ~rb)
        # a memory written from both domains: lane 0 by domain a, lane 1 by domain b, same row; when the active edges coincide
        # both per-domain memory processes run in the same delta cycle, in an order the engine does not define
        from amaranth.lib.memory import Memory
        self.mem = mem = Memory(shape=4, depth=2, init=[0, 0])
        m.submodules.mem = mem
        wa = mem.write_port(domain="a", granularity=2)
        wb = mem.write_port(domain="b", granularity=2)
        self.rp = rp = mem.read_port(domain="comb")
        m.d.comb += [wa.addr.eq(0), wa.data.eq(Cat(ca, ca)), wa.en.eq(0b01),
                     wb.addr.eq(0), wb.data.eq(Cat(rb, rb)), wb.en.eq(Cat(0, inp[1])),
                     rp.addr.eq(0)]
        return m

    def run(self, sched, mutate=None, rerun=False):
        from amaranth.sim import Simulator
        cfg = self.cfg
        with warnings.catch_warnings():
            warnings.simplefilter("ignore")
            m = self.build()
            sim = Simulator(m)
            sim.add_clock(period(cfg["pa"]), phase=period(cfg["fa"]), domain="a")
            sim.add_clock(period(cfg["pb"]), phase=period(cfg["fb"]), domain="b")
            log = []
            errs = []
            self.log, self.errs = log, errs
            ca, rb, inp, pa, pc, pp = self.ca, self.rb, self.inp, self.pa, self.pc, self.pp

            if cfg["procs"]:
                async def sync_proc(ctx):
                    async for clk_edge, rst, v in ctx.tick("a").sample(ca):
                        if rst:
                            ctx.set(pa, 0)
                        elif clk_edge:
                            ctx.set(pa, (v + 1) & 3)

                async def comb_proc(ctx):
                    # with ca_init == 0 the initial values of ca, rb make pc's initial value (0) already consistent; otherwise the
                    # guaranteed first wake-up of changed() at time 0 has to establish it
                    async for ca_v, rb_v in ctx.changed(ca, rb):
                        # default first, then the override, as a translated "default assignment + If" would do: several writes of one
                        # signal in one activation, of which only the last counts
                        ctx.set(pc, 3)
                        ctx.set(pc, 0)
                        ctx.set(pc, ca_v & ~rb_v & 3)
                async def half_lo(ctx):
                    # two processes woken by the same edge write disjoint halves of one signal within one delta cycle
                    async for clk_edge, rst, v in ctx.tick("a").sample(ca):
                        ctx.set(pp[:2], 0 if rst else (v + 1) & 3)

                async def half_hi(ctx):
                    async for clk_edge, rst, v in ctx.tick("a").sample(ca):
                        ctx.set(pp[2:], 0 if rst else ~v & 3)
                sim.add_process(sync_proc)
                sim.add_process(comb_proc)
                sim.add_process(half_lo)
                sim.add_process(half_hi)
            for tid, script in enumerate(cfg["scripts"]):
                sim.add_testbench(self.make_tb(tid, script))
            # ---- own the nondeterminism
            eng = sim._engine
            if sched is not None:
                movable = lambda p: getattr(p, "runnable", False)
                eng._processes = ChoiceSet(sorted_procs(eng._processes), tag="proc", sched=sched, movable=movable)
                eng._active_triggers = ChoiceSet(eng._active_triggers, tag="trig", sched=sched)
                st = eng._state
                pend = ChoiceSet(st.pending, tag="commit", sched=sched)
                st.pending = pend
                for slot in st.slots:
                    slot.pending = pend
                self.bound = isinstance(eng._processes, ChoiceSet) and len(eng._processes) >= 3
            try:
                sim.run_until(period(cfg["horizon"]))
                if rerun:
                    # the same simulation restarted from the initial state: observations of the second run
                    log, errs = [], []
                    self.log, self.errs = log, errs
                    sim.reset()
                    sim.run_until(period(cfg["horizon"]))
            except Exception as ex:
                errs.append(f"simulation raised {type(ex).__name__}: {ex}")
            if sched is not None:
                sched.enabled = False
            # final state of every signal, read straight from the engine (a testbench cannot be added to a running simulation)
            try:
                final = [eng.get_value(sig) for sig in (self.ca, self.rb, self.x, self.y, self.qa, self.qc, self.pa, self.pc, self.qb, self.pp)]
                final += [eng.get_value(self.mem.data[i]) for i in range(2)] + [eng.get_value(self.sg)]
            except Exception as ex:
                final = []
                errs.append(f"final read raised {type(ex).__name__}: {ex}")
        return (tuple(log), tuple(final), tuple(errs))

    def make_tb(self, tid, script):
        s = self
        cfg = self.cfg

        async def tb(ctx):
            from amaranth.hdl import Period
            log, errs = s.log, s.errs

            def now():
                return ctx.elapsed_time().femtoseconds

            def snap(tag):
                vals = tuple(ctx.get(sig) for sig in (s.ca, s.rb, s.x, s.y, s.qa, s.qc, s.pa, s.pc, s.inp, s.rp.data, s.sg, s.qb, s.pp))
                ca_v, rb_v, x_v, y_v, qa_v, qc_v, pa_v, pc_v, inp_v, mem_v, sg_v, qb_v, pp_v = vals
                if cfg["procs"] and pp_v != (qa_v | (qb_v << 2)):
                    errs.append(f"tb{tid} {tag} t={now()}: signal written in halves by two sync-replacement processes reads {pp_v:#x}, circuit registers give {qa_v | (qb_v << 2):#x}")
                want_sg = (rb_v | (ca_v << 2))
                want_sg = want_sg - 16 if want_sg & 8 else want_sg
                if sg_v != want_sg:
                    errs.append(f"tb{tid} {tag} t={now()}: signed signal driven from two fragments reads {sg_v}, its halves give {want_sg}")
                log.append((tid, tag, now(), vals))
                # absolute oracles that hold at every instant a testbench can observe
                if x_v != ca_v ^ rb_v or y_v != (x_v + inp_v) & 7 or qc_v != ca_v & ~rb_v & 3:
                    errs.append(f"tb{tid} {tag} t={now()}: combinational outputs not settled: {vals}")
                if cfg["procs"] and pc_v != qc_v:
                    errs.append(f"tb{tid} {tag} t={now()}: comb-replacement process output {pc_v} != circuit {qc_v}")
                if cfg["procs"] and pa_v != qa_v:
                    errs.append(f"tb{tid} {tag} t={now()}: sync-replacement process output {pa_v} != circuit {qa_v}")
            for op in script:
                k = op[0]
                if k == "set":
                    ctx.set(s.inp, op[1])
                    snap(f"set{op[1]}")        # a write returns only after all combinational consequences have settled
                elif k == "get":
                    snap("get")
                elif k == "tick":
                    dom = op[1]
                    t0 = now()
                    clk_hit, rst_v, s_ca, s_rb, s_inp = await ctx.tick(dom).sample(s.ca, s.rb, s.inp)
                    t1 = now()
                    # exact time: active edges of the domain's clock
                    per, ph = (cfg["pa"], cfg["fa"]) if dom == "a" else (cfg["pb"], cfg["fb"])
                    if dom == "b" and cfg["edge_b"] == "neg":
                        ph = ph + per // 2
                    if (t1 - ph) % per != 0 or t1 < ph or not (t1 > t0 or (t1 == t0 == ph)):
                        errs.append(f"tb{tid} tick({dom}) resumed at {t1} fs (from {t0}); active edges are at {ph}+k*{per}")
                    # registers have updated; sampled values are those from just before the edge
                    if dom == "a" and ctx.get(s.ca) != (s_ca + 1 + (s_inp & 1)) & 3:
                        errs.append(f"tb{tid} tick(a) at {t1}: sampled ca={s_ca} (pre-edge), register now {ctx.get(s.ca)}")
                    if dom == "b" and ctx.get(s.rb) != (s_ca ^ s_inp) & 3:
                        errs.append(f"tb{tid} tick(b) at {t1}: sampled ca={s_ca} inp={s_inp}, rb now {ctx.get(s.rb)} expected {(s_ca ^ s_inp) & 3}")
                    log.append((tid, f"tick{dom}", t1, (clk_hit, rst_v, s_ca, s_rb, s_inp)))
                    snap("after-tick")
                elif k == "delay":
                    t0 = now()
                    await ctx.delay(Period(fs=op[1] * FS))
                    if now() != t0 + op[1] * FS:
                        errs.append(f"tb{tid} delay({op[1]}) from {t0} resumed at {now()}")
                    snap(f"delay{op[1]}")
                elif k == "posedge":
                    clk = s.a.clk if op[1] == "a" else s.b.clk
                    await ctx.posedge(clk)
                    per, ph = (cfg["pa"], cfg["fa"]) if op[1] == "a" else (cfg["pb"], cfg["fb"])
                    if (now() - ph) % per != 0 or now() < ph:
                        errs.append(f"tb{tid} posedge(clk_{op[1]}) at {now()} fs; rising edges are at {ph}+k*{per}")
                    snap(f"posedge{op[1]}")
                elif k == "negedge":
                    clk = s.a.clk if op[1] == "a" else s.b.clk
                    await ctx.negedge(clk)
                    per, ph = (cfg["pa"], cfg["fa"]) if op[1] == "a" else (cfg["pb"], cfg["fb"])
                    if (now() - ph - per // 2) % per != 0:
                        errs.append(f"tb{tid} negedge(clk_{op[1]}) at {now()} fs; falling edges are at {ph + per // 2}+k*{per}")
                    snap(f"negedge{op[1]}")
                elif k == "changed":
                    (v,) = await ctx.changed(s.rb)
                    if v != ctx.get(s.rb):
                        errs.append(f"tb{tid} changed(rb) returned {v}, signal is {ctx.get(s.rb)}")
                    snap("changed")
            log.append((tid, "end", now(), ()))
        return tb


def sorted_procs(procs):
    """canonical (hash-independent) base order: by kind, then clock/slot details that are deterministic"""
    def key(p):
        return (type(p).__name__, getattr(p, "slot", 0), getattr(p, "period", 0), getattr(p, "is_comb", False))
    out = sorted(procs, key=key)
    return out


OPS = [("set", 1), ("set", 2), ("get",), ("tick", "a"), ("tick", "b"), ("delay", 0), ("delay", 3), ("posedge", "b"), ("negedge", "a"), ("changed",)]
OTHER_TB = (("tick", "a"), ("set", 3), ("tick", "b"), ("get",))


def scenarios(quick):
    clocks = [(4, 2, 4, 2, "pos"), (4, 2, 6, 1, "neg"), (4, 0, 4, 2, "pos"), (10, 5, 4, 3, "neg"), (2, 1, 6, 3, "pos")]
    if not quick:
        clocks += [(6, 3, 10, 5, "neg"), (4, 1, 4, 1, "neg"), (6, 0, 2, 1, "pos")]
    L = 2 if quick else 3
    scripts = [s for n in range(1, L + 1) for s in itertools.product(OPS, repeat=n)]
    for ci, (pa, fa, pb, fb, eb) in enumerate(clocks):
        for si, script in enumerate(scripts):
            # a script without any waiting op never yields: keep them short
            if quick and len(script) == 2 and (si + ci) % 2:
                continue
            if len(script) == 3 and (si + ci) % 5:
                continue          # thorough: every 5th script of length 3 per clock configuration (rotating with the configuration)
            for two in (False, True):
                if two and (si % 3):
                    continue
                yield {"pa": pa, "fa": fa, "pb": pb, "fb": fb, "edge_b": eb, "scripts": (script, OTHER_TB) if two else (script,),
                       "procs": (si + ci) % 2 == 0 or two, "horizon": 14, "ca_init": (si + ci) % 3}


def run_scenarios(task):
    cfgs, bound, max_runs = task
    out = {"cov": {"scenarios": 0, "states": 0, "transitions": 0, "schedules": 0, "choice_points": 0, "traces_validated_against_impl": 0,
                   "scenarios_with_real_choice": 0, "distinct_outcomes_max": 0, "capped": 0, "scenarios_bound2": 0}, "samples": [], "violations": []}
    for cfg in cfgs:
        sc = Scenario(cfg)
        # conformance run: the unmodified engine (no interception) must give the default-order observation
        plain = sc.run(None)
        again = sc.run(None, rerun=True)
        if again != plain:
            out["violations"].append({"sig": "sched:" + cfg_sig(cfg) + ":rerun-after-reset", "what": f"scenario {cfg}: the run repeated after Simulator.reset() "
                                      f"differs from the first run: {first_diff(plain, again)}", "payload": {"cfg": cfg, "choices": [[]], "rerun": True}})
        st = explore(lambda s: sc.run(s), bound, max_runs=max_runs, only_funcs={"step_design", "commit"}, max_perm_items=PERM_ITEMS)
        outs = st["outcomes"]
        out["cov"]["scenarios"] += 1
        out["cov"]["capped"] += int(st["capped"])
        out["cov"]["scenarios_bound2"] += int(bound >= 2)
        out["cov"]["schedules"] += st["runs"]
        out["cov"]["states"] += st["runs"]                     # one explored execution = one node of the schedule tree
        out["cov"]["transitions"] += st["choice_points_max"] * st["runs"]
        out["cov"]["choice_points"] += st["choice_points_max"]
        out["cov"]["traces_validated_against_impl"] += 1
        out["cov"]["distinct_outcomes_max"] = max(out["cov"]["distinct_outcomes_max"], len(outs))
        if st["alts_max"] >= 2:
            out["cov"]["scenarios_with_real_choice"] += 1
        sig = "sched:" + cfg_sig(cfg)
        if len(outs) > 1:
            (o1, c1), (o2, c2) = list(outs.items())[:2]
            diff = first_diff(o1, o2)
            out["violations"].append({"sig": sig + ":order-dependent", "what": f"scenario {cfg}: {len(outs)} distinct outcomes over {st['runs']} schedules; "
                                      f"choices {c1} vs {c2}: {diff}", "payload": {"cfg": cfg, "choices": [list(c1), list(c2)]}})
        if plain not in outs:
            out["violations"].append({"sig": sig + ":interception-changes-result", "what": f"scenario {cfg}: unmodified engine gives an observation that no "
                                      f"explored schedule gives: {first_diff(plain, next(iter(outs)))}", "payload": {"cfg": cfg, "choices": [[]]}})
        for o, c in outs.items():
            if o[2]:
                out["violations"].append({"sig": sig + ":" + o[2][0].split(":")[0].split(" t=")[0][:50], "what": f"scenario {cfg} schedule {c}: {o[2][:3]}",
                                          "payload": {"cfg": cfg, "choices": [list(c)]}})
                break
        # testbenches run in the order they were added: among log entries at the same instant produced in one wake-up round,
        # tb0 precedes tb1 whenever both were woken by the same event (checked on tick/posedge records)
        for o, c in outs.items():
            bad = order_violation(o[0])
            if bad:
                out["violations"].append({"sig": sig + ":tb-order", "what": f"scenario {cfg} schedule {c}: {bad}", "payload": {"cfg": cfg, "choices": [list(c)]}})
                break
        if len(out["samples"]) < 2:
            out["samples"].append({"scenario": cfg_sig(cfg), "schedules": st["runs"], "choice_points": st["choice_points_max"], "outcomes": len(outs)})
    return out



# ------------------------------------------------------------------ testbench order: three cooperating testbenches
# Each testbench is (wait, act): wait in none | delay | chg_x | chg_k ; act in setx | setk | get. x and k are plain signals that only
# testbenches write. "At each point in time, all of the non-waiting testbenches are executed in the order in which they were added"
# (Simulator.add_testbench): two readings of that sentence are modelled -- the engine's sweep (first to last, repeated while one is
# non-waiting) and lowest-index-first. An observation must be the log of one of them; where both agree there is exactly one legal log.
TB_WAITS = ("none", "delay", "chg_x", "chg_k")
TB_ACTS = ("setx", "setk", "get")
TB_DELAY = 2


def tb3_reference(scripts, sweep, snapshot=False):
    """sweep=True: first to last, repeated; sweep=False: always the lowest-index non-waiting one. snapshot=True is NOT a legal reading
    (a testbench woken during a sweep waits for the next one); it only measures how many cases can tell the difference."""
    val = {"x": 0, "k": 0, "g": 0}
    pc = [0] * len(scripts)            # 0: before wait, 1: waiting / before act, 2: done
    waiting = [None] * len(scripts)    # None (non-waiting) | ("delay", t) | ("chg", name)
    log = []
    now = 0

    def run_tb(i):
        while True:
            if pc[i] == 0:
                pc[i] = 1
                w = scripts[i][0]
                if w == "delay":
                    waiting[i] = ("delay", now + TB_DELAY)
                    return
                if w in ("chg_x", "chg_k"):
                    waiting[i] = ("chg", w[-1])
                    return
                if w == "pos_g0":
                    waiting[i] = ("pos_g0",)     # rising edge of bit 0 of the 2-bit signal g: the other bit may change freely
                    return
            elif pc[i] == 1:
                pc[i] = 2
                a = scripts[i][1]
                if a == "get":
                    log.append((i, "get", now, val["x"], val["k"]))
                elif a.startswith("setg"):
                    old, new = val["g"], int(a[4:])
                    val["g"] = new
                    if not (old & 1) and (new & 1):
                        for j, wj in enumerate(waiting):
                            if wj == ("pos_g0",):
                                waiting[j] = None
                    log.append((i, a, now, val["x"], val["k"]))
                else:
                    name = a[-1]
                    if val[name] != 1:
                        val[name] = 1
                        for j, wj in enumerate(waiting):
                            if wj == ("chg", name):
                                waiting[j] = None
                    log.append((i, a, now, val["x"], val["k"]))
            else:
                log.append((i, "end", now, val["x"], val["k"]))
                waiting[i] = ("done",)
                return

    while True:
        progressed = True
        while progressed:
            progressed = False
            ready = [i for i in range(len(scripts)) if waiting[i] is None]
            for i in range(len(scripts)):
                if waiting[i] is None and (not snapshot or i in ready):
                    run_tb(i)
                    progressed = True
                    if not sweep:
                        break
        times = [w[1] for w in waiting if w and w[0] == "delay"]
        if not times:
            return tuple(log)
        now = min(times)
        for i, w in enumerate(waiting):
            if w == ("delay", now):
                waiting[i] = None


def tb3_real(scripts):
    from amaranth.hdl import Module, Signal
    from amaranth.sim import Simulator
    m = Module()
    x = Signal(name="x")
    k = Signal(name="k")
    z = Signal(name="z")
    g = Signal(2, name="g")
    z2 = Signal(2, name="z2")
    m.d.comb += [z.eq(x ^ k), z2.eq(g)]
    log = []
    sig = {"x": x, "k": k}

    def make(i, script):
        async def tb(ctx):
            w, a = script
            t = lambda: ctx.elapsed_time().femtoseconds
            if w == "delay":
                await ctx.delay(period(TB_DELAY))
            elif w in ("chg_x", "chg_k"):
                await ctx.changed(sig[w[-1]])
            elif w == "pos_g0":
                await ctx.posedge(g[0])
            if a == "get":
                log.append((i, "get", t(), ctx.get(x), ctx.get(k)))
            elif a.startswith("setg"):
                ctx.set(g, int(a[4:]))
                log.append((i, a, t(), ctx.get(x), ctx.get(k)))
            else:
                ctx.set(sig[a[-1]], 1)
                log.append((i, a, t(), ctx.get(x), ctx.get(k)))
            log.append((i, "end", t(), ctx.get(x), ctx.get(k)))
        return tb
    with warnings.catch_warnings():
        warnings.simplefilter("ignore")
        sim = Simulator(m)
        for i, sc in enumerate(scripts):
            sim.add_testbench(make(i, sc))

        async def horizon(ctx):          # added last: keeps the timeline alive up to the horizon, never non-waiting before it
            await ctx.delay(period(3 * TB_DELAY))
        sim.add_testbench(horizon)
        sim.run_until(period(3 * TB_DELAY))
    return tuple((i, tag, tt // FS, xv, kv) for i, tag, tt, xv, kv in log)


def run_tb3(task):
    out = {"cov": {"tb_order_cases": 0, "tb_order_unique_reading": 0, "tb_order_wakeups_between": 0}, "samples": [], "violations": []}
    for scripts in task:
        legal = {tb3_reference(scripts, True), tb3_reference(scripts, False)}
        try:
            real = tb3_real(scripts)
        except Exception as ex:
            real = ("raised", type(ex).__name__, str(ex)[:80])
        out["cov"]["tb_order_cases"] += 1
        out["cov"]["tb_order_unique_reading"] += len(legal) == 1
        out["cov"]["tb_order_wakeups_between"] += tb3_reference(scripts, True, snapshot=True) not in legal
        if real not in legal:
            out["violations"].append({"sig": f"tb-order3:{scripts}", "what": f"three testbenches {scripts}: observed {real}; in added order: {sorted(legal)}",
                                      "payload": {"tb3": [list(sc) for sc in scripts]}})
    return out

def order_violation(log):
    """both testbenches waiting for the same trigger wake at the same instant; tb0 must log first"""
    seen_at = {}
    for tid, tag, t, vals in log:
        if tag in ("ticka", "tickb"):
            key = (tag, t)
            if tid == 0 and key in seen_at and seen_at[key] == 1:
                return f"testbench 1 resumed from {tag} at {t} fs before testbench 0"
            seen_at.setdefault(key, tid)
    return None


def first_diff(o1, o2):
    for part, name in ((0, "log"), (1, "final signals"), (2, "errors")):
        if o1[part] != o2[part]:
            if part == 0:
                for i, (x, y) in enumerate(zip(o1[0], o2[0])):
                    if x != y:
                        return f"log entry {i}: {x} vs {y}"
                return f"log lengths {len(o1[0])} vs {len(o2[0])}"
            return f"{name}: {o1[part]} vs {o2[part]}"
    return "identical"


def cfg_sig(cfg):
    return f"a={cfg['pa']}/{cfg['fa']},b={cfg['pb']}/{cfg['fb']}{cfg['edge_b']},procs={int(cfg['procs'])},ca0={cfg.get('ca_init', 0)},scripts={cfg['scripts']}"


def run(rep):
    cfgs = list(scenarios(rep.quick))
    bound = rep.pick(1, 2)
    CAP1, CAP2 = 2000, 60000
    if rep.quick:
        tasks = [(ch, 1, CAP1) for ch in chunks(cfgs, 6)]
    else:
        # every scenario with one deviation; every 16th scenario of the quick set with two (about 25 000 schedules each)
        tasks = [(ch, 2, CAP2) for ch in chunks(list(scenarios(True))[::16], 1)] + [(ch, 1, CAP1) for ch in chunks(cfgs, 6)]
    tasks = tasks[:len(tasks) - len(tasks) % 1]
    if rep.quick:
        tasks = rotate(tasks, rep.seed)
    scripts1 = list(itertools.product(TB_WAITS, TB_ACTS))
    # edge triggers on one bit of a multi-bit signal: the 3-testbench cases in which at least one testbench waits for posedge(g[0]) and
    # at least one writes g (1, 2 or 3)
    scripts_g = list(itertools.product(TB_WAITS + ("pos_g0",), TB_ACTS + ("setg1", "setg2", "setg3")))
    tb_g = [tr for tr in itertools.product(scripts_g, repeat=3) if any(sc[0] == "pos_g0" for sc in tr) and any(sc[1].startswith("setg") for sc in tr)]
    tb3 = list(itertools.product(scripts1, repeat=3)) + list(itertools.product(scripts1, repeat=4)) + tb_g
    for part in pmap(run_tb3, chunks(tb3, 702), rep.procs):
        rep.merge(part)
    rep.require(rep.cov.get("tb_order_unique_reading", 0) > 500 and rep.cov.get("tb_order_wakeups_between", 0) > 10, "testbench-order cases with one legal log, and cases that tell in-order execution from deferred execution")
    for part in pmap(run_scenarios, tasks, rep.procs):
        m = part["cov"].pop("distinct_outcomes_max")
        rep.merge(part)
        rep.setcov("distinct_outcomes_max", max(rep.cov.get("distinct_outcomes_max", 0), m))
    rep.setcov("deviation_bound", bound if rep.quick else "1 on every scenario, 2 on scenarios_bound2 of them")
    rep.setcov("rule", "scenario = 2 clocked domains (a posedge, b pos/neg) with coinciding edges + comb fragment in a submodule + (optionally) the guide's "
               "sync- and comb-replacement processes + 1-2 testbenches running every script of length<=2 (3) over {set, get, tick a/b with sample, delay 0/3, "
               "posedge, negedge, changed}; explored: every resolution of the iteration order of the ready-process set, the active-trigger set and the "
               "commit set with at most `deviation_bound` deviations from insertion order; states = executions run, transitions = choice points resolved; "
               "traces_validated_against_impl = scenarios re-run on the unmodified engine; every scenario is also repeated after Simulator.reset() and must "
               "give the same observations; the initial value of ca rotates over 0..2 so that the comb-replacement process has to act at time 0; "
               "tb_order_cases = every choice of 3 and of 4 testbenches from 12 (wait, act) scripts over two testbench-only signals, observed log "
               "compared with the logs of the two readings of 'non-waiting testbenches execute in the order added' (tb_order_unique_reading: both agree; "
               "tb_order_wakeups_between: cases in which deferring a testbench woken during a sweep would change the log); plus every 3-testbench "
               "case over the alphabet extended with posedge(g[0]) on a 2-bit testbench-only signal g and writes of 1, 2, 3 to it (an edge trigger "
               "on one bit of a multi-bit signal fires only when that bit rises)")
    rep.setcov("exhaustive", rep.cov.get("capped", 0) == 0)
    rep.require(rep.cov.get("scenarios_with_real_choice", 0) > rep.cov.get("scenarios", 0) // 2, "choice points with >= 2 alternatives were observed")
    rep.require(rep.cov.get("schedules", 0) > 2 * rep.cov.get("scenarios", 1), "more than one schedule per scenario executed")


def replay(payload):
    if "tb3" in payload:
        scripts = tuple(tuple(sc) for sc in payload["tb3"])
        legal = {tb3_reference(scripts, True), tb3_reference(scripts, False)}
        real = tb3_real(scripts)
        return [] if real in legal else [f"observed {real}; in added order: {sorted(legal)}"]
    cfg = payload["cfg"]
    cfg["scripts"] = tuple(tuple(tuple(op) for op in s) for s in cfg["scripts"])
    sc = Scenario(cfg)
    outs = []
    for ch in payload["choices"]:
        outs.append(sc.run(Scheduler(ch, only_funcs={"step_design", "commit"}, max_perm_items=PERM_ITEMS)))
    res = []
    if payload.get("rerun"):
        first, again = sc.run(None), sc.run(None, rerun=True)
        if first != again:
            res.append("rerun after reset differs: " + first_diff(first, again))
    if len(outs) == 2 and outs[0] != outs[1]:
        res.append("order-dependent: " + first_diff(outs[0], outs[1]))
    for o in outs:
        if o[2]:
            res.append(str(o[2][:3]))
        b = order_violation(o[0])
        if b:
            res.append(b)
    return res
