"""C05 Testbench reads and writes agree with what a circuit would compute -- bounded-exhaustive enumeration.

reads : every expression term is read with ctx.get(term) and compared with (a) the reference value and (b) the value
        of a comb signal assigned the same term in the same simulator state.
writes: every assignable target term x every state of the underlying signals x every written value:
        ctx.set(target, v) (tree walker) vs one clock edge of `m.d.sync += target.eq(v)` (compiled LHS) vs the
        bit-map reference (exactly the addressed bits change; out-of-range bits are dropped).
"""
import itertools
import warnings

from ..core.pool import pmap, rotate, chunks
from ..gen import terms as G
from ..ref import expr as R
from ..ref import stmt as S
from ..sim.exprs import eval_batch
from ..sim.driver import run_in_testbench, elaborate

ID = "C05"
LEVEL = "exploration"

# underlying signals of the write experiments: index -> (width, signed)
X, Y, O, I, Z = 0, 1, 2, 3, 4
BASE = {X: (3, False), Y: (2, True), O: (2, False), I: (1, False), Z: (0, False)}
ROW0, ROW1 = 10, 11            # rows of a 2 x 3-bit memory (simulation-only targets)
ROWSH = (3, False)


def leaf(i):
    if i in (ROW0, ROW1):
        return ("s", i, *ROWSH)
    return ("s", i, *BASE[i])


def forms_over(T, depth, lean=False):
    """assignable forms applied to target T (lean: the corner subset used for the outer level in the quick tier)"""
    w, sg = S.target_shape(T)
    for a in range(0, w + 1):
        for b in range(a, w + 2):
            if lean and (a, b) not in ((0, w), (0, 1), (1, w), (1, w + 1), (w, w), (0, 0)):
                continue
            yield ("slice", T, a, b, None)
    yield ("slice", T, -1, None, None)
    yield ("slice", T, None, -1, None)
    for i in range(-w, w):
        yield ("idx", T, i)
    x, y, o, i_, z = leaf(X), leaf(Y), leaf(O), leaf(I), leaf(Z)
    yield ("cat", T, y)
    yield ("cat", y, T)
    yield ("cat", T)
    yield ("cat", z, T, z)
    if w >= 3:
        # two bit-disjoint windows of the SAME storage in one assignment (one write per window inside one delta cycle)
        yield ("cat", ("slice", T, 0, 1, None), ("slice", T, 2, w, None))
        yield ("cat", ("slice", T, 2, w, None), ("slice", T, 0, 1, None))
        yield ("cat", ("idx", T, w - 1), y, ("slice", T, 0, w - 2, None))
    for width in range(0, w + 2):
        if lean and width not in (0, 1, 2, w + 1):
            continue
        yield ("bsel", T, o, width)
        yield ("bsel", T, z, width)          # zero-width offset
        yield ("bsel", T, i_, width)        # offset narrower than the target: 2**len(offset) < len(target)
        if width:
            yield ("wsel", T, o, width)
            yield ("wsel", T, i_, width)
            yield ("wsel", T, z, width)
        for k in range(0, w + 2):
            if lean and k not in (0, w - 1, w):
                continue
            yield ("bsel", T, ("k", k), width)
    yield ("arr", i_, T, y)
    yield ("arr", i_, y, T)
    yield ("arr", o, T, y, ("slice", x, 0, 2, None), ("cat", y, z))
    yield ("arr", z, T, y)                   # zero-width index selects element 0
    if w:
        yield ("u", "as_signed", T)
    yield ("u", "as_unsigned", T)
    for k in (1, -1, w + 1):
        yield ("rol", T, k)
        yield ("ror", T, k)


def _static(T):
    """target built from signals / slices / indices / rotations / Cat only: its bit map does not depend on any offset or index"""
    k = T[0]
    if k == "s":
        return True
    if k in ("slice", "idx", "rol", "ror"):
        return _static(T[1])
    if k == "cat":
        return all(_static(p) for p in T[1:])
    if k == "u":
        return _static(T[2])
    return False


def _wellformed(T):
    """operators applied to an Array proxy are forwarded to its *elements* (docs: Arrays), so above an array
    element only Value-level constructors (Cat, another Array) keep the meaning of this grammar; and one
    assignment must not name the same storage twice (the statement orders assignments, not bits within one)"""
    k = T[0]
    if k == "s":
        return True
    subs = [x for x in T[1:] if isinstance(x, tuple) and x[0] != "k"]
    if k in ("slice", "idx", "bsel", "wsel", "u", "rol", "ror") and T[1 if k != "u" else 2][0] == "arr":
        return False
    if k == "cat":
        seen = set()
        static_bits = set()
        for p in T[1:]:
            lv = S._all_leaves(p)
            if lv & seen:
                # the same storage may appear twice only through statically bit-disjoint slices (Cat(x[0:1], x[2:3]))
                if not (_static(p) and all(_static(q) for q in T[1:])):
                    return False
            seen |= lv
            if _static(p):
                bm = [e for e in S.bitmap(p, {}) if e is not None]
                if static_bits & set(bm):
                    return False
                static_bits |= set(bm)
    tgt_subs = {"slice": [T[1]], "idx": [T[1]], "cat": list(T[1:]), "bsel": [T[1]], "wsel": [T[1]],
                "arr": list(T[2:]), "u": [T[2]] if k == "u" else [], "rol": [T[1]], "ror": [T[1]]}[k]
    return all(_wellformed(x) for x in tgt_subs)


def valid_target(T):
    try:
        if not _wellformed(T):
            return False
        w, sg = S.target_shape(T)
        S.bitmap(T, {X: 0, Y: 0, O: 0, I: 0, Z: 0, ROW0: 0, ROW1: 0})
        return w <= 7
    except Exception:
        return False


def all_targets(depth, with_rows, lean_outer=False):
    roots = [leaf(X), leaf(Y)] + ([leaf(ROW0)] if with_rows else [])
    level = list(roots)
    out = list(roots)
    seen = set(out)
    for d in range(depth):
        new = []
        for T in level:
            if with_rows and not uses_row(T):
                continue
            for f in forms_over(T, d, lean=(lean_outer and d >= 1) or d >= 2):
                if f not in seen and valid_target(f):
                    if d >= 1 and f[0] in ("idx", "rol", "ror") and depth > 2:
                        continue
                    seen.add(f)
                    new.append(f)
        out += new
        level = new
    return out


def aliased_targets():
    """one assignment naming the same bits more than once: the reference semantics does not order bits inside one assignment, but the
    statement still demands that a testbench write and the circuit assignment agree"""
    x, y, o, i_ = leaf(X), leaf(Y), leaf(O), leaf(I)
    sl = lambda T, a, b: ("slice", T, a, b, None)
    return [("cat", x, x), ("cat", y, y), ("cat", sl(x, 0, 2), sl(x, 1, 3)), ("cat", sl(x, 1, 3), sl(x, 0, 2)), ("cat", x, sl(x, 0, 2)),
            ("cat", sl(x, 1, 3), x), ("cat", y, x, y), ("cat", ("idx", x, 0), ("idx", x, 0), ("idx", x, 0)), ("cat", sl(x, 0, 3), sl(x, 1, 3), x),
            ("cat", ("bsel", x, o, 2), x), ("cat", x, ("bsel", x, o, 2)), ("cat", ("wsel", x, i_, 2), sl(x, 1, 3)),
            ("cat", ("arr", i_, x, y), x), ("cat", y, ("arr", i_, x, y)), ("cat", ("u", "as_signed", x), x), ("cat", ("rol", x, 1), x),
            ("cat", ("cat", x, y), ("cat", y, x))]


def uses_row(T):
    return any(i in (ROW0, ROW1) for i in R.leaves(T))


def build_target(T, sigs):
    from amaranth.hdl import Value
    k = T[0]
    if k == "arr":
        from amaranth.hdl import Array
        return Array([build_target(e, sigs) for e in T[2:]])[G.build(T[1], sigs)]
    if k == "s":
        return sigs[T[1]]
    if k == "slice":
        return build_target(T[1], sigs)[T[2]:T[3]]
    if k == "idx":
        return build_target(T[1], sigs)[T[2]]
    if k == "cat":
        from amaranth.hdl import Cat
        return Cat(*[build_target(p, sigs) for p in T[1:]])
    if k in ("bsel", "wsel"):
        x = build_target(T[1], sigs)
        off = T[2][1] if T[2][0] == "k" else G.build(T[2], sigs)
        return x.bit_select(off, T[3]) if k == "bsel" else x.word_select(off, T[3])
    if k == "u":
        return getattr(build_target(T[2], sigs), T[1])()
    if k == "rol":
        return build_target(T[1], sigs).rotate_left(T[2])
    if k == "ror":
        return build_target(T[1], sigs).rotate_right(T[2])
    raise ValueError(T)


def write_batch(task):
    """targets sharing the underlying signals; returns cov + violations"""
    targets, with_rows, *rest = task
    two_way = bool(rest and rest[0])          # aliased targets: testbench write against circuit assignment only (no bit-map reference)
    from amaranth.hdl import Module, Signal, Shape, ClockDomain, Cat, Value
    from amaranth.hdl._mem import MemoryData
    from amaranth.lib.memory import Memory
    out = {"cov": {"evaluations": 0, "targets": 0, "distinct_nontrivial": 0}, "samples": [], "violations": []}
    warnings.simplefilter("ignore")
    sigs = {i: Signal(Shape(*sh), name=f"b{i}") for i, sh in BASE.items()}
    m = Module()
    cd = ClockDomain("sync")
    m.domains.sync = cd
    vin = Signal(Shape(9, True), name="vin")
    sel = Signal(range(len(targets) + 1), name="sel")
    if with_rows:
        mem = Memory(shape=ROWSH[0], depth=2, init=[0, 0])
        m.submodules.mem = mem
        rp = mem.read_port(domain="comb")
        sigs[ROW0], sigs[ROW1] = mem.data[0], mem.data[1]
    built = []
    for n, T in enumerate(targets):
        try:
            bt = build_target(T, sigs)
            btv = Value.cast(bt)
        except Exception as ex:
            out["violations"].append({"sig": f"build:{R.show(T)}", "what": f"target {R.show(T)} rejected: {type(ex).__name__}: {ex}",
                                      "payload": {"target": T, "with_rows": with_rows}})
            continue
        if not with_rows:
            with m.If(sel == n + 1):
                m.d.sync += bt.eq(vin)
        built.append((n, T, bt, len(btv)))
    # keep every base signal alive in the design
    keep = Signal(16)
    m.d.comb += keep.eq(Cat(*[sigs[i] for i in BASE]))
    frag = elaborate(m)
    state_sigs = [X, Y] + ([ROW0, ROW1] if with_rows else [])
    shapes = dict(BASE)
    shapes[ROW0] = shapes[ROW1] = ROWSH
    ctl = [O, I]
    BYSTANDER = {X: [5], Y: [-2], ROW0: [2], ROW1: [6], O: [0], I: [0]}

    def body(ctx):
        def load(st):
            for i, v in zip(state_sigs, st):
                ctx.set(sigs[i], v)

        def read():
            return tuple(ctx.get(sigs[i]) for i in state_sigs)
        for (n, T, bt, L) in built:
            changed_any = False
            used = set(R.leaves(T))
            writable = S._all_leaves(T)
            # every state of the signals the target can write, every value of the offsets / indices it reads;
            # signals the target does not mention are bystanders held at a fixed non-trivial value (and must stay there)
            state_ranges = [R.values_of(*shapes[i]) if i in writable else BYSTANDER[i] for i in state_sigs]
            ctl_ranges = [R.values_of(*shapes[i]) if i in used else BYSTANDER[i] for i in ctl]
            values = range(-(1 << L), (2 << L)) if L <= 3 else list(range(-(1 << L) // 2 - 1, (1 << L) + 1))
            for ctlv in itertools.product(*ctl_ranges):
                for i, v in zip(ctl, ctlv):
                    ctx.set(sigs[i], v)
                for st in itertools.product(*state_ranges):
                    cur = dict(zip(state_sigs, st))
                    cur.update(zip(ctl, ctlv))
                    cur[Z] = 0
                    for v in values:
                        out["cov"]["evaluations"] += 1
                        if two_way:
                            if not (-(1 << 8) <= v < (1 << 8)):
                                continue          # vin carries 9 signed bits
                            load(st)
                            try:
                                ctx.set(bt, v)
                                got = read()
                            except Exception as ex:
                                got = "raises " + type(ex).__name__
                            load(st)
                            ctx.set(vin, v)
                            ctx.set(sel, n + 1)
                            ctx.set(cd.clk, 1)
                            ctx.set(cd.clk, 0)
                            got2 = read()
                            ctx.set(sel, 0)
                            if got2 != st:
                                changed_any = True
                            if got != got2 and len(out["violations"]) < 40:
                                out["violations"].append({
                                    "sig": f"set-vs-circuit:{R.show(T)}",
                                    "what": f"ctx.set({R.show(T)}, {v}) from state {cur}: testbench write gives {got}, the same assignment in a circuit {got2}",
                                    "payload": {"target": T, "with_rows": False, "two_way": True}})
                            continue
                        nxt = dict(cur)
                        S.write(T, v, cur, nxt, shapes)
                        want = tuple(nxt[i] for i in state_sigs)
                        if want != st:
                            changed_any = True
                        # leg 1: testbench write
                        load(st)
                        try:
                            ctx.set(bt, v)
                            got = read()
                        except Exception as ex:
                            got = "raises " + type(ex).__name__
                        if got != want:
                            if len(out["violations"]) < 40:
                                out["violations"].append({
                                    "sig": f"set:{R.show(T)}",
                                    "what": f"ctx.set({R.show(T)}, {v}) from state {cur}: got {got}, reference {want} "
                                            f"(order {[('x','y','row0','row1')[k] for k in range(len(state_sigs))]})",
                                    "payload": {"target": T, "with_rows": with_rows, "leg": "set"}})
                        # leg 2: compiled assignment statement at a clock edge
                        if not with_rows and -(1 << 8) <= v < (1 << 8):
                            load(st)
                            ctx.set(vin, v)
                            ctx.set(sel, n + 1)
                            ctx.set(cd.clk, 1)
                            ctx.set(cd.clk, 0)
                            got2 = read()
                            ctx.set(sel, 0)
                            if got2 != want and len(out["violations"]) < 40:
                                out["violations"].append({
                                    "sig": f"circuit-assign:{R.show(T)}",
                                    "what": f"sync {R.show(T)}.eq({v}) from state {cur}: got {got2}, reference {want}",
                                    "payload": {"target": T, "with_rows": with_rows, "leg": "circuit"}})
            out["cov"]["targets"] += 1
            if changed_any:
                out["cov"]["distinct_nontrivial"] += 1
    run_in_testbench(frag, body)
    if targets:
        out["samples"].append({"write_target": R.show(targets[len(targets) // 2])})
    return out


def read_work(task):
    kind, W, triple = task[:3]
    from . import c01
    terms = c01.gen_terms((kind, W, triple, task[3] if len(task) > 3 else {}))
    out = {"cov": {"evaluations": 0, "read_terms": 0, "distinct_nontrivial": 0}, "samples": [], "violations": []}
    groups = {}
    for t in terms:
        groups.setdefault(tuple(sorted(R.leaves(t).items())), []).append(t)
    for key, ts in groups.items():
        for i in range(0, len(ts), 300):
            r = eval_batch(ts[i:i + 300], read_path=True, circuit_path=True)
            out["cov"]["evaluations"] += r["evaluations"]
            out["cov"]["read_terms"] += r["terms"]
            out["cov"]["distinct_nontrivial"] += r["nontrivial"]
            for k, t, env, got, want in r["violations"]:
                if k in ("read", "sim-crash", "build"):
                    out["violations"].append({"sig": f"{k}:{R.show(t)}",
                                              "what": f"{k}: ctx.get({R.show(t)}) with leaves {env}: got {got!r}, circuit/reference {want!r}",
                                              "payload": {"term": t, "kind": k}})
    return out


def castable_work(_task):
    """shape-castable round trip through ctx.set / ctx.get"""
    from amaranth.hdl import Module, Signal, ClockDomain, ShapeCastable, ValueCastable, Const, Value, Format, signed
    from amaranth.lib import data, enum as aenum
    out = {"cov": {"evaluations": 0, "castable_cases": 0}, "samples": [], "violations": []}

    class E(aenum.Enum, shape=2):
        A = 0
        B = 1
        C = 3

    class St(data.Struct):
        a: 2
        b: data.ArrayLayout(1, 2)
        e: E
        s: aenum.IntEnum if False else 2

    class SE(aenum.Enum, shape=signed(2)):
        N2 = -2
        N1 = -1
        Z = 0
        P = 1

    class Fx(ShapeCastable):
        """fixed point with one fractional bit over signed(4): a shape-castable whose underlying shape is signed and whose values are not ints"""
        def as_shape(self):
            return signed(4)

        def const(self, init):
            return Const(0 if init is None else int(init * 2), signed(4))

        def __call__(self, target):
            return FxView(target)

        def from_bits(self, raw):
            return raw / 2

        def format(self, value, spec):
            return Format("{}", Value.cast(value))

    class FxView(ValueCastable):
        def __init__(self, target):
            self.target = target

        def as_value(self):
            return self.target

        def shape(self):
            return Fx()

    lay = data.StructLayout({"p": 1, "q": data.ArrayLayout(2, 2), "r": E})
    lay_s = data.StructLayout({"k": SE, "v": 1, "f": signed(2)})
    m = Module()
    s5 = Signal(SE)
    s6 = Signal(Fx())
    s7 = Signal(lay_s)
    s1 = Signal(St)
    s2 = Signal(lay)
    s3 = Signal(E)
    s4 = Signal(data.ArrayLayout(E, 2))
    keep = Signal(40)
    m.d.comb += keep.eq(s1.as_value() + s2.as_value() + s3.as_value() + s4.as_value() + s5.as_value() + s6.as_value() + s7.as_value())
    frag = elaborate(m)

    def body(ctx):
        # shape-castables over a SIGNED underlying shape: from_bits receives the value as the circuit holds it (negative when the sign bit is set)
        for mem in SE:
            out["cov"]["evaluations"] += 1
            ctx.set(s5, mem)
            try:
                back = ctx.get(s5)
            except Exception as ex:
                back = f"raises {type(ex).__name__}: {ex}"
            if back is not mem or ctx.get(s5.as_value()) != mem.value:
                out["violations"].append({"sig": f"castable:signed-enum:{mem.name}", "what": f"signed enum round trip of {mem}: ctx.get gives {back!r}, raw {ctx.get(s5.as_value())}",
                                          "payload": {"castable": True}})
        out["cov"]["castable_cases"] += 1
        for raw in range(-8, 8):
            out["cov"]["evaluations"] += 2
            ctx.set(s6.as_value(), raw)
            back = ctx.get(s6)
            ctx.set(s6, raw / 2)
            rawback = ctx.get(s6.as_value())
            if back != raw / 2 or rawback != raw:
                out["violations"].append({"sig": f"castable:fixed-point:{raw}", "what": f"custom signed shape-castable, raw {raw}: ctx.get gives {back!r} (want {raw / 2}), "
                                          f"ctx.set({raw / 2}) stores {rawback}", "payload": {"castable": True}})
        out["cov"]["castable_cases"] += 1
        for sig in (s1, s2, s4, s7):
            lay_ = sig.shape()
            w = len(sig.as_value())
            for raw in range(1 << w):
                out["cov"]["evaluations"] += 1
                c = lay_.from_bits(raw)
                ctx.set(sig, c)
                back = ctx.get(sig)
                rawback = ctx.get(sig.as_value())
                if rawback != raw or back != c or back.as_bits() != raw:
                    out["violations"].append({"sig": f"castable:{type(lay_).__name__}:{raw}",
                                              "what": f"ctx.set/get round trip of {lay_!r} raw {raw}: raw back {rawback}, value {back!r}",
                                              "payload": {"castable": True}})
                # field-wise write through a view leaves the other fields alone
            out["cov"]["castable_cases"] += 1
        for mem in E:
            out["cov"]["evaluations"] += 1
            ctx.set(s3, mem)
            if ctx.get(s3) is not mem or ctx.get(s3.as_value()) != mem.value:
                out["violations"].append({"sig": f"castable:enum:{mem.name}", "what": f"enum round trip {mem}", "payload": {"castable": True}})
        out["cov"]["castable_cases"] += 1
        # field writes
        for raw in range(1 << len(s2.as_value())):
            for fv in range(4):
                out["cov"]["evaluations"] += 1
                ctx.set(s2, lay.from_bits(raw))
                ctx.set(s2.q[1], fv)
                want = (raw & ~(0b11 << 3)) | (fv << 3)
                got = ctx.get(s2.as_value())
                if got != want:
                    out["violations"].append({"sig": f"castable:field-write:{raw}:{fv}", "what": f"ctx.set(view.q[1], {fv}) on raw {raw}: {got} want {want}",
                                              "payload": {"castable": True}})
    run_in_testbench(frag, body)
    return out


def _dispatch(t):
    if t[0] == "w":
        return write_batch(t[1])
    if t[0] == "r":
        return read_work(t[1])
    return castable_work(t[1])


def run(rep):
    depth = rep.pick(2, 3)
    if rep.quick:
        tg = all_targets(2, False, lean_outer=True)
    else:
        # thorough: every depth-2 target with the full form set, plus every 6th (in enumeration order) of the depth-3 targets built
        # with the corner form set on the outer levels (the complete depth-3 space has 2.3e5 targets x ~600 writes each)
        full2 = all_targets(2, False, lean_outer=False)
        d3 = [t for t in all_targets(3, False, lean_outer=True) if t not in set(full2)]
        tg = full2 + d3[::6]
        rep.setcov("depth3_targets_total", len(d3))
    tg_rows = all_targets(rep.pick(1, 2), True, lean_outer=rep.quick)
    tg_rows = [t for t in tg_rows if uses_row(t)]
    tasks = [("w", (ch, False)) for ch in chunks(tg, rep.pick(12, 12))]
    tasks += [("w", (ch, True)) for ch in chunks(tg_rows, 12)]
    al = aliased_targets()
    tasks += [("w", (ch, False, True)) for ch in chunks(al, 3)]
    rep.setcov("aliased_targets", len(al))
    Wr = rep.pick(2, 3)
    for tr in itertools.product(G.shapes(Wr), repeat=3):
        tasks.append(("r", ("d1", Wr, tr)))
    if not rep.quick:
        for tr in itertools.product(G.shapes(2), repeat=3):
            tasks.append(("r", ("d2", 2, tr)))
    else:
        for tr in itertools.product([(0, False), (2, False), (2, True)], repeat=3):
            tasks.append(("r", ("d2", 2, tr)))
    for pair in itertools.product(G.shapes(2), repeat=2):
        tasks.append(("r", ("d2c", 3, pair + ((0, False),), {"full": not rep.quick})))
    tasks.append(("c", None))
    tasks = rotate(tasks, rep.seed)
    for part in pmap(_dispatch, tasks, rep.procs):
        rep.merge(part)
    rep.setcov("write_targets_enumerated", len(tg) + len(tg_rows))
    rep.setcov("rule", f"writes: every assignable target of nesting depth<={depth} over x:u3, y:s2 (+memory rows), offsets o:u2 / i:u1 / "
               "zero-width, x every state of the underlying signals x every written value in [-2^L, 2^(L+1)); three legs: ctx.set, compiled "
               "sync assignment, bit-map reference (targets naming the same bits twice: ctx.set against the compiled assignment only). reads: every depth-1 expression term (and depth-2 over a shape subset) x all leaf values: "
               "ctx.get vs circuit vs reference. non-trivial: a target for which some write changes the state / a term whose value varies")
    rep.setcov("exhaustive", True)
    rep.require(rep.cov.get("targets", 0) > 50 and rep.cov.get("read_terms", 0) > 500, "targets and read terms enumerated")


def _tup(x):
    return tuple(_tup(y) for y in x) if isinstance(x, list) else x


def replay(payload):
    if "target" in payload:
        out = write_batch(([_tup(payload["target"])], payload["with_rows"], payload.get("two_way", False)))
        return [v["what"] for v in out["violations"]][:5]
    if "term" in payload:
        r = eval_batch([_tup(payload["term"])], read_path=True, circuit_path=True, max_viol=5)
        return [f"{k}: {R.show(t)} env={env} got={got!r} want={want!r}" for k, t, env, got, want in r["violations"]]
    if payload.get("castable"):
        return [v["what"] for v in castable_work(None)["violations"]][:5]
    return []
