"""C11 Memories behave as arrays of rows under any port configuration -- full reachable graph (BFS) per configuration.

For every memory configuration of the grid (row shape x depth x clock domains x write ports (granularity) x read ports
(comb / sync, every transparency subset) x reset exposure) the real elaborated `amaranth.lib.memory.Memory` is simulated by the
real Python simulator inside one testbench and explored breadth first in product with a plain-Python model (row array + one
register per synchronous read port) under EVERY port input valuation x every clock subset, plus testbench row writes
(`ctx.set(mem.data[i], v)`).  Along the same transitions the RTLIL emitted for the same fragment is executed by vf.rtlil.interp
and compared wherever the RTLIL is defined.

Undefined / unspecified points (documented, never demanded; the model adopts whatever the implementation does there):
  * data of a synchronous read port before its first capture;
  * reads from an address beyond the depth;
  * a read captured at the same instant as a write to that row from a *different* clock domain;
  * two write ports writing an overlapping set of bits of one row at one instant: excluded from the alphabet (counted).
"""
import itertools
import re
import warnings

from ..core.pool import pmap, rotate
from ..explore.bfs import explore, replay_path
from ..sim.driver import System, elaborate

ID = "C11"
LEVEL = "model_checking"


# ---------------------------------------------------------------- row shapes: everything the oracle knows, as plain ints
#   name: (width, kind)
SHAPES = {"u0": 0, "u1": 1, "u2": 2, "u4": 4, "s2": 2, "arr": 4, "struct": 3,
          # row shapes whose default constant (shape.const(None)) is NOT all-zero bits; the "0" variants are declared with init=[]
          "sdef": 3, "sdef0": 3, "cust": 2, "cust0": 2}
# bit pattern of a row that is not explicitly initialised (docs, MemoryData.Init: such rows "default to shape.const(None)" for a
# shape-castable row shape, to 0 otherwise), computed by hand from the declared field defaults below
DEFAULT_ROW = {"sdef": 0b101, "sdef0": 0b101,      # class S(data.Struct): a: unsigned(1) = 1; b: signed(2) = -2  -> a | (b & 3) << 1
               "cust": 2, "cust0": 2}              # custom shape-castable over unsigned(2) whose const(None) is 2
NONZERO_DEFAULT = tuple(DEFAULT_ROW)
# declared initial contents in the *native* form handed to Memory(init=...); shorter than the depth -> default rows
INIT = {
    "u0": [0],
    "u1": [1, 0, 1],
    "u2": [1, 2],
    "u4": [9, 6],
    "s2": [-2, 1, -1],
    "arr": [[1, 2], [3, 0]],                                   # ArrayLayout(unsigned(2), 2)
    "struct": [{"a": 1, "b": -2}, {"a": 0, "b": 1}],          # StructLayout({"a": 1, "b": signed(2)})
    "sdef": [{"a": 0, "b": 1}], "sdef0": [],                  # data.Struct class with non-zero field defaults
    "cust": [1], "cust0": [],                                 # custom ShapeCastable with a non-zero default
}


def kind_of(shape):
    """layout family of a row shape name: how native values map to bits"""
    if shape.startswith("sdef"):
        return "struct"
    if shape.startswith("cust"):
        return "u2"
    return shape


def _mask(w):
    return (1 << w) - 1


def gran_options(shape):
    if shape == "u0":
        return [None, 1]
    if shape[0] == "u":
        w = SHAPES[shape]
        return [None] + [g for g in (1, 2, 4) if w % g == 0 and g <= w]
    if shape == "arr":
        return [None, 1, 2]
    return [None]


def granule_masks(shape, gran):
    """bit mask of the row covered by each bit of a write port's enable input (docs: WritePort.Signature)"""
    w = SHAPES[shape]
    if gran is None:
        return [_mask(w)]
    if w == 0:
        return []
    if shape == "arr":                      # granularity counts elements (2 bits each, 2 elements)
        return [_mask(gran * 2) << (i * gran * 2) for i in range(2 // gran)]
    return [_mask(gran) << (i * gran) for i in range(w // gran)]


def raw_of(shape, native):
    """bit pattern of a row given in native form"""
    if native is None:
        return DEFAULT_ROW.get(shape, 0)
    shape = kind_of(shape)
    if shape == "arr":
        return (native[0] & 3) | ((native[1] & 3) << 2)
    if shape == "struct":
        return (native["a"] & 1) | ((native["b"] & 3) << 1)
    return native & _mask(SHAPES[shape])


def native_of(shape, raw):
    shape = kind_of(shape)
    if shape == "arr":
        return [raw & 3, (raw >> 2) & 3]
    if shape == "struct":
        b = (raw >> 1) & 3
        return {"a": raw & 1, "b": b - 4 if b & 2 else b}
    if shape == "s2":
        return raw - 4 if raw & 2 else raw
    return raw


def mk_shape(shape):
    from amaranth.hdl import unsigned, signed
    from amaranth.lib import data
    if shape.startswith("sdef"):
        class S(data.Struct):
            a: unsigned(1) = 1
            b: signed(2) = -2
        return S
    if shape.startswith("cust"):
        from amaranth.hdl import ShapeCastable, Const

        class Cust(ShapeCastable):
            def as_shape(self):
                return unsigned(2)

            def const(self, init):
                return Const(2 if init is None else init, 2)

            def __call__(self, value):
                return value

            def from_bits(self, bits):
                return bits
        return Cust()
    if shape == "arr":
        return data.ArrayLayout(unsigned(2), 2)
    if shape == "struct":
        return data.StructLayout({"a": 1, "b": signed(2)})
    if shape == "s2":
        return signed(2)
    return unsigned(SHAPES[shape])


def declared_rows(shape, depth):
    """declared initial contents as bit patterns: the explicit elements, then the shape's default constant"""
    return tuple(raw_of(shape, INIT[shape][i] if i < len(INIT[shape]) else None) for i in range(depth))


def addr_width(depth):
    """ceil(log2(depth)) for depth >= 1, 0 for depth 0 (docs: ReadPort signature addr_width=ceil_log2(depth))"""
    w = 0
    while (1 << w) < depth:
        w += 1
    return w


def _tup(x):
    return tuple(_tup(y) for y in x) if isinstance(x, (list, tuple)) else x


# ---------------------------------------------------------------- configuration
# cfg = (shape, depth, doms, wports, rports, rst, rtlil)
#   doms   = (("a", "pos"), ("b", "neg"))
#   wports = ((dom index, granularity or None), ...)
#   rports = ((dom index or -1 for comb, (transparent write port indices...)), ...)
#   rst    = 0 none | 1 domain resets (synchronous) are inputs | 2 same with asynchronous-reset domains
def tag_of(cfg):
    shape, depth, doms, wports, rports, rst, rtl = cfg
    d = ",".join(n + ("+" if e == "pos" else "-") for n, e in doms)
    w = ",".join(f"w{k}:{doms[dm][0]}" + ("" if g is None else f":g{g}") for k, (dm, g) in enumerate(wports))
    r = ",".join(f"r{j}:" + ("comb" if dm < 0 else doms[dm][0] + "".join(f":t{t}" for t in ts)) for j, (dm, ts) in enumerate(rports))
    return f"{shape}x{depth}/{d}/{w or '-'}/{r or '-'}" + ("", "/rst", "/arst")[rst]


class MemSpec:
    def __init__(self, cfg):
        cfg = _tup(cfg)
        self.cfg = cfg
        self.shape, self.depth, self.doms, self.wports, self.rports, self.rst, self.rtlil = cfg
        self.width = SHAPES[self.shape]
        self.aw = addr_width(self.depth)
        self.wmasks = [granule_masks(self.shape, g) for _d, g in self.wports]
        self.sync_idx = [j for j, (dm, _t) in enumerate(self.rports) if dm >= 0]     # read port j -> register slot
        self.slot = {j: s for s, j in enumerate(self.sync_idx)}
        self.init_rows = declared_rows(self.shape, self.depth)
        self.excluded = 0
        self.actions = self._actions()
        self._cache = {}
        self.it = None

    def describe(self):
        return list(self.cfg)

    # ------------------------------------------------------------ alphabet
    def _instants(self, clkmask):
        """a pulse is rise then fall: posedge domains act at the first instant, negedge domains at the second"""
        rise = {d for d, (_n, e) in enumerate(self.doms) if (clkmask >> d) & 1 and e == "pos"}
        fall = {d for d, (_n, e) in enumerate(self.doms) if (clkmask >> d) & 1 and e == "neg"}
        return [s for s in (rise, fall) if s]

    def expand_en(self, k, en):
        m = 0
        for i, gm in enumerate(self.wmasks[k]):
            if (en >> i) & 1:
                m |= gm
        return m

    def _actions(self):
        A = 1 << self.aw
        D = 1 << self.width
        walpha = []
        for k, (_dm, _g) in enumerate(self.wports):
            enw = len(self.wmasks[k])
            al = [(a, d, en) for a in range(A) for d in range(D) for en in range(1, 1 << enw)]
            al += [(a, D - 1, 0) for a in range(A)]            # disabled: every address, all-ones data
            walpha.append(al)
        ralpha = []
        for j, (dm, _t) in enumerate(self.rports):
            if dm < 0:
                ralpha.append([(a,) for a in range(A)])
            else:
                ralpha.append([(a, en) for a in range(A) for en in (0, 1)])
        nd = len(self.doms)
        out = []
        rsts = range(1 << nd) if self.rst else (0,)
        for clkmask in range(1, 1 << nd):
            instants = self._instants(clkmask)
            for rstmask in rsts:
                for wv in itertools.product(*walpha):
                    if self._overlap(wv, instants):
                        self.excluded += len(list(itertools.product(*ralpha)))
                        continue
                    for rv in itertools.product(*ralpha):
                        out.append(("e", clkmask, rstmask, wv, rv))
        for i in range(self.depth):
            for v in range(D):
                out.append(("p", i, v))
        # whole-row testbench writes of integers OUTSIDE the row's range (both sides) and sliced testbench writes; integer rows only
        for i in range(self.depth):
            for x in self.out_of_range():
                out.append(("po", i, x))
            for lo, hi in self.row_slices():
                for v in sorted({0, _mask(hi - lo)}):
                    out.append(("ps", i, lo, hi, v))
        return out

    def out_of_range(self):
        """integers a row of this shape cannot represent: below and above the range (wrapped on assignment like a Signal)"""
        w = self.width
        if kind_of(self.shape) in ("arr", "struct") or w == 0:
            return []
        if self.shape == "s2":
            return [-(1 << (w - 1)) - 1, -(1 << w), 1 << (w - 1), (1 << w) + 1]        # -3, -4, 2, 5
        return [-1, -(1 << w) + 1 - (1 << w), 1 << w, (1 << w) + _mask(w)]            # e.g. u2: -1, -7, 4, 7

    def row_slices(self):
        """proper bit ranges [lo:hi] of an integer row, written with ctx.set(mem.data[i][lo:hi], v)"""
        w = self.width
        if kind_of(self.shape) in ("arr", "struct") or self.shape.startswith("cust"):
            return []
        return [(lo, hi) for lo in range(w) for hi in range(lo + 1, w + 1) if hi - lo < w]

    def _overlap(self, wv, instants):
        for inst in instants:
            act = [(k, wv[k]) for k, (dm, _g) in enumerate(self.wports) if dm in inst]
            for x in range(len(act)):
                for y in range(x + 1, len(act)):
                    (k, (a1, _d1, e1)), (l, (a2, _d2, e2)) = act[x], act[y]
                    if a1 == a2 and a1 < self.depth and self.expand_en(k, e1) & self.expand_en(l, e2):
                        return True
        return False

    # ------------------------------------------------------------ the real design
    def build(self):
        from amaranth.hdl import Module, ClockDomain, Value, Cat
        from amaranth.lib.memory import Memory
        warnings.simplefilter("ignore")
        m = Module()
        cds = []
        for name, edge in self.doms:
            cd = ClockDomain(name, clk_edge=edge, async_reset=(self.rst == 2))
            m.domains += cd
            cds.append(cd)
        init = INIT[self.shape][:self.depth]
        mem = Memory(shape=mk_shape(self.shape), depth=self.depth, init=init)
        m.submodules.mem = mem
        wps, rps = [], []
        for k, (dm, g) in enumerate(self.wports):
            wps.append(mem.write_port(domain=self.doms[dm][0], granularity=g))
        for j, (dm, ts) in enumerate(self.rports):
            if dm < 0:
                rps.append(mem.read_port(domain="comb"))
            else:
                rps.append(mem.read_port(domain=self.doms[dm][0], transparent_for=[wps[t] for t in ts]))
        inputs, names = [], []
        for k, wp in enumerate(wps):
            for nm, s in (("addr", wp.addr), ("data", wp.data), ("en", wp.en)):
                s = Value.cast(s)
                s.name = f"w{k}_{nm}"
                inputs.append(s)
        for j, rp in enumerate(rps):
            s = Value.cast(rp.addr)
            s.name = f"r{j}_addr"
            inputs.append(s)
            if self.rports[j][0] >= 0:
                rp.en.name = f"r{j}_en"
                inputs.append(rp.en)
        if self.rst:
            inputs += [cd.rst for cd in cds]
        outs = []
        for j, rp in enumerate(rps):
            s = Value.cast(rp.data)
            s.name = f"r{j}_data"
            outs.append(s)
        self.mem, self.md, self.cds, self.outs, self.inputs = mem, mem.data, cds, outs, inputs
        self.out_cat = Cat(*outs)
        frag = elaborate(m)
        sysm = System(frag, clocks=[cd.clk for cd in cds], inputs=inputs)
        self._cache = {}
        self.it = None
        self.snaps = {}
        self.reported = set()
        self.sysm = sysm
        self.idle_inputs = 0
        if self.rtlil:
            from amaranth.back import rtlil
            from ..rtlil.parse import parse
            from ..rtlil.interp import Interp
            ports = [s for s in inputs + outs if len(s)] + [cd.clk for cd in cds] + ([] if self.rst else [cd.rst for cd in cds])
            text = rtlil.convert(frag, ports=ports, emit_src=False)
            # vf.rtlil.parse does not accept the alias wires of array-layout fields (`\\w0_data[0]`): rename them (names only)
            text = re.sub(r"(\\[A-Za-z0-9_$.]+)\[(\d+)\]", r"\1__\2", text)
            mods, _probs = parse(text)
            self.it = Interp(mods)
            self.it_names = {n[1:] for n in self.it.top.mod.wires}
            self.in_names = sorted(s.name for s in inputs if s.name in self.it_names)
            mems = self.it.find_mem("mem")
            self.it_has_mem = len(mems) == 1
        return sysm

    # ------------------------------------------------------------ helpers on the real simulator
    def _packed(self, sysm, a):
        c = self._cache.get(a)
        if c is None:
            _e, clkmask, rstmask, wv, rv = a
            vals, named = [], {}
            for k, (ad, d, en) in enumerate(wv):
                vals += [ad, d, en]
                named[f"w{k}_addr"], named[f"w{k}_data"], named[f"w{k}_en"] = ad, d, en
            for j, r in enumerate(rv):
                vals.append(r[0])
                named[f"r{j}_addr"] = r[0]
                if len(r) == 2:
                    vals.append(r[1])
                    named[f"r{j}_en"] = r[1]
            if self.rst:
                for d, (n, _e2) in enumerate(self.doms):
                    vals.append((rstmask >> d) & 1)
                    named[f"{n}_rst"] = (rstmask >> d) & 1
            named = {n: v for n, v in named.items() if self.it is not None and n in self.it_names}
            up = {f"{n}_clk": (clkmask >> d) & 1 for d, (n, _e2) in enumerate(self.doms)}
            down = {f"{n}_clk": 0 for n, _e2 in self.doms}
            c = (sysm.pack_inputs(vals), named, up, down)
            self._cache[a] = c
        return c

    def _observe(self, ctx):
        big = ctx.get(self.out_cat) if self.outs else 0
        out, off = [], 0
        for _ in self.rports:
            out.append((big >> off) & _mask(self.width))
            off += self.width
        return out

    def _tb_rows(self, ctx, errs, where="init"):
        """rows as seen by a testbench through mem.data[i] (typed), returned as bit patterns"""
        rows = []
        for i in range(self.depth):
            v = ctx.get(self.md[i])
            if kind_of(self.shape) in ("arr", "struct"):
                raw = v.as_bits()
                if kind_of(self.shape) == "struct":
                    typed_ok = (v.a, v.b) == (native_of("struct", raw)["a"], native_of("struct", raw)["b"])
                else:
                    typed_ok = [v[0], v[1]] == native_of("arr", raw)
            else:
                raw = v & _mask(self.width)
                typed_ok = v == native_of(self.shape, raw)
            if not typed_ok:
                errs.append(f"tb-get:row-value-type:{where}|ctx.get(mem.data[{i}]) = {v!r} is not the {self.shape} reading of bits {raw:#b}")
            rows.append(raw)
        return tuple(rows)

    def model_init(self, sysm):
        ctx = sysm.ctx
        errs = []
        rows = self._tb_rows(ctx, errs)
        self.root_errs = list(errs)
        if rows != self.init_rows:
            self.root_errs.append(f"init:rows|initial rows read by the testbench {rows}, declared initial contents {self.init_rows}")
        obs = self._observe(ctx)
        regs = tuple(obs[j] for j in self.sync_idx)           # before the first capture: unspecified, adopted
        m = (self.init_rows, regs, tuple(False for _ in self.sync_idx))
        if self.it is not None:
            if self.it_has_mem:
                got = tuple(self.it.find_mem("mem")[0])
                if got != self.init_rows:
                    self.root_errs.append(f"rtlil:init|RTLIL $meminit rows {got}, declared initial contents {self.init_rows}")
            elif self.depth and self.width:
                self.root_errs.append("rtlil:no-memory|emitted RTLIL has no memory named mem")
            self.snaps = {m: self.it.snapshot()}
        return m

    # ------------------------------------------------------------ one transition on simulator + interpreter + model
    def step(self, sysm, m, a):
        rows, regs, dfn = m
        ctx = sysm.ctx
        errs, flags = [], []
        if getattr(self, "root_errs", None):
            errs += self.root_errs
            self.root_errs = []
        it = self.it
        if it is not None:
            it.restore(self.snaps[m])     # every model state handed to step() was produced (and snapshotted) by model_init/step
        regs, dfn, rows = list(regs), list(dfn), list(rows)
        if a[0] in ("p", "po", "ps"):
            i = a[1]
            sysm.set_inputs(0)            # the explorer loads states, not inputs: give both executions the same (idle) inputs
            if it is not None:
                it.set({n: 0 for n in self.in_names})
            if a[0] == "p":
                v = a[2]
                ctx.set(self.md[i], native_of(self.shape, v))
                flags.append("tb-set")
                when, rk = "after ctx.set(mem.data[%d], %r)" % (i, native_of(self.shape, v)), "row:after-testbench-write"
            elif a[0] == "po":
                # stored row = the integer wrapped into the row shape (modulo 2**width, as an assignment to a Signal would)
                x = a[2]
                ctx.set(self.md[i], x)
                v = x & _mask(self.width)
                flags.append("tb-set-below-range" if x < 0 else "tb-set-above-range")
                when, rk = "after ctx.set(mem.data[%d], %d) (out of range, wraps to bits %d)" % (i, x, v), "row:after-out-of-range-testbench-write"
            else:
                _ps, _i, lo, hi, sv = a
                ctx.set(self.md[i][lo:hi], sv)
                v = (rows[i] & ~(_mask(hi - lo) << lo)) | (sv << lo)
                flags.append("tb-set-slice")
                when, rk = "after ctx.set(mem.data[%d][%d:%d], %d)" % (i, lo, hi, sv), "row:after-sliced-testbench-write"
            rows[i] = v
            if it is not None and self.it_has_mem:
                it.find_mem("mem")[0][i] = v
                it.settle()
            self._post(ctx, sysm, rows, regs, dfn, None, {}, errs, flags, when, row_kind=rk)
            return self._done(rows, regs, dfn, errs, flags)
        _e, clkmask, rstmask, wv, rv = a
        packed, named, up, down = self._packed(sysm, a)
        sysm.set_inputs(packed)
        if it is not None:
            it.set(named)
        pre_why = {j: "changed-without-clock-edge" + (":domain-reset-asserted" if (rstmask >> self.rports[j][0]) & 1 else "")
                   for j in self.sync_idx}
        self._post(ctx, sysm, rows, regs, dfn, a, pre_why, errs, flags,
                   "after the inputs were applied, before the edge", check_rows=False)
        # ---- the edge(s)
        sysm.pulse(clkmask)
        if it is not None:
            it.set(up)
            it.set(down)
        why = {}
        wrote = False
        row_note = set()
        for inst in self._instants(clkmask):
            writes = []
            for k, (dm, g) in enumerate(self.wports):
                if dm not in inst:
                    continue
                ad, d, en = wv[k]
                mask = self.expand_en(k, en)
                if en and ad >= self.depth:
                    flags.append("write-beyond-depth")
                    row_note.add("write-beyond-depth")
                if en == 0:
                    flags.append("write-disabled")
                if mask and ad < self.depth:
                    writes.append((k, dm, ad, d, mask))
                    flags.append("write")
                    if mask != _mask(self.width):
                        flags.append("write-partial")
                        row_note.add("partial")
            if len(writes) == 2 and writes[0][2] == writes[1][2]:
                flags.append("two-writers-one-row-disjoint-granules")
            new_rows = list(rows)
            for k, dm, ad, d, mask in writes:
                new_rows[ad] = (new_rows[ad] & ~mask) | (d & mask)
                wrote = True
            for j, (dm, ts) in enumerate(self.rports):
                if dm < 0 or dm not in inst:
                    continue
                s = self.slot[j]
                ad, en = rv[j]
                under = ":domain-reset-asserted" if (rstmask >> dm) & 1 else ""
                if not en:
                    why[j] = "disabled-port-did-not-hold" + under
                    flags.append("read-hold" + under)
                    continue
                if ad >= self.depth:
                    regs[s], dfn[s] = None, False          # unspecified: adopt
                    flags.append("read-beyond-depth")
                    continue
                v = rows[ad]
                kind = "captured-wrong-data"
                undefined = False
                for k, wdm, wad, d, mask in writes:
                    if wad != ad:
                        continue
                    if k in ts:
                        if (v & mask) != (d & mask):
                            flags.append("transparent-new-data")
                        v = (v & ~mask) | (d & mask)
                        kind = "captured-wrong-data:with-transparent-write"
                    elif wdm != dm:
                        undefined = True
                    else:
                        if (rows[ad] & mask) != (d & mask):
                            flags.append("non-transparent-old-data")
                        if kind == "captured-wrong-data":
                            kind = "captured-wrong-data:with-non-transparent-write"
                if undefined:
                    regs[s], dfn[s] = None, False
                    flags.append("read-vs-other-domain-write-undefined")
                    continue
                regs[s], dfn[s] = v, True
                why[j] = kind + under
                flags.append("read-capture" + under)
            rows = new_rows
        if len(self._instants(clkmask)) == 2:
            flags.append("rise-then-fall-domains")
        if len(self.doms) == 2 and clkmask == 3 and len(self._instants(clkmask)) == 1:
            flags.append("two-domains-one-instant")
        for j in self.sync_idx:
            why.setdefault(j, "changed-without-its-clock")
        rk = "row:wrong-after-write" if wrote else "row:changed-without-write"
        rk += "".join(":" + n for n in sorted(row_note))
        self._post(ctx, sysm, rows, regs, dfn, a, why, errs, flags, "after the edge", row_kind=rk)
        return self._done(rows, regs, dfn, errs, flags)

    def _done(self, rows, regs, dfn, errs, flags):
        m2 = (tuple(rows), tuple(regs), tuple(dfn))
        if self.rst == 2:
            # an asynchronous reset is level sensitive: release it before the explorer reads / loads register states, so that a
            # loaded state is never one the held reset makes impossible (releasing a reset changes no register)
            self.sysm.set_inputs(self.idle_inputs)
        # one report per kind and configuration (breadth-first order: the first one has a shortest path)
        errs = [e for e in errs if e.partition("|")[0] not in self.reported]
        self.reported.update(e.partition("|")[0] for e in errs)
        if self.it is not None and m2 not in self.snaps:
            self.snaps[m2] = self.it.snapshot()
        return m2, errs, tuple(sorted(set(flags)))

    def _post(self, ctx, sysm, rows, regs, dfn, a, why, errs, flags, when, check_rows=True, row_kind="row:after-testbench-write"):
        """compare simulator with model (resynchronising the model on a mismatch) and interpreter with simulator"""
        it = self.it
        obs = self._observe(ctx)
        for j, (dm, _ts) in enumerate(self.rports):
            if dm < 0:
                ad = a[4][j][0] if a is not None else None
                if ad is None:
                    ad = 0
                if ad < self.depth:
                    flags.append("comb-read")
                    if obs[j] != rows[ad]:
                        errs.append(f"r{j}:comb-read-data|{when}: asynchronous read port r{j} addr {ad} outputs {obs[j]}, row holds {rows[ad]}")
                    if it is not None and self.width and it.get(f"r{j}_data") != obs[j]:
                        errs.append(f"rtlil:r{j}:comb-read-data|{when}: r{j} addr {ad}: simulator {obs[j]}, RTLIL {it.get(f'r{j}_data')}")
                else:
                    flags.append("comb-read-beyond-depth")
            else:
                s = self.slot[j]
                if it is not None and self.width and dfn[s]:
                    flags.append("rtlil-sync-read-compared")
                    rt = it.get(f"r{j}_data")
                    if rt != obs[j]:
                        errs.append(f"rtlil:r{j}:{why.get(j, 'changed')}|{when}: r{j} data: simulator {obs[j]}, RTLIL {rt}")
                        dfn[s] = False               # masked until the next defined capture re-synchronises both
                if regs[s] is None:
                    regs[s] = obs[j]                      # unspecified point: adopt the implementation's value
                elif obs[j] != regs[s]:
                    kind = why.get(j, "changed")
                    errs.append(f"r{j}:{kind}|{when}: synchronous read port r{j} outputs {obs[j]}, expected {regs[s]}")
                    regs[s] = obs[j]
                    dfn[s] = False
        if check_rows:
            got = self._tb_rows(ctx, errs, row_kind)
            if got != tuple(rows):
                errs.append(f"{row_kind}|{when}: rows read through mem.data[i] {got}, expected {tuple(rows)}")
                rows[:] = list(got)
            if it is not None and self.it_has_mem:
                rt = it.find_mem("mem")[0]
                flags.append("rtlil-rows-compared")
                if tuple(rt) != got:
                    errs.append(f"rtlil:{row_kind}|{when}: rows: simulator {got}, RTLIL {tuple(rt)}")
                    rt[:] = list(got)
                    it.settle()


# ---------------------------------------------------------------- the grid
def _subsets(xs):
    xs = list(xs)
    for n in range(len(xs) + 1):
        for c in itertools.combinations(xs, n):
            yield c


DOMSETS = ((("a", "pos"),), (("a", "neg"),), (("a", "pos"), ("b", "pos")), (("a", "pos"), ("b", "neg")))


def cost_of(shape, depth, doms, wports, rports, rst):
    """(states, actions) estimate used only to bound the grid (explicit bound, reported)"""
    w, aw = SHAPES[shape], addr_width(depth)
    A, D = 1 << aw, 1 << w
    nsync = sum(1 for dm, _t in rports if dm >= 0)
    states = (1 << (w * depth)) * (1 << (w * nsync))
    acts = (1 << len(doms)) - 1
    if rst:
        acts *= 1 << len(doms)
    for dm, g in wports:
        acts *= A * D * ((1 << len(granule_masks(shape, g))) - 1) + A
    for dm, _t in rports:
        acts *= A if dm < 0 else 2 * A
    return states, acts + depth * D


def grid(budget, depths=range(0, 5), max_ports=2, max_total=3, rst_modes=(0, 1), max_rst_ports=2):
    """every configuration with at most max_ports write and max_ports read ports (max_total together) whose estimated
    states x actions fits the budget; degenerate memories (zero-width rows or depth 0) only with one posedge domain and <= 2 ports"""
    out = []
    for shape in SHAPES:
        grans = gran_options(shape)
        for depth in depths:
            if shape in NONZERO_DEFAULT and depth < 2:
                continue                 # these exist for the rows that are not explicitly initialised
            degenerate = SHAPES[shape] == 0 or depth == 0
            for doms in DOMSETS:
                nd = len(doms)
                if degenerate and doms != DOMSETS[0]:
                    continue
                wopts = [(d, g) for d in range(nd) for g in grans]
                for nw in range(0, max_ports + 1):
                    for wps in itertools.product(wopts, repeat=nw):
                        ropts = [(-1, ())]
                        for d in range(nd):
                            for ts in _subsets(k for k, wp in enumerate(wps) if wp[0] == d):
                                ropts.append((d, ts))
                        for nr in range(0, max_ports + 1):
                            if nw + nr > (2 if degenerate else max_total):
                                continue
                            for rps in itertools.combinations_with_replacement(ropts, nr):
                                sync_doms = [dm for dm, _g in wps] + [dm for dm, _t in rps if dm >= 0]
                                if set(sync_doms) != set(range(nd)):
                                    if not (nd == 1 and doms[0][1] == "pos" and not sync_doms and (nw + nr) <= 1):
                                        continue
                                if nd == 2 and doms[0][1] == doms[1][1] and sync_doms[0] != 0:
                                    continue                   # a/b symmetric
                                has_sync_r = any(dm >= 0 for dm, _t in rps)
                                for rst in rst_modes:
                                    if rst and (not has_sync_r or nw + nr > max_rst_ports):
                                        continue
                                    st, ac = cost_of(shape, depth, doms, wps, rps, rst)
                                    if st * ac <= budget:
                                        out.append(((shape, depth, doms, wps, rps, rst, True), st * ac))
    return out


def run_config(task):
    cfg, replay_n = task
    tag = tag_of(cfg)
    out = {"cfg": cfg, "tag": tag, "states": 0, "transitions": 0, "depth": 0, "flags": [], "capped": False, "validated": 0, "wall": 0.0,
           "errors": [], "mismatch": [], "excluded": 0, "actions": 0}
    try:
        spec = MemSpec(cfg)
        out["excluded"] = spec.excluded
        out["actions"] = len(spec.actions)
        res = explore(spec, procs=1, replay_n=replay_n, cap_states=400_000, max_errors=80)
    except Exception as e:
        import traceback
        out["errors"].append({"kind": f"crash:{type(e).__name__}", "text": f"{type(e).__name__}: {e} :: " + traceback.format_exc()[-600:], "path": []})
        return out
    out.update(states=res.states, transitions=res.transitions, depth=res.max_depth, flags=sorted(res.flags), capped=res.capped,
               validated=res.traces_validated, wall=round(res.wall, 2))
    seen = set()
    leftover = list(getattr(spec, "root_errs", None) or [])       # a memory without any action never reaches step()
    for errs, path in [(leftover, [])] + list(res.errors):
        for e in errs:
            kind, _, text = e.partition("|")
            if kind in seen:
                continue
            seen.add(kind)
            out["errors"].append({"kind": kind, "text": text, "path": [spec.actions[i] for i in path]})
    for path, want, got in res.replay_mismatch[:2]:
        out["mismatch"].append({"path": [spec.actions[i] for i in path], "bfs": repr(want), "replayed": repr(got)})
    return out


def init_check(task):
    """declared initial contents (explicit elements, then the shape's default constant) at power-on AND after Simulator.reset(),
    observed through mem.data[i], an asynchronous and a synchronous read port, and in the emitted RTLIL ($meminit_v2 + comb read).
    Between the two observations every row is overwritten (even rows by the testbench, odd rows through a write port)."""
    shape, depth = task
    from amaranth.hdl import Module, ClockDomain, Value
    from amaranth.lib.memory import Memory
    from amaranth.sim import Simulator
    warnings.simplefilter("ignore")
    out = {"shape": shape, "depth": depth, "errors": [], "checked": 0, "nonzero_default_rows": 0, "after_reset": 0, "overwritten": 0}
    want = declared_rows(shape, depth)
    out["nonzero_default_rows"] = sum(1 for i in range(depth) if i >= len(INIT[shape]) and want[i] != 0)
    w = SHAPES[shape]
    seen = set()

    def err(kind, text):
        if kind not in seen:
            seen.add(kind)
            out["errors"].append({"kind": kind, "text": text})
    try:
        m = Module()
        cd = ClockDomain("a")
        m.domains += cd
        mem = Memory(shape=mk_shape(shape), depth=depth, init=INIT[shape][:depth])
        m.submodules.mem = mem
        wp = mem.write_port(domain="a")
        rc = mem.read_port(domain="comb")
        rs = mem.read_port(domain="a")
        named = {"w0_addr": wp.addr, "w0_data": wp.data, "w0_en": wp.en, "r0_addr": rc.addr, "r0_data": rc.data,
                 "r1_addr": rs.addr, "r1_en": rs.en, "r1_data": rs.data}
        for n, sg in named.items():
            Value.cast(sg).name = n
        frag = elaborate(m)
        md = mem.data
        phase = [0]

        def raw_row(v):
            return v.as_bits() if kind_of(shape) in ("arr", "struct") else v & _mask(w)

        async def tb(ctx):
            tag = ("power-on", "after-reset")[phase[0]]
            for i in range(depth):
                got = raw_row(ctx.get(md[i]))
                out["checked"] += 1
                if got != want[i]:
                    err(f"init:tb-row:{tag}", f"{tag}: ctx.get(mem.data[{i}]) holds bits {got}, declared initial contents {want} "
                        f"(init={INIT[shape][:depth]!r}, default row {DEFAULT_ROW.get(shape, 0)})")
                ctx.set(rc.addr, i)
                got = ctx.get(Value.cast(rc.data)) & _mask(w)
                if got != want[i]:
                    err(f"init:comb-read:{tag}", f"{tag}: asynchronous read of row {i} gives {got}, declared {want[i]}")
                ctx.set(rs.addr, i)
                ctx.set(rs.en, 1)
                ctx.set(cd.clk, 1)
                ctx.set(cd.clk, 0)
                got = ctx.get(Value.cast(rs.data)) & _mask(w)
                if got != want[i]:
                    err(f"init:sync-read:{tag}", f"{tag}: synchronous read of row {i} gives {got}, declared {want[i]}")
            if phase[0] == 1:
                out["after_reset"] += depth
                return
            for i in range(depth):
                new = want[i] ^ _mask(w)
                if i % 2 == 0:
                    ctx.set(md[i], native_of(shape, new))
                else:
                    ctx.set(wp.addr, i)
                    ctx.set(Value.cast(wp.data), new)
                    ctx.set(wp.en, 1)
                    ctx.set(rs.en, 0)
                    ctx.set(cd.clk, 1)
                    ctx.set(cd.clk, 0)
                    ctx.set(wp.en, 0)
                if w and raw_row(ctx.get(md[i])) == new:
                    out["overwritten"] += 1
        sim = Simulator(frag)
        sim.add_testbench(tb)
        sim.run()
        phase[0] = 1
        sim.reset()
        sim.run()
        # RTLIL leg
        from amaranth.back import rtlil
        from ..rtlil.parse import parse
        from ..rtlil.interp import Interp
        ports = [Value.cast(sg) for sg in named.values() if len(Value.cast(sg))] + [cd.clk, cd.rst]
        text = rtlil.convert(frag, ports=ports, emit_src=False)
        text = re.sub(r"(\\[A-Za-z0-9_$.]+)\[(\d+)\]", r"\1__\2", text)
        mods, _probs = parse(text)
        it = Interp(mods)
        mems = it.find_mem("mem")
        if w and depth:
            if len(mems) != 1:
                err("init:rtlil:no-memory", "emitted RTLIL has no memory named mem")
            else:
                out["checked"] += depth
                if tuple(mems[0]) != want:
                    err("init:rtlil:meminit", f"RTLIL $meminit_v2 rows {tuple(mems[0])}, declared initial contents {want}")
                for i in range(depth):
                    if len(rc.addr):
                        it.set({"r0_addr": i})
                    if it.get("r0_data") != want[i]:
                        err("init:rtlil:comb-read", f"RTLIL asynchronous read of row {i} gives {it.get('r0_data')}, declared {want[i]}")
    except Exception as e:
        import traceback
        err(f"init:crash:{type(e).__name__}", f"{type(e).__name__}: {e} :: " + traceback.format_exc()[-500:])
    return out


def run_batch(tasks):
    return [init_check(t[1]) if t[0] == "init" else run_config(t) for t in tasks]


NEED = ("tb-set-below-range", "tb-set-above-range", "tb-set-slice", "write", "write-partial", "write-beyond-depth", "write-disabled", "read-capture", "read-hold", "read-beyond-depth",
        "transparent-new-data", "non-transparent-old-data", "comb-read", "comb-read-beyond-depth", "tb-set",
        "read-hold:domain-reset-asserted", "read-capture:domain-reset-asserted", "two-writers-one-row-disjoint-granules",
        "rise-then-fall-domains", "two-domains-one-instant", "read-vs-other-domain-write-undefined",
        "rtlil-sync-read-compared", "rtlil-rows-compared")


def configs(rep):
    """quick: <= 3 ports, budget 1500, depth 0..4, reset none/sync (+ async reset on small single-port memories);
    thorough: <= 3 ports, budget 30000, depth 0..5, reset none/sync/async, plus 2 write + 2 read ports up to budget 6000"""
    budget = rep.pick(1_500, 30_000)
    g = grid(budget, depths=range(0, 5) if rep.quick else range(0, 6), rst_modes=(0, 1) if rep.quick else (0, 1, 2))
    if rep.quick:
        g += grid(1_500, depths=(2, 3), max_ports=1, rst_modes=(2,))
    else:
        g += grid(6_000, depths=range(0, 5), max_total=4, rst_modes=(0, 1))
    seen, out = set(), []
    for c, cost in g:
        if c not in seen:
            seen.add(c)
            out.append((c, cost))
    return out, budget


def run(rep):
    # import the library once in the parent: the forked workers then share it instead of importing it 16 times
    import amaranth.hdl, amaranth.sim, amaranth.lib.memory, amaranth.lib.data, amaranth.back.rtlil  # noqa: F401
    from ..rtlil import parse as _p, interp as _i  # noqa: F401
    import gc
    gc.freeze()          # keep the collector from touching (and so copying) the parent's pages in every forked worker
    cfgs, budget = configs(rep)
    cfgs.sort(key=lambda c: -c[1])
    replay_n = rep.pick(4, 12)
    tasks = [(c, replay_n) for c, _cost in cfgs]
    tasks += [("init", (shape, depth)) for shape in SHAPES for depth in (range(1, 5) if rep.quick else range(1, 7))]
    # many small graphs: deal them (largest first) into a few batches per worker to keep the pool's traffic low
    nb = max(1, min(len(tasks), rep.procs * 4))
    batches = rotate([tasks[i::nb] for i in range(nb)], rep.seed)
    allflags = set()
    shapes, depths = set(), set()
    for r in (r for batch in pmap(run_batch, batches, rep.procs) for r in batch):
        if "checked" in r:
            rep.add("init_checks", 1)
            rep.add("init_rows_compared", r["checked"])
            rep.add("init_nonzero_default_rows", r["nonzero_default_rows"])
            rep.add("init_rows_compared_after_reset", r["after_reset"])
            rep.add("init_rows_overwritten_before_reset", r["overwritten"])
            for e in r["errors"]:
                rep.violation(f"mem-init({r['shape']}x{r['depth']}):{e['kind']}", f"memory of row shape {r['shape']} depth {r['depth']}: {e['text']}",
                              {"kind": "init-check", "shape": r["shape"], "depth": r["depth"], "want": e["kind"]})
            continue
        rep.add("states", r["states"])
        rep.add("transitions", r["transitions"])
        rep.add("traces_validated_against_impl", r["validated"])
        rep.add("configurations", 1)
        rep.add("excluded_same_bit_double_write_actions", r["excluded"])
        allflags.update(r["flags"])
        shapes.add(r["cfg"][0])
        depths.add(r["cfg"][1])
        if r["capped"]:
            rep.add("capped_configurations", 1)
        tag = r["tag"]
        for e in r["errors"]:
            rep.violation(f"mem({tag}):{e['kind']}", f"memory {tag}: {e['text']}; actions from reset "
                          f"(e, clock mask, reset mask, (w addr,data,en).., (r addr[,en])..) | (p, row, value): {e['path']}",
                          {"cfg": r["cfg"], "path": e["path"], "kind": e["kind"]})
        for mm in r["mismatch"]:
            rep.violation(f"mem({tag}):replay-mismatch", f"memory {tag}: the state reached by loading rows/registers through ctx.set differs from "
                          f"the state reached by replaying the port actions from reset: {mm}", {"cfg": r["cfg"], "path": mm["path"], "kind": "replay-mismatch"})
        if r["transitions"] > 500:
            rep.sample({"config": tag, "states": r["states"], "actions": r["actions"], "transitions": r["transitions"], "bfs_depth": r["depth"],
                        "wall_s": r["wall"]}, limit=40)
    rep.setcov("exhaustive", rep.cov.get("capped_configurations", 0) == 0)
    rep.setcov("grid_budget_states_x_actions", budget)
    rep.setcov("row_shapes", sorted(shapes))
    rep.setcov("depths", sorted(depths))
    rep.setcov("flags_seen", sorted(allflags))
    rep.setcov("actions", "per pulse: every clock subset x (every reset subset on /rst configurations) x per write port every (addr, data, non-zero "
               "enable mask) and every (addr, all-ones data, enable 0) x per sync read port every (addr, en) x per comb read port every addr; "
               "plus every testbench write ctx.set(mem.data[i], v), whole-row writes of 4 out-of-range integers per integer-shaped row (below "
               "and above the range) and sliced writes ctx.set(mem.data[i][lo:hi], 0 / all-ones) for every proper bit range; pulses where two write ports write overlapping bits of one in-depth row at "
               "one instant are excluded (counted in excluded_same_bit_double_write_actions)")
    rep.setcov("rule", "every configuration of the grid (row shape in u0,u1,u2,u4,s2,ArrayLayout(2,2),Struct{a:1,b:s2}; depth; 1-2 clock domains "
               "pos/neg; 0-2 write ports x every granularity; 0-2 read ports comb/sync x every transparency subset; reset none/sync/async) whose "
               "states x actions estimate fits the budget; for each the full reachable product graph (real simulated rows + read registers) x "
               "(row-array model) x (RTLIL interpreter state) is explored from reset with every action in every state")
    for need in NEED:
        rep.require(need in allflags, f"flag {need} never observed")
    rep.require(rep.cov.get("traces_validated_against_impl", 0) > 0, "no BFS path was replayed from reset")
    rep.require(rep.cov.get("init_nonzero_default_rows", 0) > 0, "no row defaulting to a non-zero shape constant was checked")
    rep.require(rep.cov.get("init_rows_compared_after_reset", 0) > 0 and rep.cov.get("init_rows_overwritten_before_reset", 0) > 0,
                "initial contents were never re-checked after overwriting the rows and Simulator.reset()")
    rep.require(any(sh in shapes for sh in NONZERO_DEFAULT), "no explored configuration has a row shape with a non-zero default constant")
    rep.assume("vf/rtlil/interp.py defines the RTLIL memory cell semantics ($memrd_v2 holds when EN=0, SRST/ARST tied to 0, INIT_VALUE x)")
    rep.assume("state injection through ctx.set(mem.data[i]) / ctx.set(read data) is validated by replaying shortest paths from reset")


def replay(payload):
    if payload.get("kind") == "init-check":
        r = init_check((payload["shape"], payload["depth"]))
        return [f"{e['kind']}: {e['text']}" for e in r["errors"] if payload.get("want") in (None, e["kind"])]
    spec = MemSpec(_tup(payload["cfg"]))
    acts = [_tup(a) for a in payload["path"]]
    if payload.get("kind", "").startswith("crash:"):
        try:
            spec.build()
            replay_path(spec, [])
        except Exception as e:
            return [f"{type(e).__name__}: {e}"]
        return []
    idx = [spec.actions.index(a) for a in acts]
    _key, errs = replay_path(spec, idx)
    if getattr(spec, "root_errs", None):
        errs = [(0, list(spec.root_errs))] + list(errs)
    want = payload.get("kind")
    out = []
    for i, es in errs:
        for e in es:
            kind, _, text = e.partition("|")
            if want in (None, "replay-mismatch") or kind == want:
                out.append(f"action {spec.actions[i] if spec.actions else None}: {kind}: {text}")
    return out
