"""C06 Multiply-driven bits and combinational loops are rejected; legal designs are not -- bounded-exhaustive enumeration.

(a) every placement of 1..3 drivers (logic in one of 4 modules x 3 domains, instance output, I/O buffer input, memory read
    data) over every non-empty bit subset of one or two narrow signals; ground truth by set arithmetic on bit owners.
(b) every directed dependency graph (self loops included) between N signal bits up to an edge bound, laid out over 1..3
    signals and realised in ~80 styles (bit-precise wiring / bitwise operators / choice data / conditional data,
    word-level operators per bit and shared between bits, conditions, part-select and array targets, registers,
    hierarchy); ground truth by DFS on the dependency graph derived from the statement's rules (ref/c06_model).
The observed outcome is the exception class (or none) of building the design and running amaranth.back.rtlil.convert."""
import itertools

from ..core.pool import pmap, rotate, chunks
from ..gen import c06_gen as G
from ..ref import c06_model as M

ID = "C06"
LEVEL = "exploration"


def observe(build):
    """-> 'ok' | exception class name (exact classes for the three documented rejections, 'other:<name>' otherwise)"""
    from amaranth.hdl import DriverConflict
    from amaranth.hdl._nir import CombinationalCycle
    from amaranth.hdl._dsl import SyntaxError as DslSyntaxError
    from amaranth.back import rtlil
    try:
        design, ports = build()
        rtlil.convert(design, ports=ports)
        return "ok"
    except Exception as e:
        t = type(e)
        if t is DriverConflict:
            return "DriverConflict"
        if t is CombinationalCycle:
            return "CombinationalCycle"
        if t is DslSyntaxError:
            return "SyntaxError"
        return "other:" + t.__name__
    except RecursionError:
        return "other:RecursionError"


# ---------------------------------------------------------------- (a)
def check_drv(case):
    want = M.driver_truth(case)
    got = observe(lambda: G.build_drv(case))
    return want, got


_SPACE = {}       # enumerated spaces, filled by plan() before the worker pool is forked; tasks carry index ranges only


def w_drv(task):
    widths, (key, lo, hi), styles_upto = task
    combos = _SPACE[key][lo:hi]
    out = {"cov": {"evaluations": 0, "distinct_nontrivial": 0, "drv_designs": 0, "drv_accept_expected": 0,
                   "drv_conflict_expected": 0, "drv_dsl_syntaxerror_expected": 0},
           "samples": [], "violations": [], "kinds": {}, "by_style": {}}
    cov = out["cov"]
    for combo in combos:
        for frontend, style in G.drv_variants(combo, len(combo) <= styles_upto):
            case = {"part": "drv", "widths": list(widths), "frontend": frontend, "style": style,
                    "drivers": [list(d) for d in combo]}
            want, got = check_drv(case)
            cov["evaluations"] += 1
            cov["drv_designs"] += 1
            if len(combo) > 1:
                cov["distinct_nontrivial"] += 1
            cov[{"ok": "drv_accept_expected", "DriverConflict": "drv_conflict_expected",
                 "SyntaxError": "drv_dsl_syntaxerror_expected"}[want]] += 1
            for kd in M.conflict_kinds(case):
                out["kinds"][kd] = out["kinds"].get(kd, 0) + 1
            if got != want:
                out["violations"].append({"sig": f"{G.drv_sig(case)}:got={got}:want={want}",
                                          "what": f"driver placement {G.drv_sig(case)}: conversion outcome {got}, expected {want}",
                                          "payload": case})
    return out


# ---------------------------------------------------------------- (b)
def check_dep(case):
    layout = tuple(case["layout"])
    edges = [tuple(e) for e in case["edges"]]
    groups = G.make_groups(layout, edges, case["style"])
    gs, want, cyc = G.dep_truth(layout, groups)
    for name in ("all", "sem", "claim"):
        if (M.find_cycle(gs[name]) is not None) != M.reaches_itself(gs[name]):
            raise AssertionError(f"reference model inconsistent on {case}")
    built = G.build_dep(layout, groups)           # construction errors are harness errors, not observations
    got = observe(lambda: built)
    return want, got, gs, cyc, groups


def agrees(want, got):
    if want == "either":
        return got in ("ok", "CombinationalCycle")
    return got == want


def _shared_reentry(graph, cyc):
    """the witness cycle passes through >= 2 distinct bits none of which depends on itself directly"""
    if cyc is None:
        return False
    return all(v not in graph.get(v, ()) for v in cyc) and len(set(cyc)) >= 2


DEP_COUNTERS = ("evaluations", "distinct_nontrivial", "dep_designs", "dep_accept_expected", "dep_cycle_expected",
                "dep_same_signal_feedforward_accepted", "dep_cycle_via_other_output_bit", "dep_register_breaks_cycle",
                "ov_designs", "ov_cycle_only_through_default_of_overridden_bit", "ov_cycle_through_default_of_plain_bit",
                "ov_cycle_through_override_value", "ov_cycle_through_override_condition",
                "ov_accept_default_replaced_by_leading_unconditional_assignment", "ov_accept_near_miss_with_override",
                "ov_dead_default_unspecified", "ov_dead_default_unspecified_observed_cycle",
                "ov_dead_default_unspecified_observed_ok", "ov_cycle_chain_over_2_signals", "ov_cycle_chain_over_3_signals")


def w_dep(task):
    layout, (key, lo, hi), style_list = task
    gs_ = _SPACE[key][lo:hi]
    out = {"cov": {k: 0 for k in DEP_COUNTERS}, "samples": [], "violations": [], "kinds": {}, "by_style": {}}
    cov = out["cov"]
    node_sig = [s for s, w in enumerate(layout) for _ in range(w)]
    for edges in gs_:
        # is the enumerated graph itself cyclic (used to count designs where only a register makes the design legal)
        raw_cyclic = M.find_cycle({v: frozenset(u for (u, vv) in edges if vv == v) for v in range(len(node_sig))}) is not None
        for style in style_list:
            case = {"part": "dep", "layout": list(layout), "edges": [list(e) for e in edges], "style": style}
            want, got, gs, cyc, groups = check_dep(case)
            graph = gs["sem"]
            ov = style.startswith("ov_")
            cov["evaluations"] += 1
            cov["dep_designs"] += 1
            cov["ov_designs"] += ov
            bs = out["by_style"].setdefault(style if not ov else "ov:" + "_".join(style.split("_")[1:3]), [0, 0])
            if any(gs["all"].values()):
                cov["distinct_nontrivial"] += 1
            if want == "ok":
                cov["dep_accept_expected"] += 1
                bs[0] += 1
                if any(node_sig[u] == node_sig[v] for v, ds in graph.items() for u in ds):
                    cov["dep_same_signal_feedforward_accepted"] += 1
                if "@r" in style and raw_cyclic:
                    cov["dep_register_breaks_cycle"] += 1
                if ov:
                    if M.find_cycle(gs["all"]) is not None:
                        cov["ov_accept_default_replaced_by_leading_unconditional_assignment"] += 1
                    elif any(graph.values()):
                        cov["ov_accept_near_miss_with_override"] += 1
            elif want == "CombinationalCycle":
                cov["dep_cycle_expected"] += 1
                bs[1] += 1
                if style.startswith("ws_") and _shared_reentry(graph, cyc):
                    cov["dep_cycle_via_other_output_bit"] += 1
                if ov:
                    role = style.split("_")[1]
                    if M.find_cycle(gs["nodefault_on_covered"]) is None:
                        cov["ov_cycle_only_through_default_of_overridden_bit"] += 1
                    elif role in ("d", "e", "p"):
                        cov["ov_cycle_through_default_of_plain_bit"] += 1
                    if role == "v":
                        cov["ov_cycle_through_override_value"] += 1
                    if role == "c":
                        cov["ov_cycle_through_override_condition"] += 1
                    nsig = len({node_sig[v] for v in cyc})
                    if nsig == 2:
                        cov["ov_cycle_chain_over_2_signals"] += 1
                    elif nsig >= 3:
                        cov["ov_cycle_chain_over_3_signals"] += 1
            else:
                cov["ov_dead_default_unspecified"] += 1
                if got == "CombinationalCycle":
                    cov["ov_dead_default_unspecified_observed_cycle"] += 1
                elif got == "ok":
                    cov["ov_dead_default_unspecified_observed_ok"] += 1
            if not agrees(want, got):
                why = (" (bit cycle " + "<-".join(map(str, cyc)) + ")") if cyc else ""
                want_s = want if want != "either" else "ok|CombinationalCycle"
                out["violations"].append({"sig": f"{G.dep_sig(case)}:got={got}:want={want_s}",
                                          "what": f"dependency graph {G.dep_sig(case)}{why}: conversion outcome {got}, expected {want_s}",
                                          "payload": case})
    return out


# ---------------------------------------------------------------- (a') placements under ResetInserter / EnableInserter / DomainRenamer
def check_wr(case):
    want = M.wrapped_truth(case)
    got = observe(lambda: G.build_wr(case))
    return want, got


WR_COUNTERS = ("evaluations", "distinct_nontrivial", "wr_designs", "wr_accept_expected", "wr_conflict_expected",
               "wr_dsl_syntaxerror_expected", "wr_plain_baseline", "wr_legal_multi_domain_under_multi_domain_reset",
               "wr_legal_multi_domain_under_multi_domain_enable", "wr_conflict_removed_by_merging_domains",
               "wr_conflict_kept_across_modules_after_merge", "wr_conflict_kept_under_inserter", "wr_nested_wrappers")


def w_wr(task):
    key, lo, hi = task
    out = {"cov": {k: 0 for k in WR_COUNTERS}, "samples": [], "violations": [], "kinds": {}, "by_style": {}}
    cov = out["cov"]
    for case in _SPACE[key][lo:hi]:
        want, got = check_wr(case)
        cov["evaluations"] += 1
        cov["distinct_nontrivial"] += 1
        cov["wr_designs"] += 1
        cov[{"ok": "wr_accept_expected", "DriverConflict": "wr_conflict_expected",
             "SyntaxError": "wr_dsl_syntaxerror_expected"}[want]] += 1
        w = case["wrap"]
        if not w:
            cov["wr_plain_baseline"] += 1
        else:
            chain = w["chain"]
            cov["wr_nested_wrappers"] += len(chain) > 1
            plain = M.wrapped_truth(dict(case, wrap=None, frontend="frag"))
            scope_doms = {d[2] for d in case["drivers"] if w["pos"] == "top" or d[1] == "child"}
            for kind, name in (("R", "reset"), ("E", "enable")):
                if want == "ok" and any(k == kind and a != "value" and len(scope_doms & set(a)) >= 2 for k, a in chain):
                    cov[f"wr_legal_multi_domain_under_multi_domain_{name}"] += 1
            if want == "ok" and plain == "DriverConflict":
                cov["wr_conflict_removed_by_merging_domains"] += 1
            if want == "DriverConflict" and plain == "DriverConflict":
                if any(k == "D" for k, a in chain):
                    merged = M.apply_wrappers(case)
                    if len({d[2] for d in merged}) < len({d[2] for d in case["drivers"]}):
                        cov["wr_conflict_kept_across_modules_after_merge"] += 1
                else:
                    cov["wr_conflict_kept_under_inserter"] += 1
        tag = "wr:plain" if not w else "wr:" + "+".join(k for k, a in w["chain"])
        bs = out["by_style"].setdefault(tag, [0, 0])
        bs[0 if want == "ok" else 1] += 1
        if got != want:
            out["violations"].append({"sig": f"{G.wr_sig(case)}:got={got}:want={want}",
                                      "what": f"wrapped placement {G.wr_sig(case)}: conversion outcome {got}, expected {want}",
                                      "payload": case})
    return out


# ---------------------------------------------------------------- (b'') run-time part selects
def check_ps(case):
    layout, groups = G.ps_groups(case)
    gs, want = G.ps_truth(layout, groups)
    for g in gs.values():
        if (M.find_cycle(g) is not None) != M.reaches_itself(g):
            raise AssertionError(f"reference model inconsistent on {case}")
    built = G.build_dep(layout, groups)
    got = observe(lambda: built)
    return want, got, gs


PS_COUNTERS = ("evaluations", "distinct_nontrivial", "ps_designs", "ps_cycle_expected", "ps_accept_expected",
               "ps_coarse_only_unspecified", "ps_coarse_only_observed_cycle", "ps_coarse_only_observed_ok",
               "ps_cycle_needs_stride_1", "ps_cycle_through_offset_only", "ps_cycle_through_sign_bit_only",
               "ps_cycle_single_window_bit", "ps_cycle_whole_window")


def w_ps(task):
    key, lo, hi = task
    out = {"cov": {k: 0 for k in PS_COUNTERS}, "samples": [], "violations": [], "kinds": {}, "by_style": {}}
    cov = out["cov"]
    for case in _SPACE[key][lo:hi]:
        want, got, gs = check_ps(case)
        cov["evaluations"] += 1
        cov["ps_designs"] += 1
        cov["distinct_nontrivial"] += 1
        bs = out["by_style"].setdefault(f"ps:{case['kind']}sel{case['w']}{'s' if case['signed'] else 'u'}", [0, 0])
        if want == "ok":
            cov["ps_accept_expected"] += 1
            bs[0] += 1
        elif want == "CombinationalCycle":
            cov["ps_cycle_expected"] += 1
            bs[1] += 1
            cov["ps_cycle_single_window_bit" if case["take"] >= 0 else "ps_cycle_whole_window"] += 1
            if M.find_cycle(gs["stridew"]) is None:
                cov["ps_cycle_needs_stride_1"] += 1
            # classify: does the loop survive without the value path / without sign extension?
            unsigned = dict(case, signed=False)
            if case["signed"] and G.ps_truth(*G.ps_groups(unsigned))[1] != "CombinationalCycle":
                cov["ps_cycle_through_sign_bit_only"] += 1
            if case["offsrc"] == "a" and G.ps_truth(*G.ps_groups(dict(case, offsrc="in")))[1] != "CombinationalCycle":
                cov["ps_cycle_through_offset_only"] += 1
        else:
            cov["ps_coarse_only_unspecified"] += 1
            if got == "CombinationalCycle":
                cov["ps_coarse_only_observed_cycle"] += 1
            elif got == "ok":
                cov["ps_coarse_only_observed_ok"] += 1
        if not agrees(want, got):
            want_s = want if want != "either" else "ok|CombinationalCycle"
            out["violations"].append({"sig": f"{G.ps_sig(case)}:got={got}:want={want_s}",
                                      "what": f"part select {G.ps_sig(case)}: conversion outcome {got}, expected {want_s}",
                                      "payload": case})
    return out


# ---------------------------------------------------------------- (b3) bidirectional I/O buffers
def check_iob(case):
    g, want = G.iob_truth(case)
    if (M.find_cycle(g) is not None) != M.reaches_itself(g):
        raise AssertionError(f"reference model inconsistent on {case}")
    built = G.build_iob(case)
    got = observe(lambda: built)
    return want, got, g


def w_iob(task):
    key, lo, hi = task
    names = ("evaluations", "distinct_nontrivial", "iob_designs", "iob_cycle_expected", "iob_accept_expected",
             "iob_cycle_o_to_i_only", "iob_cycle_oe_to_i_only", "iob_cross_bit_feed_accepted")
    out = {"cov": {k: 0 for k in names}, "samples": [], "violations": [], "kinds": {}, "by_style": {}}
    cov = out["cov"]
    for case in _SPACE[key][lo:hi]:
        want, got, g = check_iob(case)
        cov["evaluations"] += 1
        cov["iob_designs"] += 1
        cov["distinct_nontrivial"] += any(g.values())
        if want == "ok":
            cov["iob_accept_expected"] += 1
            cov["iob_cross_bit_feed_accepted"] += any(g.values())
        else:
            cov["iob_cycle_expected"] += 1
            if case["oe"] == "x":
                cov["iob_cycle_o_to_i_only"] += 1
            if all(s == "x" for s in case["o"]):
                cov["iob_cycle_oe_to_i_only"] += 1
        if got != want:
            out["violations"].append({"sig": f"{G.iob_sig(case)}:got={got}:want={want}",
                                      "what": f"bidirectional buffer {G.iob_sig(case)}: conversion outcome {got}, expected {want}",
                                      "payload": case})
    return out


def _dispatch(t):
    return (t[0], {"drv": w_drv, "dep": w_dep, "ps": w_ps, "wr": w_wr, "iob": w_iob}[t[0]](t[1]))


def plan(rep):
    """-> (tasks, description of the bounds)"""
    tasks = []
    if rep.quick:
        drv = [((2,), 2, 3, 2), ((3,), 2, 2, 1), ((1, 2), 2, 2, 1)]
        dep = [(3, 9, [(3,), (1, 2), (1, 1, 1)]), (4, 3, [(2, 2)]), (4, 2, [(4,)])]
        ov = [(2, 4, [(2,), (1, 1)], "A"), (3, 3, [(1, 1, 1), (1, 2)], "B"), (3, 2, [(3,), (2, 1)], "B")]
    else:
        drv = [((2,), 2, 3, 3), ((3,), 2, 3, 2), ((1, 2), 2, 3, 2), ((2, 2), 2, 3, 1)]
        dep = [(3, 9, [(3,), (1, 2), (2, 1), (1, 1, 1)]), (4, 5, [(4,), (2, 2), (1, 3), (2, 1, 1)]), (5, 3, [(5,)]), (5, 4, [(2, 3)]),
               (6, 2, [(3, 3), (2, 2, 2)])]
        ov = [(2, 4, [(2,), (1, 1)], "T"), (3, 9, [(3,), (1, 2), (2, 1), (1, 1, 1)], "B"), (3, 2, [(1, 2), (1, 1, 1)], "T"),
              (4, 3, [(2, 2), (1, 3), (1, 1, 2)], "B")]
    for widths, max_ord, max_multi, styles_upto in drv:
        key = ("drv", widths, max_ord, max_multi)
        _SPACE[key] = list(G.driver_cases(widths, max_ord, max_multi))
        for lo in range(0, len(_SPACE[key]), 400):
            tasks.append(("drv", (widths, (key, lo, lo + 400), styles_upto)))
    for n, max_edges, layouts in dep:
        st = G.styles(n)
        key = ("dep", n, max_edges)
        _SPACE[key] = list(G.graphs(n, max_edges))
        for layout in layouts:
            for lo in range(0, len(_SPACE[key]), 6):
                tasks.append(("dep", (layout, (key, lo, lo + 6), st)))
    # drivers of the form [unconditional whole-signal default ; conditional / partial override] (and chains of them)
    for n, max_edges, layouts, level in ov:
        st = G.ov_styles(level)
        key = ("dep", n, max_edges)
        if key not in _SPACE:
            _SPACE[key] = list(G.graphs(n, max_edges))
        step = max(1, 500 // len(st))
        for layout in layouts:
            for lo in range(0, len(_SPACE[key]), step):
                tasks.append(("dep", (layout, (key, lo, lo + step), st)))
    # two / three sync-domain placements under ResetInserter / EnableInserter / DomainRenamer (same space in both tiers)
    wr_widths = [(2,), (1, 1)]
    key = ("wr",)
    _SPACE[key] = [c for w in wr_widths for c in G.wr_cases(w)]
    for lo in range(0, len(_SPACE[key]), 400):
        tasks.append(("wr", (key, lo, lo + 400)))
    # loops through a bidirectional IOBufferInstance (same space in both tiers)
    _SPACE[("iob",)] = list(G.iob_cases())
    tasks.append(("iob", (("iob",), 0, len(_SPACE[("iob",)]))))
    # run-time part selects of every shape feeding one window bit / the whole window back (same space in both tiers)
    key = ("ps",)
    _SPACE[key] = list(G.ps_cases())
    for lo in range(0, len(_SPACE[key]), 300):
        tasks.append(("ps", (key, lo, lo + 300)))
    bounds = {"wrapped_placements": {"widths": [list(w) for w in wr_widths], "drivers": "ordered pairs and multisets of 3, logic in "
                                     "top|child x sync|d1|d2 x every bit subset, >= 2 domains", "wrapper_chains": len(G.WR_CHAINS),
                                     "positions": ["top", "child"], "frontends": "DSL (wrapped unless the DSL rejects "
                                     "the placement at statement time); raw Fragment for all pairs, and for the triples the DSL "
                                     "rejects (renamer chains only)", "designs": len(_SPACE[("wr",)])},
              "part_select": {"shapes": ["bit_select w=1..3", "word_select w=1..2"], "value_width": [3, 6], "signed": [False, True],
                              "offset_width": [1, 3], "value": list(G.PS_SRCS), "offset": list(G.PS_OFFS), "path": list(G.PS_VIAS),
                              "taken": "each single window bit and the whole window", "target": "every bit / every aligned slice",
                              "designs": len(_SPACE[key])},
              "drv": [{"widths": list(w), "ordered_tuples_up_to": a, "multisets_up_to": b, "if_switch_cat_styles_for_tuples_up_to": s}
                      for w, a, b, s in drv],
              "dep": [{"bits": n, "max_edges": e, "layouts": [list(l) for l in ls], "styles": len(G.styles(n))} for n, e, ls in dep],
              "dep_default_override": [{"bits": n, "max_edges": e, "layouts": [list(l) for l in ls],
                                        "styles": len(G.ov_styles(lv))} for n, e, ls, lv in ov]}
    return tasks, bounds


SAMPLE_CASES = [
    {"part": "drv", "widths": [2], "frontend": "dsl", "style": 0, "drivers": [["L", "top", "comb", 0, 1], ["L", "child", "comb", 0, 2]]},
    {"part": "drv", "widths": [2], "frontend": "dsl", "style": 0, "drivers": [["L", "top", "d1", 0, 3], ["inst", "child", None, 0, 2]]},
    {"part": "drv", "widths": [2], "frontend": "frag", "style": 0, "drivers": [["L", "sib", "comb", 0, 1], ["L", "sib", "d2", 0, 1]]},
    {"part": "drv", "widths": [2], "frontend": "dsl", "style": 0, "drivers": [["L", "sib", "comb", 0, 1], ["L", "sib", "d2", 0, 1]]},
    {"part": "dep", "layout": [3], "edges": [[0, 1], [1, 2]], "style": "w_cat"},
    {"part": "dep", "layout": [3], "edges": [[0, 1], [1, 2]], "style": "w_not"},
    {"part": "dep", "layout": [1, 2], "edges": [[0, 1], [1, 0]], "style": "pb_or"},
    {"part": "dep", "layout": [1, 2], "edges": [[0, 1], [1, 0]], "style": "pb_or@r0"},
    {"part": "dep", "layout": [3], "edges": [[0, 1], [1, 0]], "style": "pb_if"},
    {"part": "dep", "layout": [3], "edges": [[1, 0], [1, 1]], "style": "ws_add_w"},
    # s0.eq(f(s1)); If: s0[0].eq(x)  /  s1.eq(f(s0)); If: s1[0].eq(x): loop through the defaults of two overridden bits
    {"part": "dep", "layout": [1, 1], "edges": [[0, 1], [1, 0]], "style": "ov_d_ifb0_or"},
    {"part": "dep", "layout": [1, 1], "edges": [[0, 1], [1, 0]], "style": "ov_d_ufull_or"},      # defaults replaced: legal
    {"part": "dep", "layout": [1, 1], "edges": [[0, 1], [1, 0]], "style": "ov_e_ifb0_or"},       # dead default: unspecified
    {"part": "dep", "layout": [1, 1, 1], "edges": [[0, 1], [1, 2], [2, 0]], "style": "ov_m0_nestlast_add_hi"},
]


def run(rep):
    tasks, bounds = plan(rep)
    tasks = rotate(tasks, rep.seed)
    kinds, by_style = {}, {}
    for kind, out in pmap(_dispatch, tasks, rep.procs, chunksize=4):
        rep.merge(out)
        for k, v in out["kinds"].items():
            kinds[k] = kinds.get(k, 0) + v
        for k, (a, c) in out["by_style"].items():
            t = by_style.setdefault(k, [0, 0])
            t[0] += a
            t[1] += c
    rep.setcov("bounds", bounds)
    rep.setcov("driver_antecedents_seen", dict(sorted(kinds.items())))
    rep.setcov("styles_accept_cycle", {k: v for k, v in sorted(by_style.items())})
    rep.setcov("exhaustive", True)
    rep.setcov("rule", "(a) every ordered tuple / multiset of drivers {logic in top|child|grand|sib x comb|d1|d2, instance output, "
               "IOBuffer input, memory read data} x every non-empty bit subset of the listed signal widths, written with the Module "
               "DSL (plain, If, Switch, bitwise Cat target) and with raw Fragments; expected DriverConflict iff a bit has two owners "
               "(DSL SyntaxError iff one module assigns a bit from two domains). (b) every directed graph (self loops allowed) on "
               "the listed bit counts up to the edge bound x every listed layout x every style; expected CombinationalCycle iff a "
               "bit reaches itself under the statement's dependency rules, otherwise rtlil.convert must succeed. "
               "(b') the same graphs realised with drivers [unconditional whole-signal default ; override] for every value edge "
               "kind: override conditional (If, Switch case, nested If, Else) or unconditional, covering the whole signal / bit 0 / "
               "the high slice / the last bit, with the dependency placed in the default, the override value, the override "
               "condition or rotating over the signals (chains), plus a leading / trailing unconditional replacement of the "
               "default; a bit depends on an earlier assignment unless a later unconditional assignment covers it. "
               "(a') every 2-driver (ordered) / 3-driver (multiset) placement over >= 2 of the domains sync|d1|d2 in top|child, plain and "
               "wrapped at top / at child in every listed chain of ResetInserter / EnableInserter (value form, dicts naming 1..3 "
               "domains) / DomainRenamer (maps keeping domains apart and maps merging them) / nestings of two; expected = the same "
               "set-arithmetic oracle on the owners after the renamers' substitution (inserters change nothing). "
               "(b3) every bidirectional IOBufferInstance of width 1..2 whose o bits and oe are each computed (wire / ~ / &) from a free "
               "input or from one of its own i bits, directly or through a second signal: i[k] depends on o[k] and on oe. "
               "(b'') every run-time bit_select(off, 1..3) / word_select(off, 1..2) on a (signed|unsigned) value of width 3..6 (whole "
               "signal, low or high slice, directly or through a second signal) with a 1..3 bit offset (free input or bits of the "
               "same signal), each single window bit and the whole window assigned to every bit / slice of the signal: "
               "CombinationalCycle required iff the per-bit graph (window bit k <- offset, value[k + off*stride], sign bit past the "
               "MSB) has a cycle, acceptance required iff even the word-level graph has none. non-trivial: "
               "designs with >= 2 drivers / with >= 1 dependency edge")
    for case in SAMPLE_CASES:          # a few fixed members of the space, evaluated here so that the evidence shows real outcomes
        if case["part"] == "drv":
            want, got = check_drv(case)
            rep.sample({"case": G.drv_sig(case), "expected": want, "observed": got})
        else:
            want, got = check_dep(case)[:2]
            rep.sample({"case": G.dep_sig(case), "expected": want, "observed": got})
    # vacuity guards: every antecedent of the statement and both outcomes of every style
    for need in ("two_modules", "two_domains", "two_modules_and_domains", "logic_and_inst", "logic_and_iob", "logic_and_mem",
                 "two_nonlogic", "disjoint_multi_driver", "single_driver"):
        rep.require(kinds.get(need, 0) > 0, f"driver antecedent {need} never generated")
    for key in ("drv_accept_expected", "drv_conflict_expected", "drv_dsl_syntaxerror_expected", "dep_accept_expected",
                "dep_cycle_expected", "dep_same_signal_feedforward_accepted", "dep_cycle_via_other_output_bit",
                "dep_register_breaks_cycle"):
        rep.require(rep.cov.get(key, 0) > 0, f"{key} is zero")
    for st, (acc, cyc) in by_style.items():
        rep.require(acc > 0, f"style {st}: no accepted design")
        never_cyclic = st.endswith("@rall") or st.startswith(("ov:e_", "ov:p_")) or st == "ov:d_ufull"
        if not never_cyclic:
            rep.require(cyc > 0, f"style {st}: no cyclic design")
    for key in ("ov_cycle_only_through_default_of_overridden_bit", "ov_cycle_through_default_of_plain_bit",
                "ov_cycle_through_override_value", "ov_cycle_through_override_condition",
                "ov_accept_default_replaced_by_leading_unconditional_assignment", "ov_accept_near_miss_with_override",
                "ov_dead_default_unspecified", "ov_cycle_chain_over_2_signals", "ov_cycle_chain_over_3_signals"):
        rep.require(rep.cov.get(key, 0) > 0, f"{key} is zero")
    for key in WR_COUNTERS[3:]:
        rep.require(rep.cov.get(key, 0) > 0, f"{key} is zero")
    for key in ("iob_cycle_expected", "iob_accept_expected", "iob_cycle_o_to_i_only", "iob_cycle_oe_to_i_only",
                "iob_cross_bit_feed_accepted"):
        rep.require(rep.cov.get(key, 0) > 0, f"{key} is zero")
    for key in ("ps_cycle_expected", "ps_accept_expected", "ps_coarse_only_unspecified", "ps_cycle_needs_stride_1",
                "ps_cycle_through_offset_only", "ps_cycle_through_sign_bit_only", "ps_cycle_single_window_bit",
                "ps_cycle_whole_window"):
        rep.require(rep.cov.get(key, 0) > 0, f"{key} is zero")
    for role in ("d", "v", "c", "m0", "m1", "m2"):
        for cond in G.OV_CONDS:
            if cond == "u" and role != "d" and role != "v":
                continue
            rep.require(any(k.startswith(f"ov:{role}_{cond}") and v[1] > 0 for k, v in by_style.items()),
                        f"default/override drivers: no cyclic design with role {role} and override kind {cond}")
    rep.assume("two different instance / memory / I/O-buffer outputs on one bit count as a driver conflict (each is its own driver)")
    rep.assume("a loop that exists only through an assignment made unobservable by a LATER unconditional assignment is accepted "
               "either way (ok or CombinationalCycle), except when the dead assignment is an unconditional whole-signal one in the "
               "leading run of such assignments of its signal (then the design must be accepted)")
    rep.assume("a loop through a run-time part select that exists only under the word-level reading (every window bit depends on "
               "every value bit) is accepted either way; the older bsel_* edge kinds keep the word-level reading of the statement")
    rep.assume("an asynchronous memory read port makes its data depend combinationally on its address; Instances are not used "
               "inside dependency paths; If/Elif chains and don't-care patterns are not generated (their condition dependencies "
               "are not fixed by the statement)")


def replay(payload):
    if payload["part"] == "drv":
        want, got = check_drv(payload)
    elif payload["part"] == "wr":
        want, got = check_wr(payload)
    elif payload["part"] == "iob":
        want, got = check_iob(payload)[:2]
    elif payload["part"] == "ps":
        want, got = check_ps(payload)[:2]
    else:
        want, got = check_dep(payload)[:2]
    if not agrees(want, got):
        return [f"conversion outcome {got}, expected {want if want != 'either' else 'ok|CombinationalCycle'}"]
    return []
