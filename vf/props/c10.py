"""C10 Shape casting and constant normalisation are exact and minimal -- bounded-exhaustive enumeration."""
import enum as py_enum
import itertools
import warnings

from ..core.pool import pmap, rotate, chunks

ID = "C10"
LEVEL = "exploration"


# ---------------------------------------------------------------- reference (ints only)
def min_shape(elems, zero_is_one_bit=False):
    """narrowest (width, signed) able to represent every element"""
    elems = list(elems)
    if not elems:
        return (0, False)
    signed = any(e < 0 for e in elems)
    width = 0
    for e in elems:
        if e < 0:
            w = (~e).bit_length() + 1
        else:
            w = e.bit_length()
            if zero_is_one_bit and e == 0:
                w = 1
            if signed:
                w += 1
        width = max(width, w)
    return (width, signed)


def wrap(v, width, signed):
    if width == 0:
        return 0
    v &= (1 << width) - 1
    if signed and v >> (width - 1):
        v -= 1 << width
    return v


def _viol(out, sig, what, payload):
    out["violations"].append({"sig": sig, "what": what, "payload": payload})


# ---------------------------------------------------------------- workers
def w_ranges(task):
    from amaranth.hdl import Shape
    a_list, B, S = task
    out = {"cov": {"evaluations": 0, "distinct_nontrivial": 0}, "samples": [], "violations": []}
    for a in a_list:
        for b in range(-B, B + 1):
            for s in range(-S, S + 1):
                if s == 0:
                    continue
                r = range(a, b, s)
                out["cov"]["evaluations"] += 1
                try:
                    sh = Shape.cast(r)
                    got = (sh.width, sh.signed)
                except Exception as e:
                    got = ("exc", type(e).__name__)
                want = min_shape(r)
                if len(r) >= 2:
                    out["cov"]["distinct_nontrivial"] += 1
                if got != want:
                    _viol(out, f"range({a},{b},{s})", f"Shape.cast(range({a},{b},{s})) = {got}, minimal is {want}",
                          {"kind": "range", "a": a, "b": b, "s": s})
    return out


def w_const(task):
    from amaranth.hdl import Const, Shape, Signal, unsigned, signed
    from amaranth.hdl._mem import MemoryData
    widths, V = task
    out = {"cov": {"evaluations": 0, "distinct_nontrivial": 0}, "samples": [], "violations": []}
    warnings.simplefilter("ignore")
    for w in widths:
        for sg in (False, True):
            if sg and w == 0:
                continue
            shape = Shape(w, sg)
            for v in range(-V, V + 1):
                want = wrap(v, w, sg)
                out["cov"]["evaluations"] += 3
                if want != v:
                    out["cov"]["distinct_nontrivial"] += 1
                c = Const(v, shape)
                if c.value != want or c.shape() != shape:
                    _viol(out, f"Const({v},{shape!r})", f"Const({v}, {shape!r}).value = {c.value}, want {want}",
                          {"kind": "const", "v": v, "w": w, "s": sg})
                sig = Signal(shape, init=v)
                if sig.init != want:
                    _viol(out, f"Signal({shape!r},init={v})", f"Signal init {sig.init}, want {want}",
                          {"kind": "siginit", "v": v, "w": w, "s": sg})
                md = MemoryData(shape=shape, depth=2, init=[v])
                if list(md.init)[0] != want or list(md.init)[1] != 0:
                    _viol(out, f"MemoryData({shape!r},init=[{v}])", f"memory row {list(md.init)}, want [{want}, 0]",
                          {"kind": "meminit", "v": v, "w": w, "s": sg})
                # every way of setting initial rows wraps the same way: index assignment, slice assignment, whole-list assignment;
                # the rows the simulator / netlist see (Init._raw) agree with the rows the user sees
                out["cov"]["evaluations"] += 3
                v2 = -v - 1
                want2 = wrap(v2, w, sg)
                for how in ("index", "slice", "assign"):
                    md = MemoryData(shape=shape, depth=3, init=[])
                    try:
                        if how == "index":
                            md.init[1] = v
                            md.init[2] = v2
                        elif how == "slice":
                            md.init[1:3] = [v, v2]
                        else:
                            md.init = [0, v, v2]
                        got = list(md.init)
                        raw = list(md.init._raw)
                    except Exception as ex:
                        got = raw = ["raises " + type(ex).__name__]
                    if got != [0, want, want2] or raw != [0, want, want2]:
                        _viol(out, f"MemoryData({shape!r}).init:{how}:{v}", f"memory rows set by {how} with ({v}, {v2}): {got} (raw {raw}), want [0, {want}, {want2}]",
                              {"kind": "meminit", "v": v, "w": w, "s": sg})
    return out


def w_range_init(task):
    from amaranth.hdl import Signal, Shape
    from amaranth.hdl._ast import SyntaxError
    a_list, B = task
    out = {"cov": {"evaluations": 0, "distinct_nontrivial": 0, "accepted": 0, "rejected": 0}, "samples": [], "violations": []}
    warnings.simplefilter("ignore")
    for a in a_list:
        for b in range(-B, B + 1):
            for s in (1, 2, -1, 3):
                r = range(a, b, s)
                w, sg = min_shape(r)
                for v in range(-B - 2, B + 3):
                    out["cov"]["evaluations"] += 1
                    try:
                        sig = Signal(r, init=v)
                        got = ("ok", sig.init)
                    except SyntaxError:
                        got = ("rejected",)
                    except Exception as e:
                        got = ("exc", type(e).__name__)
                    want = ("ok", wrap(v, w, sg)) if v in r else ("rejected",)
                    out["cov"]["accepted" if v in r else "rejected"] += 1
                    if v in r:
                        out["cov"]["distinct_nontrivial"] += 1
                    if got != want:
                        _viol(out, f"Signal(range({a},{b},{s}),init={v})", f"got {got}, want {want}",
                              {"kind": "rangeinit", "a": a, "b": b, "s": s, "v": v})
    return out


def w_enums(task):
    from amaranth.hdl import Shape
    from amaranth.lib import enum as am_enum
    combos = task
    out = {"cov": {"evaluations": 0, "distinct_nontrivial": 0}, "samples": [], "violations": []}
    for vals in combos:
        want = min_shape(vals, zero_is_one_bit=True)
        members = {f"M{i}": v for i, v in enumerate(vals)}
        for kind, base in (("Enum", py_enum.Enum), ("IntEnum", py_enum.IntEnum), ("am.Enum", am_enum.Enum),
                           ("am.IntEnum", am_enum.IntEnum)):
            out["cov"]["evaluations"] += 1
            try:
                cls = base("E", members)
                sh = Shape.cast(cls)
                got = (sh.width, sh.signed)
            except Exception as e:
                got = ("exc", type(e).__name__ + ":" + str(e)[:60])
            if len(vals) >= 2:
                out["cov"]["distinct_nontrivial"] += 1
            if got != want:
                _viol(out, f"enum:{kind}:{list(vals)}", f"Shape.cast({kind} with values {list(vals)}) = {got}, want {want}",
                      {"kind": "enum", "base": kind, "vals": list(vals)})
    return out


# Const/Cat/Slice terms: ("c", v, w, s) | ("cat", t...) | ("slice", t, a, b)
def term_eval(t):
    """-> (value as unsigned bit pattern, width, signed)"""
    if t[0] == "c":
        _, v, w, s = t
        return (v & ((1 << w) - 1), w, s)
    if t[0] == "cat":
        val, off = 0, 0
        for p in t[1:]:
            pv, pw, _ = term_eval(p)
            val |= pv << off
            off += pw
        return (val, off, False)
    if t[0] == "slice":
        _, x, a, b = t
        xv, xw, _ = term_eval(x)
        return ((xv >> a) & ((1 << (b - a)) - 1), b - a, False)
    raise ValueError(t)


def term_build(t):
    from amaranth.hdl import Const, Cat, Shape
    if t[0] == "c":
        return Const(t[1], Shape(t[2], t[3]))
    if t[0] == "cat":
        return Cat(*[term_build(p) for p in t[1:]])
    if t[0] == "slice":
        return term_build(t[1])[t[2]:t[3]]


def const_terms(depth, W):
    leaves = [("c", v, w, s) for w in range(0, W + 1) for s in (False, True)
              for v in range(-(1 << w) // 2 if s else 0, (1 << w) // 2 if s else (1 << w)) if not (s and w == 0)]
    level = list(leaves)
    allt = list(leaves)
    for d in range(depth):
        new = []
        for x in level:
            _, xw, _ = term_eval(x)
            for a in range(0, xw + 1):
                for b in range(a, xw + 1):
                    new.append(("slice", x, a, b))
        for x in level:
            new.append(("cat", x))
            for y in leaves:
                new.append(("cat", x, y))
                new.append(("cat", y, x))
        new.append(("cat",))
        allt += new
        level = new
    return allt


def w_constcast(terms):
    from amaranth.hdl import Const
    out = {"cov": {"evaluations": 0, "distinct_nontrivial": 0}, "samples": [], "violations": []}
    for t in terms:
        out["cov"]["evaluations"] += 1
        v, w, s = term_eval(t)
        want = wrap(v, w, s)
        if t[0] != "c":
            out["cov"]["distinct_nontrivial"] += 1
        try:
            c = Const.cast(term_build(t))
            got = (c.value, c.shape().width, c.shape().signed)
        except Exception as e:
            got = ("exc", type(e).__name__)
        if got != (want, w, s):
            _viol(out, f"constcast:{t!r}", f"Const.cast({t!r}) = {got}, want {(want, w, s)}", {"kind": "constcast", "term": t})
    return out


def w_bits(task):
    from amaranth.utils import bits_for, ceil_log2, exact_log2
    lo, hi = task
    out = {"cov": {"evaluations": 0, "distinct_nontrivial": 0}, "samples": [], "violations": []}
    for n in range(lo, hi):
        out["cov"]["evaluations"] += 3
        out["cov"]["distinct_nontrivial"] += 1
        # ceil_log2: smallest k with 2**k >= n (n >= 0)
        if n >= 0:
            k = ceil_log2(n)
            if not ((1 << k) >= n and (k == 0 or (1 << (k - 1)) < n)):
                _viol(out, f"ceil_log2({n})", f"ceil_log2({n}) = {k}", {"kind": "ceil_log2", "n": n})
        for rs in (False, True):
            r = bits_for(n, rs)
            if n > 0 and not rs:
                ok = n < (1 << r) and (r == 0 or n >= (1 << (r - 1)))
            elif n == 0 and not rs:
                ok = r == 1
            else:
                lo_, hi_ = -(1 << (r - 1)), (1 << (r - 1)) - 1
                ok = r >= 1 and lo_ <= n <= hi_ and (r == 1 or not (-(1 << (r - 2)) <= n <= (1 << (r - 2)) - 1))
            if not ok:
                _viol(out, f"bits_for({n},{rs})", f"bits_for({n},{rs}) = {r}", {"kind": "bits_for", "n": n, "rs": rs})
        if n > 0 and n & (n - 1) == 0:
            if (1 << exact_log2(n)) != n:
                _viol(out, f"exact_log2({n})", "wrong", {"kind": "exact_log2", "n": n})
    return out


def w_wide(ks):
    """values next to powers of two far beyond the machine word and the double-precision mantissa: minimal shapes of constants and ranges"""
    from amaranth.hdl import Const, Shape, Signal
    out = {"cov": {"evaluations": 0, "distinct_nontrivial": 0, "wide_values": 0}, "samples": [], "violations": []}

    def ref_bits(n):
        # width of the narrowest shape holding n: unsigned for n >= 0, two's complement otherwise
        if n >= 0:
            w = 0
            while n >= (1 << w):
                w += 1
            return max(w, 1) if n == 0 else w, False
        w = 1
        while not (-(1 << (w - 1)) <= n):
            w += 1
        return w, True
    for k in ks:
        for d in (-2, -1, 0, 1, 2):
            for sign in (1, -1):
                n = sign * ((1 << k) + d)
                out["cov"]["wide_values"] += 1
                out["cov"]["evaluations"] += 3
                out["cov"]["distinct_nontrivial"] += 1
                try:
                    w, sg = ref_bits(n)
                    c = Const(n)
                    if n == 0:
                        pass
                    elif (len(c), c.shape().signed, c.value) != (w, sg, n):
                        _viol(out, f"wide-const({sign}*(2**{k}{d:+d}))", f"Const({n}) has shape {c.shape()!r} and value {c.value}; the narrowest shape holding it is "
                              f"{'signed' if sg else 'unsigned'}({w})", {"kind": "wide", "k": k})
                    if n > 0:
                        # range(n + 1) contains 0..n; range(-n, 1) contains -n..0
                        sh = Shape.cast(range(n + 1))
                        if (sh.width, sh.signed) != (w, False):
                            _viol(out, f"wide-range(2**{k}{d:+d}+1)", f"Shape.cast(range({n}+1)) = {sh!r}, want unsigned({w})", {"kind": "wide", "k": k})
                        sh = Shape.cast(range(-n, 1))
                        wn, _ = ref_bits(-n)
                        if (sh.width, sh.signed) != (wn, True):
                            _viol(out, f"wide-range(-(2**{k}{d:+d}),1)", f"Shape.cast(range(-{n}, 1)) = {sh!r}, want signed({wn})", {"kind": "wide", "k": k})
                        s_ = Signal(range(n + 1), init=n)
                        if s_.init != n:
                            _viol(out, f"wide-init(2**{k}{d:+d})", f"Signal(range({n}+1), init={n}).init = {s_.init}", {"kind": "wide", "k": k})
                except Exception as ex:
                    _viol(out, f"wide-raises({sign}*(2**{k}{d:+d}))", f"constant / range shape / range-shaped initial value for {n}: {type(ex).__name__}: {ex}",
                          {"kind": "wide", "k": k})
    return out


def w_layout_init(_task):
    """field initialisers given as ready-made constants of another width: the field holds the unique value of its own shape congruent to the
    constant's value (the constant's VALUE counts, as for any integer), in data.Const, Signal(layout, init=...) and memory rows alike"""
    from amaranth.hdl import Const, Signal, Shape, signed, unsigned
    from amaranth.hdl._mem import MemoryData
    from amaranth.lib import data
    out = {"cov": {"evaluations": 0, "distinct_nontrivial": 0, "layout_field_initialisers": 0}, "samples": [], "violations": []}
    for fa, fb in ((unsigned(4), signed(4)), (signed(3), unsigned(2)), (unsigned(1), signed(1))):
        lay = data.StructLayout({"a": fa, "b": fb})
        wa, wb = Shape.cast(fa).width, Shape.cast(fb).width

        def wrap(v, sh):
            sh = Shape.cast(sh)
            v &= (1 << sh.width) - 1
            return v - (1 << sh.width) if sh.signed and v >> (sh.width - 1) else v
        for cw in range(1, 7):
            for csg in (False, True):
                for cv in (range(-(1 << (cw - 1)), 1 << (cw - 1)) if csg else range(1 << cw)):
                    c = Const(cv, Shape(cw, csg))
                    want_a, want_b = wrap(cv, fa), wrap(cv, fb)
                    want_bits = (want_a & ((1 << wa) - 1)) | ((want_b & ((1 << wb) - 1)) << wa)
                    out["cov"]["layout_field_initialisers"] += 1
                    out["cov"]["evaluations"] += 3
                    out["cov"]["distinct_nontrivial"] += 1
                    try:
                        got = {"const": data.Const(lay, 0).__class__ and lay.const({"a": c, "b": c}).as_bits(),
                               "signal": Signal(lay, init={"a": c, "b": c}).as_value().init,
                               "memory": MemoryData(shape=lay, depth=1, init=[{"a": c, "b": c}])._init._raw[0]}
                    except Exception as ex:
                        got = {"raises": type(ex).__name__}
                    for how, g in got.items():
                        if g != want_bits:
                            _viol(out, f"layout-init:{how}:{fa!r},{fb!r}:C({cv},{'s' if csg else 'u'}{cw})",
                                  f"{how} of struct(a:{fa!r}, b:{fb!r}) with both fields initialised by Const({cv}, {'signed' if csg else 'unsigned'}({cw})): bits {g!r}, "
                                  f"want {want_bits:#x} (a={want_a}, b={want_b})", {"kind": "layoutinit"})
    return out


WORKERS = {"ranges": w_ranges, "const": w_const, "rangeinit": w_range_init, "enums": w_enums,
           "constcast": w_constcast, "bits": w_bits, "wide": w_wide, "layoutinit": w_layout_init}


def _dispatch(t):
    return WORKERS[t[0]](t[1])


def run(rep):
    B, S = rep.pick((33, 5), (130, 9))
    V, W = rep.pick((130, 6), (600, 9))
    tasks = []
    for ch in chunks(range(-B, B + 1), 4):
        tasks.append(("ranges", (ch, B, S)))
    for ch in chunks(range(0, W + 1), 1):
        tasks.append(("const", (ch, V)))
    Bi = rep.pick(9, 20)
    for ch in chunks(range(-Bi, Bi + 1), 2):
        tasks.append(("rangeinit", (ch, Bi)))
    pool_vals = list(range(-9, 17))
    combos = [()] + [c for k in (1, 2, 3) for c in itertools.permutations(pool_vals, k)
                     if k < 3 or rep.tier == "thorough" or (c[0] < c[1] or c[1] < c[2])]
    if rep.quick:
        # order matters in the implementation (running max), keep all orders for size<=2, and for size 3 all
        # orders over a reduced value pool that still has every width/sign class
        small = [-9, -8, -2, -1, 0, 1, 2, 3, 7, 8, 15, 16]
        combos = [()] + [c for k in (1, 2) for c in itertools.permutations(pool_vals, k)] + \
                 list(itertools.permutations(small, 3))
    for ch in chunks(combos, 400):
        tasks.append(("enums", ch))
    terms = const_terms(2, rep.pick(2, 3))
    for ch in chunks(terms, 3000):
        tasks.append(("constcast", ch))
    N = rep.pick(1 << 12, 1 << 17)
    for lo in range(-N, N + 1, 2048):
        tasks.append(("bits", (lo, min(lo + 2048, N + 1))))
    # bit-count helpers and minimal shapes next to every power of two up to 2**K (far beyond 64 bits and the 53-bit float mantissa)
    K = rep.pick(140, 520)
    for k in range(12, K):
        for sign in (1, -1):
            c = sign * (1 << k)
            tasks.append(("bits", (c - 3, c + 4)))
    for ch in chunks(range(2, K), 8):
        tasks.append(("wide", list(ch)))
    tasks.append(("layoutinit", None))
    tasks = rotate(tasks, rep.seed)
    per_kind = {}
    for part in pmap(_dispatch_tagged, tasks, rep.procs):
        kind, out = part
        per_kind[kind] = per_kind.get(kind, 0) + out["cov"]["evaluations"]
        rep.merge(out)
    rep.setcov("by_family", per_kind)
    rep.setcov("rule", "every range(a,b,s) |a|,|b|<=%d |s|<=%d; every Const/Signal init/memory row (v, shape) |v|<=%d width<=%d; "
               "every plain/IntEnum/lib.enum member tuple (ordered) of size<=3 over -9..16; every Const/Cat/Slice term of depth<=2; "
               "range-shaped Signal init acceptance; bits_for/ceil_log2 for |n|<=%d and within 3 of every power of two up to 2**K; Const / range shapes / range-shaped initial "
               "values within 2 of every power of two up to 2**K. non-trivial: ranges with >=2 elements, "
               "constants that actually wrap, enums with >=2 members, non-leaf constant terms, every helper argument" % (B, S, V, W, N))
    rep.setcov("exhaustive", True)
    rep.sample({"range": [-3, 5, 2], "shape": list(min_shape(range(-3, 5, 2)))})
    rep.sample({"const": [-5, "unsigned(3)"], "value": wrap(-5, 3, False)})
    rep.sample({"enum_values": [0, -1], "shape": list(min_shape([0, -1], True))})
    rep.sample({"constcast_term": repr(terms[len(terms) // 2])})
    rep.require(rep.cov.get("accepted", 0) > 0 and rep.cov.get("rejected", 0) > 0, "range init: both accepted and rejected cases")


def _dispatch_tagged(t):
    return (t[0], WORKERS[t[0]](t[1]))


def replay(payload):
    kind = payload["kind"]
    if kind == "range":
        out = w_ranges(([payload["a"]], abs(payload["b"]), abs(payload["s"])))
        return [v["what"] for v in out["violations"] if v["payload"] == payload]
    if kind in ("const", "siginit", "meminit"):
        out = w_const(([payload["w"]], abs(payload["v"])))
        return [v["what"] for v in out["violations"] if v["payload"] == payload]
    if kind == "rangeinit":
        out = w_range_init(([payload["a"]], max(abs(payload["b"]), abs(payload["v"]))))
        return [v["what"] for v in out["violations"] if v["payload"] == payload]
    if kind == "enum":
        out = w_enums([tuple(payload["vals"])])
        return [v["what"] for v in out["violations"] if v["payload"]["base"] == payload["base"]]
    if kind == "constcast":
        def tup(t):
            return tuple(tup(x) if isinstance(x, list) else x for x in t)
        out = w_constcast([tup(payload["term"])])
        return [v["what"] for v in out["violations"]]
    if kind == "layoutinit":
        return [v["what"] for v in w_layout_init(None)["violations"]][:5]
    if kind == "wide":
        return [v["what"] for v in w_wide([payload["k"]])["violations"]]
    if kind in ("ceil_log2", "bits_for", "exact_log2"):
        out = w_bits((payload["n"], payload["n"] + 1))
        return [v["what"] for v in out["violations"]]
    return []
