"""C07 Every emitted RTLIL document is structurally well-formed -- bounded-exhaustive design enumeration + validator."""
import itertools
import warnings

from ..core.pool import pmap, rotate, chunks
from ..rtlil.validate import validate

ID = "C07"
LEVEL = "exploration"

# nodes of the hierarchy: 0 top, 1 child of top, 2 child of 1 (grandchild), 3 second child of top (sibling)
PARENT = {1: 0, 2: 1, 3: 0}
NAME_PAIRS = [("a", "b"), ("a", "a"), ("a", "a$1"), ("a$1", "a"), ("a$2", "a$2"), ("", "a"), ("", ""), ("sub", "a"), ("o0", "a"),
              ("i0", "i0"), ("a$1", "a$1"), ("clk", "rst"), ("$weird", "a"), ("a.b", "a\\b")]
SUBNAMES = [("sub", "sub2", "sub3"), (None, None, None), ("a", "a$1", "sub"), ("sub", "sub", "sub")]


def hier_designs(quick):
    w2_places = [(0, 0), (2, 3), (3, 1), (1, 2)]
    for (d1, u1) in itertools.product(range(4), repeat=2):
        for (d2, u2) in w2_places:
            for names in NAME_PAIRS:
                for widths in ((2, 1), (0, 2), (1, 0)):
                    if quick and (hash((d1, u1, d2, u2, names, widths)) % 3):
                        pass
                    yield {"kind": "hier", "w": [(names[0], widths[0], d1, u1), (names[1], widths[1], d2, u2)],
                           "subnames": SUBNAMES[(d1 + 2 * u1 + d2) % len(SUBNAMES)], "domain": "comb" if (d1 + u2) % 3 else "sync",
                           "partial": (u1 + d2) % 2 == 1, "port_internal": (d1 + u1 + u2) % 4 == 0}


def dedup_designs():
    """two signals sharing a name next to a user name of the form name$k, for every k the de-duplication scheme can produce"""
    for k in range(1, 16):
        for order in range(3):
            for extra in (0, 3):
                yield {"kind": "dedup", "k": k, "order": order, "extra": extra}


def build_dedup(spec):
    from amaranth.hdl import Module, Signal
    names = ["a", "a"]
    names.insert(spec["order"], f"a${spec['k']}")
    m = Module()
    sub = Module()
    m.submodules.sub = sub
    i = Signal(name="i")
    ports = [i]
    for j in range(spec["extra"]):
        e = Signal(name=f"e{j}")
        m.d.comb += e.eq(i)
        ports.append(e)
    for j, n in enumerate(names):
        s = Signal(name=n)
        (m if j != 1 else sub).d.comb += s.eq(i ^ (j & 1))
        o = Signal(name=f"o{j}")
        m.d.comb += o.eq(s)
        ports.append(o)
    return m, ports, None


def build_hier(spec):
    from amaranth.hdl import Module, Signal, ClockDomain, Cat
    nodes = [Module() for _ in range(4)]
    top = nodes[0]
    sn = spec["subnames"]
    # attach: named or anonymous
    def attach(parent, child, name):
        if name is None:
            parent.submodules += child
        else:
            try:
                setattr(parent.submodules, name, child)
            except Exception:
                parent.submodules += child
    attach(nodes[1], nodes[2], sn[1])
    attach(top, nodes[1], sn[0])
    attach(top, nodes[3], sn[2] if sn[2] != sn[0] else None)
    cd = ClockDomain("sync")
    top.domains.sync = cd
    ins, outs, internals = [], [], []
    for k, (name, width, drv, usr) in enumerate(spec["w"]):
        i = Signal(max(width, 1), name=f"i{k}")
        o = Signal(max(width, 1), name=f"o{k}")
        w = Signal(width, name=name) if name != "" else Signal(width, name="")
        dom = nodes[drv].d[spec["domain"]]
        dom += w.eq(i + k)
        if spec["partial"] and width > 1:
            nodes[usr].d.comb += o.eq(w[0])
        else:
            nodes[usr].d.comb += o.eq(w)
        ins.append(i)
        outs.append(o)
        internals.append(w)
    ports = ins + outs + [cd.clk, cd.rst]
    if spec["port_internal"] and internals[0].name != "":
        ports.append(internals[0])
    return top, ports, None


def inst_designs():
    params_pool = [
        {"P_STR": "hello", "P_INT": 5},
        {"P_BIG": 2 ** 40 + 3, "P_NEG": -7},
        {"P_FLOAT": 1.5, "P_EMPTY": ""},
        {"P_CONST": ("const", 5, 4, False), "P_SCONST": ("const", -3, 4, True)},
        {"P_QUOTE": 'a"b\\c', "P_NL": "x\ny"},
        {"P_ZERO": 0, "P_31": 2 ** 31, "P_M31": -(2 ** 31)},
        # integers around and beyond the 32-bit boundary, both signs (sized by the back end itself)
        {"P_M31M1": -(2 ** 31) - 1, "P_WNEG": -3_000_000_000, "P_BIGNEG": -(10 ** 12), "P_31M1": 2 ** 31 - 1},
        {"P_32M1": 2 ** 32 - 1, "P_M1": -1, "P_M63": -(2 ** 63), "P_M32": -(2 ** 32), "P_M32M5": -(2 ** 32) - 5},
    ]
    for pi, params in enumerate(params_pool):
        for widths in ((1, 1, 1), (3, 2, 0), (0, 4, 2)):
            for place in (0, 1, 2):
                for conn in ("sig", "slice", "cat", "const"):
                    yield {"kind": "inst", "params": params, "widths": widths, "place": place, "conn": conn, "padslice": 0,
                           "attrs": ({"keep": 1, "note": "n" + str(pi)} if pi % 2 else {}) if pi < 6 else
                                    {"off": -3_000_000_000, "big": 2 ** 40 + 1, "neg": -5, "edge": -(2 ** 31) - 1}}
    # partially used I/O ports: an instance / I/O buffer in a (sub)module uses a slice of the port that does not start at bit 0
    for place in (0, 1, 2):
        for padw in (2, 3, 5):
            for start in range(1, padw):
                for use in ("inst", "iobuf", "both"):
                    yield {"kind": "inst", "params": {"P_INT": 1}, "widths": (1, 1, padw), "place": place, "conn": "sig", "padslice": start,
                           "attrs": {}, "use": use}


def build_inst(spec):
    from amaranth.hdl import Module, Signal, Instance, Const, Cat, IOPort, Shape
    top = Module()
    nodes = [top, Module(), Module()]
    top.submodules.c1 = nodes[1]
    nodes[1].submodules.c2 = nodes[2]
    wi, wo, wio = spec["widths"]
    a = Signal(max(wi, 1) + 2, name="a")
    y = Signal(max(wo, 1) + 1, name="y")
    pad = IOPort(wio, name="pad")
    kwargs = {}
    exp_params = {}
    for k, v in spec["params"].items():
        if isinstance(v, tuple):
            kwargs["p_" + k] = Const(v[1], Shape(v[2], v[3]))
            exp_params[k] = (v[1], v[2], v[3])
        else:
            kwargs["p_" + k] = v
            exp_params[k] = v
    for k, v in spec["attrs"].items():
        kwargs["a_" + k] = v
    if spec["conn"] == "sig":
        i_val = a[:wi]
        o_val = y[:wo]
    elif spec["conn"] == "slice":
        i_val = a[1:1 + wi]
        o_val = y[1:1 + wo]
    elif spec["conn"] == "cat":
        i_val = Cat(a[:wi - wi // 2], a[2:2 + wi // 2])
        o_val = Cat(y[:wo - wo // 2], y[wo - wo // 2:wo]) if wo else y[:0]
    else:
        i_val = Const(5, wi)
        o_val = y[:wo]
    # the bits of y that the instance output does not cover are driven by ordinary statements of ONE (module, domain) pair: the signal is
    # then driven partly by a cell output and partly by logic
    if spec.get("use", "inst") in ("inst", "both") and spec["conn"] in ("sig", "slice", "const"):
        lo, hi = (0, wo) if spec["conn"] != "slice" else (1, 1 + wo)
        host = nodes[spec["place"]]
        dom = host.d.comb
        if lo:
            dom += y[:lo].eq(a[:lo])
        if hi < len(y):
            dom += y[hi:].eq(~a[:len(y) - hi])
    start = spec.get("padslice", 0)
    use = spec.get("use", "inst")
    ports = [a, y, pad]
    pad_val = pad
    padw = wio
    if start:
        from amaranth.hdl import IOBufferInstance
        hi = pad[start:]
        lo = pad[:start]
        padw = wio - start
        pad_val = hi
        if use in ("iobuf", "both"):
            # the lower part of the port goes to an input buffer in the same module (both), or the upper part does (iobuf)
            t = Signal(len(lo) if use == "both" else len(hi), name="t")
            nodes[spec["place"]].submodules.buf = IOBufferInstance(lo if use == "both" else hi, i=t)
            o2 = Signal(len(t), name="o2")
            top.d.comb += o2.eq(t)
            ports.append(o2)
    exp = {}
    if use in ("inst", "both"):
        inst = Instance("FOREIGN", i_din=i_val, o_dout=o_val, io_pad=pad_val, **kwargs)
        nodes[spec["place"]].submodules.u0 = inst
        exp = {"u0": {"type": "FOREIGN", "params": exp_params, "attrs": dict(spec["attrs"]),
                      "ports": {"din": ("i", wi), "dout": ("o", wo), "pad": ("io", padw)}}}
    else:
        top.d.comb += y.eq(a)
    return top, ports, exp


def mem_designs():
    for depth in (0, 1, 3, 4):
        for width in (0, 1, 3):
            for nw, nr, comb in ((1, 1, False), (2, 2, True), (0, 1, True), (1, 0, False)):
                for gran in (None, 1):
                    if gran and (width < 2 or nw == 0):
                        continue
                    for place in (0, 1):
                        yield {"kind": "mem", "depth": depth, "width": width, "nw": nw, "nr": nr, "comb": comb, "gran": gran, "place": place}


def build_mem(spec):
    from amaranth.hdl import Module, Signal, ClockDomain
    from amaranth.lib.memory import Memory
    top = Module()
    cd = ClockDomain("sync")
    top.domains.sync = cd
    host = top
    if spec["place"]:
        host = Module()
        top.submodules.host = host
    mem = Memory(shape=spec["width"], depth=spec["depth"], init=[])
    host.submodules.mem = mem
    ports = [cd.clk, cd.rst]
    wps = []
    for k in range(spec["nw"]):
        wp = mem.write_port(granularity=spec["gran"])
        wps.append(wp)
        for nm, sig in (("wa", wp.addr), ("wd", wp.data), ("we", wp.en)):
            s = Signal(len(sig), name=f"{nm}{k}")
            top.d.comb += sig.eq(s)
            ports.append(s)
    for k in range(spec["nr"]):
        if spec["comb"] and k == 0:
            rp = mem.read_port(domain="comb")
        else:
            rp = mem.read_port(transparent_for=wps[:1])
        ra = Signal(len(rp.addr), name=f"ra{k}")
        rd = Signal(len(rp.data), name=f"rd{k}")
        top.d.comb += [rp.addr.eq(ra), rd.eq(rp.data)]
        ports += [ra, rd]
    return top, ports, None


def lib_designs():
    from . import c04
    for name in c04.SEQ_DESIGNS:
        yield {"kind": "lib", "name": name}
    for n in range(0, 40):
        yield {"kind": "stmtbatch", "n": n}


def build_lib(spec):
    from . import c04, c02
    if spec["kind"] == "lib":
        m, ins, clks, outs, *_rest = c04.SEQ_DESIGNS[spec["name"]]()
        return m, ins + clks + outs, None
    from amaranth.hdl import Module, Signal, Shape, ClockDomain, Cat
    mods = c02.module_terms(True)
    sel = mods[spec["n"]::40][:60]
    top = Module()
    cd = ClockDomain("sync")
    top.domains.sync = cd
    child = Module()
    top.submodules.child = child
    ins = {i: Signal(Shape(*sh), name=f"in{i}") for i, sh in c02.INPUTS.items()}
    outs = []
    for n, stmts in enumerate(sel):
        sigs = dict(ins)
        for i, (w, sg, init) in c02.DRIVEN.items():
            sigs[i] = Signal(Shape(w, sg), init=init, name=("t", "u")[i - 10])      # every copy shares the names t / u
        where = (top, child)[n % 2]
        c02.emit(where, where.d["sync" if n % 3 == 0 else "comb"], stmts, sigs)
        outs += [sigs[i] for i in sorted(c02.DRIVEN)]
    return top, list(ins.values()) + [cd.clk, cd.rst] + outs[::3], None



# ------------------------------------------------------------------ signals with shape-castable shapes (enum attributes, field wires)
SHAPED = ("uenum", "senum", "senum1", "flag", "struct", "struct_senum", "array", "union")


def shaped_designs():
    for shape in SHAPED:
        for dup in (0, 1, 2):           # 0: one signal; 1: two signals with the same name in one module; 2: same name in parent and child
            for place in (0, 1):        # module holding the first signal: top / child
                for as_port in (False, True):
                    yield {"kind": "shaped", "shape": shape, "dup": dup, "place": place, "as_port": as_port}


def _shaped(name):
    from amaranth.hdl import signed
    from amaranth.lib import enum as aenum, data

    class UE(aenum.Enum, shape=2):
        A = 0
        B = 3

    class SE(aenum.Enum, shape=signed(3)):
        N = -4
        M = -1
        Z = 0
        P = 3

    class SE1(aenum.Enum, shape=signed(1)):
        N = -1
        Z = 0

    class FL(aenum.Flag, shape=3):
        X = 1
        Y = 4
    members = {"uenum": (UE, 2), "senum": (SE, 3), "senum1": (SE1, 1), "flag": (FL, 3)}
    if name in members:
        cls, w = members[name]
        return cls, {format(m.value & ((1 << w) - 1), f"0{w}b"): m.name for m in cls}
    if name == "struct":
        return data.StructLayout({"a": 2, "b": signed(2)}), {}
    if name == "struct_senum":
        return data.StructLayout({"k": SE, "v": 1, "u": UE}), {format(m.value & 7, "03b"): m.name for m in SE} | {format(m.value, "02b"): m.name for m in UE}
    if name == "array":
        return data.ArrayLayout(signed(2), 2), {}
    return data.UnionLayout({"x": 3, "e": SE1}), {format(m.value & 1, "01b"): m.name for m in SE1}


def build_shaped(spec):
    from amaranth.hdl import Module, Signal, Value
    top, child = Module(), Module()
    top.submodules.child = child
    shape, _enum = _shaped(spec["shape"])
    nodes = [top, child]
    w = len(Value.cast(Signal(shape)))
    x = Signal(w, name="x")
    ports = [x]
    first = Signal(shape, name="payload")
    nodes[spec["place"]].d.comb += Value.cast(first).eq(x)
    sigs = [first]
    if spec["dup"]:
        second = Signal(shape, name="payload")
        where = nodes[spec["place"]] if spec["dup"] == 1 else nodes[1 - spec["place"]]
        where.d.comb += Value.cast(second).eq(~x)
        sigs.append(second)
    y = Signal(w, name="y")
    acc = Value.cast(sigs[0])
    for sg in sigs[1:]:
        acc = acc ^ Value.cast(sg)
    top.d.comb += y.eq(acc)
    ports.append(y)
    if spec["as_port"]:
        ports += [Value.cast(sg) for sg in sigs]
    return top, ports, None


# ------------------------------------------------------------------ assignment targets: run-time part selects of array elements of different widths
def arrtarget_designs():
    for widths in ((4, 8), (8, 4), (2, 5), (3, 3), (1, 6, 3)):
        for sel in ("wsel", "bsel"):
            for w in (1, 2, 3):
                for offw in (1, 2, 3):
                    for dom in ("comb", "sync"):
                        yield {"kind": "arrtarget", "widths": widths, "sel": sel, "w": w, "offw": offw, "dom": dom}


def build_arrtarget(spec):
    from amaranth.hdl import Module, Signal, Array
    top, child = Module(), Module()
    top.submodules.child = child
    elems = [Signal(w, name=f"e{n}") for n, w in enumerate(spec["widths"])]
    idx = Signal(range(len(elems)), name="idx")
    off = Signal(spec["offw"], name="off")
    x = Signal(spec["w"], name="x")
    proxy = Array(elems)[idx]
    tgt = proxy.word_select(off, spec["w"]) if spec["sel"] == "wsel" else proxy.bit_select(off, spec["w"])
    child.d[spec["dom"]] += tgt.eq(x)
    return top, elems + [idx, off, x], None


BUILDERS = {"dedup": build_dedup, "hier": build_hier, "inst": build_inst, "mem": build_mem, "lib": build_lib, "stmtbatch": build_lib, "shaped": build_shaped, "arrtarget": build_arrtarget}


def check_one(spec):
    from amaranth.back import rtlil
    with warnings.catch_warnings():
        warnings.simplefilter("ignore")
        try:
            m, ports, exp = BUILDERS[spec["kind"]](spec)
        except Exception as ex:
            return None, [f"harness could not build the design: {type(ex).__name__}: {ex}"], True
        try:
            text = rtlil.convert(m, ports=ports, emit_src=False)
        except Exception as ex:
            return None, [f"convert raises {type(ex).__name__}: {ex}"], False
    probs, modules = validate(text, instances=exp if exp is not None else {})
    if spec["kind"] == "shaped":
        # every enumeration member is announced as an attribute keyed by its bit pattern (two's complement at the signal's / field's width)
        import re
        got = {(b, n) for b, n in re.findall(r'attribute \\enum_value_([01]*) "([^"]*)"', text)}
        want = set(_shaped(spec["shape"])[1].items())
        if got != want:
            probs = probs + [f"enum_value attributes {sorted(got)} differ from the members' bit patterns {sorted(want)}"]
    return text, probs, False


def work(specs):
    out = {"cov": {"evaluations": 0, "distinct_nontrivial": 0, "documents_with_submodules": 0, "rtlil_bytes": 0, "harness_skips": 0},
           "samples": [], "violations": []}
    for spec in specs:
        text, probs, harness = check_one(spec)
        if harness:
            out["cov"]["harness_skips"] += 1
            continue
        out["cov"]["evaluations"] += 1
        if text is not None:
            out["cov"]["rtlil_bytes"] += len(text)
            if text.count("\nmodule ") + text.startswith("module ") > 1 or "cell \\" in text:
                out["cov"]["documents_with_submodules"] += 1
            out["cov"]["distinct_nontrivial"] += 1
        if probs:
            key = probs[0]
            # the signature names the design, the first problem names the rule that is broken
            out["violations"].append({"sig": f"{spec_sig(spec)}", "what": f"design {spec}: {probs[:4]}", "payload": {"spec": spec}})
    if specs:
        out["samples"].append({"design": specs[len(specs) // 2]})
    return out


def spec_sig(spec):
    if spec["kind"] == "hier":
        return "hier:" + ";".join(f"{n!r},{w},{d}->{u}" for n, w, d, u in spec["w"]) + f":{spec['subnames']}:{spec['domain']}:{int(spec['partial'])}{int(spec['port_internal'])}"
    return spec["kind"] + ":" + ",".join(f"{k}={v}" for k, v in sorted(spec.items()) if k != "kind")


def run(rep):
    specs = list(hier_designs(rep.quick)) + list(dedup_designs()) + list(inst_designs()) + list(mem_designs()) + list(lib_designs()) + list(shaped_designs()) + list(arrtarget_designs())
    rep.setcov("designs_enumerated", len(specs))
    tasks = rotate(list(chunks(specs, 60)), rep.seed)
    for part in pmap(work, tasks, rep.procs):
        rep.merge(part)
    rep.setcov("rule", "designs: 4-node hierarchies (top/child/grandchild/sibling) with two wires whose driver and user sit in every pair of nodes, 14 name pairs "
               "(duplicates, a$1/a$2 suffix clashes, private '', clashes with ports/submodules/clk, odd characters), widths incl. 0, partial use, anonymous and "
               "duplicate-named submodules, empty modules; foreign Instances (str/int/big/negative/float/Const parameters, attributes, i/o/io ports connected to "
               "signals/slices/concatenations/constants, at 3 hierarchy levels); memories (depth 0..4, width 0..3, 0-2 ports, comb/sync, granularity); the C04 "
               "sequential designs and C02 statement batches with shared signal names; signals shaped by enumerations (unsigned, signed with negative members, "
               "flags), structs, arrays and unions, alone and with a same-named twin in the same or another module (enum_value attributes compared with "
               "the members' two's-complement bit patterns); run-time part selects of array elements of different widths as assignment targets. Each emitted document is checked by vf/rtlil/validate.py. "
               "non-trivial: a document was emitted")
    rep.setcov("exhaustive", True)
    rep.require(rep.cov.get("harness_skips", 0) == 0, "every enumerated design could be built")
    rep.require(rep.cov.get("documents_with_submodules", 0) > 100, "hierarchical documents seen")


def replay(payload):
    def fix(x):
        if isinstance(x, list):
            return tuple(fix(y) for y in x)
        if isinstance(x, dict):
            return {k: fix(v) for k, v in x.items()}
        return x
    spec = fix(payload["spec"])
    if spec["kind"] == "hier":
        spec["w"] = [tuple(w) for w in spec["w"]]
    text, probs, harness = check_one(spec)
    return probs[:6]
